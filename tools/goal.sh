#!/bin/sh
# usage: tools/goal.sh FILE LINE [N] -- show the focused goal after LINE lines of coq/FILE
head -$2 /verif/coq/$1 > /tmp/_goal.v; echo "Show. " >> /tmp/_goal.v
cd /verif/coq && coqc -Q . PGV /tmp/_goal.v 2>&1 | head -${3:-60}
