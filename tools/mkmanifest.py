#!/usr/bin/env python3
"""Assemble /verif/MANIFEST.json from the MANIFEST dict of every props/cNN.py; unclaimed properties go to not_applicable."""
import glob, importlib, json, os, sys
VERIF = os.path.dirname(os.path.dirname(os.path.abspath(__file__)))
sys.path.insert(0, os.path.join(VERIF, "lib")); sys.path.insert(0, VERIF)
props = [json.loads(l)["id"] for l in open(os.path.join(VERIF, "properties.jsonl"))]
NOT_YET = json.load(open(os.path.join(VERIF, "tools", "not_claimed.json")))
checks, na = [], []
for pid in props:
    p = os.path.join(VERIF, "props", pid.lower() + ".py")
    m = importlib.import_module("props." + pid.lower()) if os.path.exists(p) else None
    if m is not None and getattr(m, "READY", False):
        d = dict(m.MANIFEST)
        c = {"property_id": pid,
             "quick_cmd": "./check %s --tier quick" % pid,
             "thorough_cmd": "./check %s --tier thorough" % pid,
             "evidence_file": "/verif/evidence/%s.json" % pid,
             "replay_cmd_template": "./check %s --replay {path}" % pid,
             "engine": d.get("engine", "coq+go-harness"),
             "level_claimed": {"category": d["category"], "text": d["text"], "design_ref": d.get("design_ref", "DESIGN.md §4 " + pid)},
             "level_note": d["level_note"], "technique": d["technique"]}
        checks.append(c)
    else:
        na.append({"property_id": pid, "reason": NOT_YET.get(pid, "no check built yet in this development; not claimed")})
hooks = json.load(open(os.path.join(VERIF, "tools", "hooks.json")))
man = {"version": 1, "setup_cmd": "./check --setup", "hooks": hooks,
       "engines": [
           {"name": "coq", "path": "/verif/coq", "serves_properties": [c["property_id"] for c in checks],
            "kind_free_text": "Coq 8.16.1 development: executable Gallina models + theorems (Properties/*.v), full .vo build"},
           {"name": "go-harness", "path": "/verif/harness", "serves_properties": [c["property_id"] for c in checks],
            "kind_free_text": "Go drivers linked against /repo's working tree (replace directives, -tags verif); outputs compared with the model evaluated by vm_compute (correspondence) and checked by implementation-side property oracles"}],
       "checks": checks,
       "notes": "All checks: ./check <id> --tier quick|thorough. See DESIGN.md. Unclaimed properties are listed under not_applicable with the reason.",
       "not_applicable": na}
open(os.path.join(VERIF, "MANIFEST.json"), "w").write(json.dumps(man, indent=1) + "\n")
print("claimed:", [c["property_id"] for c in checks], "unclaimed:", [n["property_id"] for n in na])
