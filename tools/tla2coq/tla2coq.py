#!/usr/bin/env python3
"""tla2coq: TLA+ module (the PlusCal translation that TLC model-checks) -> Coq terms of PGV.C02.Lang.

Runs SANY's XML exporter (tla2sany.xml.XMLExporter in tla2tools.jar) on the spec, streams the XML,
and walks the semantic tree: every operator definition of the root module, one action per label
(definitions whose body starts with  pc[self] = "<own name>"), Init, the process structure read off
Next. Syntax-directed; a construct outside the supported fragment becomes  EUnsupported "<what>"  at
that position (so unrelated temporal properties do not stop the translation) -- such a node makes
the checker refuse the label / definition it occurs in; it is never silently dropped.

usage: tla2coq.py --sys NAME --tla spec.tla --out Gen/NAME_tla.v --json NAME_tla.json [--workdir DIR]
       [--pcal-from file.expectpcal]   (gotests pairs: run the stock pcal translator first)
"""
import argparse, hashlib, json, os, re, shutil, subprocess, sys, tempfile
import xml.etree.ElementTree as ET

JAR = "/opt/veriftools/tla/tla2tools.jar"
STD_MODULES = {"Naturals", "Integers", "Reals", "Sequences", "FiniteSets", "Bags", "TLC", "Peano", "ProtoReals",
               "RealTime", "Randomization", "Json", "TLCExt", "_TLCTrace", "Toolbox"}


class TErr(Exception):
    pass


def cq(s):
    return '"' + s.replace('"', '""') + '"'


def clist(xs):
    return "[" + "; ".join(xs) + "]"


# ---------------------------------------------------------------- XML -> compact tree

def compact(n):
    """XML element -> (tag, text, [children]) without location/level"""
    kids = [compact(c) for c in n if c.tag not in ("location", "level")]
    # string literals keep their exact text (leading/trailing blanks are significant)
    return (n.tag, (n.text or "") if n.tag == "StringValue" else (n.text or "").strip(), kids)


def child(n, tag):
    for c in n[2]:
        if c[0] == tag:
            return c
    return None


def children(n, tag):
    return [c for c in n[2] if c[0] == tag]


def first_line(elem):
    loc = elem.find("location")
    if loc is None:
        return None
    try:
        return int(loc.find("line").find("begin").text), loc.find("filename").text
    except Exception:
        return None


def load(xml_path):
    ents, lines, root_name = {}, {}, None
    for ev, el in ET.iterparse(xml_path, events=("end",)):
        if el.tag == "RootModule":
            root_name = el.text.strip()
        elif el.tag == "entry":
            uid = el.find("UID").text.strip()
            node = [c for c in el if c.tag != "UID"][0]
            lines[uid] = first_line(node)
            ents[uid] = compact(node)
            el.clear()
    return ents, lines, root_name


# ---------------------------------------------------------------- translation

BUILTIN = {  # SANY builtin kinds with a direct operator
    "=": "B_eq", "/=": "B_neq", "\\lnot": "B_not", "\\land": "B_and", "\\lor": "B_or", "=>": "B_implies",
    "\\equiv": "B_equiv", "\\in": "B_in", "\\notin": "B_notin", "\\union": "B_cup", "\\intersect": "B_cap",
    "\\": "B_setminus", "\\subseteq": "B_subseteq", "SUBSET": "B_SUBSET", "UNION": "B_UNION", "DOMAIN": "B_DOMAIN",
}
STDOPS = {  # operators of the standard modules, by name
    "+": "B_plus", "-": "B_minus", "*": "B_times", "\\div": "B_div", "%": "B_mod", "^": "B_exp", "-.": "B_neg",
    "<": "B_lt", "\\leq": "B_le", "<=": "B_le", "=<": "B_le", ">": "B_gt", "\\geq": "B_ge", ">=": "B_ge", "..": "B_dotdot",
    "Len": "B_Len", "Append": "B_Append", "Head": "B_Head", "Tail": "B_Tail", "\\o": "B_concat", "\\circ": "B_concat",
    "SubSeq": "B_SubSeq", "Seq": "B_Seq", "Cardinality": "B_Cardinality", "IsFiniteSet": "B_IsFiniteSet",
    ":>": "B_mapsto1", "@@": "B_atat", "ToString": "B_ToString", "Assert": "B_Assert", "PrintT": "B_PrintT",
    "Print": "B_Print", "BagCardinality": "B_BagCardinality", "BagToSet": "B_BagToSet", "SetToBag": "B_SetToBag",
    "(+)": "B_bagplus", "\\oplus": "B_bagplus", "(-)": "B_bagminus", "\\ominus": "B_bagminus", "BagIn": "B_BagIn",
    "EmptyBag": "B_EmptyBag", "CopiesIn": "B_CopiesIn", "IsABag": "B_IsABag", "Nat": "B_Nat", "Int": "B_Int",
}


class Tr:
    def __init__(self, ents, lines, root_name):
        self.ents, self.lines = ents, lines
        self.root_uid = None
        for uid, n in ents.items():
            if n[0] == "ModuleNode" and child(n, "uniquename")[1] == root_name:
                self.root_uid = uid
        if self.root_uid is None:
            raise TErr("root module %s not found in the SANY output" % root_name)
        root = ents[self.root_uid]
        self.top_defs = [child(c, "UID")[1] for c in root[2] if c[0] == "UserDefinedOpKindRef"]
        self.top_set = set(self.top_defs)
        self.module_name = {uid: child(n, "uniquename")[1] for uid, n in ents.items() if n[0] == "ModuleNode"}

    def name(self, uid):
        return child(self.ents[uid], "uniquename")[1]

    def def_module(self, uid):
        m = child(self.ents[uid], "originallyDefinedInModule")
        if m is None:
            return None
        return self.module_name.get(child(m[2][0], "UID")[1])

    def is_std(self, uid):
        return self.def_module(uid) in STD_MODULES

    def is_root_def(self, uid):
        return uid in self.top_set and self.def_module(uid) == self.module_name[self.root_uid]

    # ---- expressions
    def exprs(self, ns):
        return clist([self.expr(n) for n in ns])

    def bounds(self, n):
        """boundSymbols -> list of (pattern text, set text); x, y \\in S is expanded to two bounds"""
        bs = child(n, "boundSymbols")
        out = []
        if bs is None:
            return out
        for b in bs[2]:
            if b[0] == "unbound":
                raise TErr("unbounded quantifier")
            params = [self.name(child(c, "UID")[1]) for c in b[2] if c[0] == "FormalParamNodeRef"]
            is_tuple = any(c[0] == "tuple" for c in b[2])
            setn = [c for c in b[2] if c[0] not in ("FormalParamNodeRef", "tuple")]
            if len(setn) != 1:
                raise TErr("bound without exactly one set")
            s = self.expr(setn[0])
            if is_tuple:
                out.append(("PTup " + clist([cq(p) for p in params]), s))
            else:
                for p in params:
                    out.append(("PVar " + cq(p), s))
        return out

    def bnd(self, bs):
        return clist(["(%s, %s)" % b for b in bs])

    def expr(self, n):
        try:
            return self.expr1(n)
        except TErr as e:
            return "EUnsupported " + cq(str(e))

    def expr1(self, n):
        tag = n[0]
        if tag == "NumeralNode":
            return "ENum " + child(n, "IntValue")[1]
        if tag == "StringNode":
            return "EStr " + cq(child(n, "StringValue")[1])
        if tag == "DecimalNode":
            raise TErr("decimal literal")
        if tag == "AtNode":
            return "EAt"
        if tag == "LetInNode":
            body = self.expr(child(n, "body")[2][0])
            defs = [child(c, "UID")[1] for c in child(n, "opDefs")[2] if c[0] == "UserDefinedOpKindRef"]
            for uid in reversed(defs):
                d = self.ents[uid]
                ps = self.params(d)
                body = "ELet %s %s (%s) (%s)" % (cq(self.name(uid)), clist([cq(p) for p in ps]),
                                                 self.expr(child(d, "body")[2][0]), body)
            return body
        if tag == "OpApplNode":
            return self.opappl(n)
        if tag == "SubstInNode" or tag == "APSubstInNode":
            raise TErr("INSTANCE substitution")
        if tag == "LabelNode":
            return self.expr(child(n, "body")[2][0])
        raise TErr("node " + tag)

    def params(self, d):
        ps = child(d, "params")
        out = []
        if ps is not None:
            for lp in ps[2]:
                ref = child(lp, "FormalParamNodeRef")
                uid = child(ref, "UID")[1]
                if child(self.ents[uid], "arity")[1] != "0":
                    raise TErr("higher-order operator parameter")
                out.append(self.name(uid))
        return out

    def opappl(self, n):
        opref = child(n, "operator")[2][0]
        kind, uid = opref[0], child(opref, "UID")[1]
        args = child(n, "operands")[2]
        if kind == "FormalParamNodeRef":
            if args:
                raise TErr("application of an operator parameter")
            return "EVar " + cq(self.name(uid))
        if kind == "OpDeclNodeRef":
            d = self.ents[uid]
            nm, k = self.name(uid), child(d, "kind")[1]
            if k == "2":  # CONSTANT
                if nm == "defaultInitValue":
                    return "EOp B_default []"
                return "EConst %s %s" % (cq(nm), self.exprs(args))
            if k == "3":  # VARIABLE
                return "EState " + cq(nm)
            raise TErr("declaration kind " + k)
        if kind == "UserDefinedOpKindRef":
            nm = self.name(uid)
            if self.is_std(uid):
                if nm in STDOPS:
                    return "EOp %s %s" % (STDOPS[nm], self.exprs(args))
                raise TErr("standard-module operator " + nm)
            if uid in self.top_set:
                return "ECall %s %s" % (cq(nm), self.exprs(args))
            # LET-defined
            if child(self.ents[uid], "arity")[1] == "0":
                return "EVar " + cq(nm)
            return "ECall %s %s" % (cq(nm), self.exprs(args))
        if kind != "BuiltInKindRef":
            raise TErr("operator kind " + kind)
        nm = self.name(uid)
        if nm in BUILTIN:
            return "EOp %s %s" % (BUILTIN[nm], self.exprs(args))
        if nm == "TRUE":
            return "EBool true"
        if nm == "FALSE":
            return "EBool false"
        if nm == "STRING":
            return "EOp B_STRING []"
        if nm == "BOOLEAN":
            return "EOp B_BOOLEAN []"
        if nm == "'":
            a = args[0]
            if a[0] == "OpApplNode":
                r = child(a, "operator")[2][0]
                if r[0] == "OpDeclNodeRef" and child(self.ents[child(r, "UID")[1]], "kind")[1] == "3":
                    return "EPrime " + cq(self.name(child(r, "UID")[1]))
            raise TErr("prime of a non-variable")
        if nm == "UNCHANGED":
            a = args[0]
            if a[0] == "OpApplNode" and child(a, "operator")[2][0][0] == "BuiltInKindRef" and \
                    self.name(child(child(a, "operator")[2][0], "UID")[1]) == "$Tuple":
                return "EUnchanged " + self.exprs(child(a, "operands")[2])
            return "EUnchanged " + self.exprs([a])
        if nm == "$ConjList":
            return "EConj " + self.exprs(args)
        if nm == "$DisjList":
            return "EDisj " + self.exprs(args)
        if nm == "$IfThenElse":
            return "EIf (%s) (%s) (%s)" % tuple(self.expr(a) for a in args)
        if nm == "$FcnApply":
            return "EApp (%s) (%s)" % (self.expr(args[0]), self.expr(args[1]))
        if nm == "$RcdSelect":
            return "EApp (%s) (%s)" % (self.expr(args[0]), self.expr(args[1]))
        if nm == "$Tuple":
            return "ETuple " + self.exprs(args)
        if nm == "$SetEnumerate":
            return "ESetEnum " + self.exprs(args)
        if nm == "$CartesianProd":
            return "ECross " + self.exprs(args)
        if nm == "$SetOfFcns":
            return "EFuncSet (%s) (%s)" % (self.expr(args[0]), self.expr(args[1]))
        if nm in ("$RcdConstructor", "$SetOfRcds"):
            fs = []
            for p in args:
                pa = child(p, "operands")[2]
                fs.append("(%s, %s)" % (cq(child(pa[0], "StringValue")[1]), self.expr(pa[1])))
            return ("ERecord " if nm == "$RcdConstructor" else "ERecordSet ") + clist(fs)
        if nm == "$Except":
            subs = []
            for p in args[1:]:
                pa = child(p, "operands")[2]
                path = child(pa[0], "operands")[2]
                subs.append("(%s, %s)" % (self.exprs(path), self.expr(pa[1])))
            return "EExcept (%s) %s" % (self.expr(args[0]), clist(subs))
        if nm == "$Case":
            arms, other = [], "None"
            for p in args:
                pa = child(p, "operands")[2]
                c = pa[0]
                is_other = c[0] == "OpApplNode" and child(c, "operator")[2][0][0] == "BuiltInKindRef" and \
                    self.name(child(child(c, "operator")[2][0], "UID")[1]) == "$Other"
                if c[0] == "null" or is_other:
                    other = "(Some (%s))" % self.expr(pa[1])
                else:
                    arms.append("(%s, %s)" % (self.expr(c), self.expr(pa[1])))
            return "ECase %s %s" % (clist(arms), other)
        if nm in ("$FcnConstructor", "$BoundedExists", "$BoundedForall", "$SetOfAll"):
            bs = self.bounds(n)
            body = self.expr(args[0])
            if nm == "$SetOfAll":
                return "ESetMap (%s) %s" % (body, self.bnd(bs))
            c = {"$FcnConstructor": "EFunc", "$BoundedExists": "EExists", "$BoundedForall": "EForall"}[nm]
            return "%s %s (%s)" % (c, self.bnd(bs), body)
        if nm in ("$SubsetOf", "$BoundedChoose"):
            bs = self.bounds(n)
            if len(bs) != 1:
                raise TErr(nm + " with several bounds")
            c = "EFilter" if nm == "$SubsetOf" else "EChoose"
            return "%s (%s) (%s) (%s)" % (c, bs[0][0], bs[0][1], self.expr(args[0]))
        raise TErr("builtin " + nm)

    # ---- module structure
    def body_of(self, uid):
        return child(self.ents[uid], "body")[2][0]

    def op_name(self, n):
        """name of the operator applied at an OpApplNode (builtin or user), or None"""
        if n[0] != "OpApplNode":
            return None, None, None
        r = child(n, "operator")[2][0]
        return r[0], child(r, "UID")[1], self.name(child(r, "UID")[1])

    def flatten(self, n, ops):
        k, uid, nm = self.op_name(n)
        if k == "BuiltInKindRef" and nm in ops:
            out = []
            for a in child(n, "operands")[2]:
                out += self.flatten(a, ops)
            return out
        return [n]

    def action_label(self, uid):
        """if the definition is a pcal action ( /\\ pc[self] = "name" ... or /\\ pc = "name" ...) return (label, self_param or None)"""
        d = self.ents[uid]
        body = self.body_of(uid)
        conj = self.flatten(body, ("$ConjList", "\\land"))
        if not conj:
            return None
        k, u, nm = self.op_name(conj[0])
        if nm != "=":
            return None
        l, r = child(conj[0], "operands")[2]
        if r[0] != "StringNode":
            return None
        lbl = child(r, "StringValue")[1]
        ps = self.params(d)
        kk, uu, nn = self.op_name(l)
        if kk == "OpDeclNodeRef" and nn == "pc" and not ps:
            return (lbl, None, None)
        if kk == "BuiltInKindRef" and nn == "$FcnApply":
            f, a = child(l, "operands")[2]
            k1, u1, n1 = self.op_name(f)
            k2, u2, n2 = self.op_name(a)
            if k1 == "OpDeclNodeRef" and n1 == "pc":
                if len(ps) == 1 and k2 == "FormalParamNodeRef" and n2 == ps[0]:
                    return (lbl, ps[0], None)
                if not ps:
                    return (lbl, None, self.expr(a))   # single process: pc[<id>]
        return None


def go_public(n):
    return n[:1].upper() + n[1:]


def run_sany(tla_path, workdir):
    xml_path = os.path.join(workdir, "spec.xml")
    heap = "-Xmx8g" if os.path.getsize(tla_path) > 200000 else "-Xmx2g"
    with open(xml_path, "w") as out:
        p = subprocess.run(["java", heap, "-XX:+UseParallelGC", "-cp", JAR, "tla2sany.xml.XMLExporter", "-o",
                            os.path.basename(tla_path)], cwd=os.path.dirname(tla_path), stdout=out,
                           stderr=subprocess.PIPE, text=True, timeout=900)
    if p.returncode != 0 or os.path.getsize(xml_path) < 100:
        raise TErr("SANY XMLExporter failed on %s: %s" % (tla_path, p.stderr[-2000:]))
    return xml_path


def module_name(path):
    m = re.search(r"-{4,}\s*MODULE\s+(\w+)\s*-{4,}", open(path, errors="replace").read())
    if not m:
        raise TErr("no MODULE header in " + path)
    return m.group(1)


def prepare_spec(tla, pcal_from, workdir):
    """copy the spec under the name of the module it contains (and, for gotests pairs, produce the TLA+ translation
    with the stock pcal translator)"""
    src = pcal_from if pcal_from else tla
    base = module_name(src) + ".tla"
    dst = os.path.join(workdir, base)
    shutil.copy(src, dst)
    if pcal_from:
        p = subprocess.run(["java", "-XX:+UseParallelGC", "-cp", JAR, "pcal.trans", "-nocfg", base], cwd=workdir,
                           stdout=subprocess.PIPE, stderr=subprocess.STDOUT, text=True, timeout=300)
        if p.returncode != 0 or "Translation completed" not in p.stdout and "New file" not in p.stdout:
            raise TErr("pcal translator failed on %s: %s" % (pcal_from, p.stdout[-2000:]))
    # sibling modules the spec may EXTEND
    for f in os.listdir(os.path.dirname(tla)):
        if f.endswith(".tla") and f != os.path.basename(tla) and not os.path.exists(os.path.join(workdir, f)):
            shutil.copy(os.path.join(os.path.dirname(tla), f), os.path.join(workdir, f))
    return dst


def main():
    ap = argparse.ArgumentParser()
    ap.add_argument("--sys", required=True)
    ap.add_argument("--tla", required=True)
    ap.add_argument("--out", required=True)
    ap.add_argument("--json", required=True)
    ap.add_argument("--pcal-from")
    ap.add_argument("--workdir")
    a = ap.parse_args()
    wd = a.workdir or tempfile.mkdtemp(prefix="tla2coq-", dir="/var/tmp")
    os.makedirs(wd, exist_ok=True)
    try:
        spec = prepare_spec(a.tla, a.pcal_from, wd)
        xml_path = run_sany(spec, wd)
        ents, lines, root_name = load(xml_path)
        t = Tr(ents, lines, root_name)
        sysn = a.sys
        w = ["(* GENERATED by tools/tla2coq from %s -- do not edit, not committed *)" % a.tla,
             "From PGV Require Import C02.Lang C02.Sem.", "Open Scope string_scope.", "Open Scope list_scope.",
             "Open Scope Z_scope.", ""]
        variables, constants = [], []
        for c in ents[t.root_uid][2]:
            if c[0] == "OpDeclNodeRef":
                uid = child(c, "UID")[1]
                d = ents[uid]
                (constants if child(d, "kind")[1] == "2" else variables).append(
                    (t.name(uid), int(child(d, "arity")[1])))
        defs, actions, names, def_texts = [], [], {}, {}
        used_go = set()
        for uid in t.top_defs:
            if not t.is_root_def(uid):
                continue
            nm = t.name(uid)
            d = ents[uid]
            al = t.action_label(uid)
            if al is not None and al[0] == nm:
                body = t.expr(t.body_of(uid))
                dn = "%s_tla_act_%s" % (sysn, re.sub(r"\W", "_", nm))
                w.append("Definition %s : expr :=\n  %s.\n" % (dn, body))
                actions.append({"name": nm, "self": al[1], "self_expr": al[2], "def": dn,
                                "hash": hashlib.sha256(body.encode()).hexdigest()[:16],
                                "unsupported": "EUnsupported" in body})
                continue
            try:
                ps = t.params(d)
            except TErr as e:
                ps, body = [], "EUnsupported " + cq(str(e))
            else:
                body = t.expr(t.body_of(uid))
            g = go_public(nm)
            while g in used_go:
                g += "0"
            used_go.add(g)
            names[g] = nm
            def_texts[nm] = "(%s, (%s, %s))" % (cq(nm), clist([cq(p) for p in ps]), body)
            defs.append(nm)
        w.append("Definition %s_tla_defs : list opdef :=\n  %s.\n" % (sysn, clist([def_texts[n] for n in defs]).replace("));", "));\n  ")))
        w.append("Definition %s_tla_actions : list (string * (option string * expr)) :=\n  %s.\n" % (
            sysn, clist(["(%s, (%s, %s))" % (cq(x["name"]), "Some " + cq(x["self"]) if x["self"] else "None", x["def"]) for x in actions])))
        # Init: conjuncts v = e / v \in S
        inits, locals_ = [], []
        init_uid = [u for u in t.top_defs if t.is_root_def(u) and t.name(u) == "Init"]
        if init_uid:
            for c in t.flatten(t.body_of(init_uid[0]), ("$ConjList", "\\land")):
                k, u, nm = t.op_name(c)
                if nm in ("=", "\\in"):
                    l, r = child(c, "operands")[2]
                    kk, uu, vn = t.op_name(l)
                    if kk == "OpDeclNodeRef":
                        inits.append("(%s, (%s, %s))" % (cq(vn), "true" if nm == "\\in" else "false", t.expr(r)))
                        k2, u2, n2 = t.op_name(r)
                        if n2 == "$FcnConstructor":
                            bs = t.bounds(r)
                            if len(bs) == 1 and bs[0][0] == 'PVar "self"':
                                locals_.append(vn)
                        continue
                inits.append("(%s, (false, EUnsupported %s))" % (cq("?"), cq("Init conjunct")))
        w.append("Definition %s_tla_init : list (string * (bool * expr)) :=\n  %s.\n" % (sysn, clist(inits).replace("));", "));\n  ")))
        w.append("Definition %s_tla_locals : list string := %s.\n" % (sysn, clist([cq(x) for x in locals_])))
        w.append("Definition %s_tla_vars : list string := %s.\n" % (sysn, clist([cq(x[0]) for x in variables])))
        # process structure from Next
        procs = []
        act_names = {x["name"] for x in actions}
        next_uid = [u for u in t.top_defs if t.is_root_def(u) and t.name(u) == "Next"]

        def calls_of(n):
            out = []
            for d in t.flatten(n, ("$DisjList", "\\lor")):
                k, u, nm = t.op_name(d)
                if k == "UserDefinedOpKindRef":
                    out.append((u, nm))
            return out

        def group(puid, pname, setexpr):
            acts = []
            for (u, nm) in calls_of(t.body_of(puid)) if pname not in act_names else [(puid, pname)]:
                if nm in act_names:
                    acts.append(nm)
                elif t.is_root_def(u):
                    # a procedure or process definition nested one level down
                    for (u2, n2) in calls_of(t.body_of(u)):
                        if n2 in act_names:
                            acts.append(n2)
            single = None
            if setexpr is None:
                for x in actions:
                    if x["name"] in acts and x.get("self_expr"):
                        single = x["self_expr"]
                        setexpr = "ESetEnum [%s]" % single
                        break
            procs.append({"name": pname, "set": setexpr, "actions": acts, "self_expr": single})

        if next_uid:
            for d in t.flatten(t.body_of(next_uid[0]), ("$DisjList", "\\lor")):
                k, u, nm = t.op_name(d)
                if k == "BuiltInKindRef" and nm == "$BoundedExists":
                    bs = t.bounds(d)
                    for (u2, n2) in calls_of(child(d, "operands")[2][0]):
                        if t.is_root_def(u2):
                            group(u2, n2, bs[0][1] if bs else None)
                elif k == "UserDefinedOpKindRef" and t.is_root_def(u) and nm != "Terminating":
                    group(u, nm, None)
        w.append("Definition %s_tla_procs : list (string * (option expr * list string)) :=\n  %s.\n" % (
            sysn, clist(["(%s, (%s, %s))" % (cq(p["name"]), "Some (%s)" % p["set"] if p["set"] else "None",
                                             clist([cq(x) for x in p["actions"]])) for p in procs])))
        open(a.out, "w").write("\n".join(w) + "\n")
        json.dump({"sys": sysn, "actions": actions, "names": names, "defs": defs,
                   "def_hashes": {n: hashlib.sha256(def_texts[n].encode()).hexdigest()[:16] for n in defs},
                   "variables": [v[0] for v in variables], "constants": constants, "locals": locals_,
                   "procs": [{"name": p["name"], "actions": p["actions"], "self_expr": p["self_expr"]} for p in procs]},
                  open(a.json, "w"), indent=1)
    except TErr as e:
        sys.stderr.write("tla2coq: %s\n" % e)
        sys.exit(2)
    finally:
        if not a.workdir:
            shutil.rmtree(wd, ignore_errors=True)


if __name__ == "__main__":
    main()
