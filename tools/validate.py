#!/usr/bin/env python3-vt
"""validate MANIFEST.json and every evidence/*.json against the schemas in /root/.vp (needs jsonschema: run with python3-vt)"""
import json, glob, sys, jsonschema
ok = True
def v(path, schema):
    global ok
    try:
        jsonschema.validate(json.load(open(path)), json.load(open(schema)))
    except Exception as e:
        ok = False; print("INVALID", path, str(e)[:300])
v("/verif/MANIFEST.json", "/root/.vp/MANIFEST.schema.json")
man = json.load(open("/verif/MANIFEST.json"))
for c in man["checks"]:
    v(c["evidence_file"], "/root/.vp/EVIDENCE.schema.json")
    e = json.load(open(c["evidence_file"]))
    cov = e["coverage"]
    if e["level"] == "proof" and cov.get("obligations") != cov.get("discharged"):
        ok = False; print("proof-level evidence with discharged != obligations:", c["property_id"], cov.get("discharged"), cov.get("obligations"))
    if e.get("violations"):
        ok = False; print("evidence records violations:", c["property_id"])
props = [json.loads(l)["id"] for l in open("/verif/properties.jsonl")]
claimed = {c["property_id"] for c in man["checks"]}; na = {n["property_id"] for n in man.get("not_applicable", [])}
if set(props) != claimed | na or claimed & na:
    ok = False; print("manifest does not partition the properties", sorted(set(props) - claimed - na))
print("valid" if ok else "PROBLEMS")
sys.exit(0 if ok else 1)
