#!/usr/bin/env python3
"""recheck_seed.py <seed, e.g. C08-1> [<check property, default: the seed's>]: apply /verif/seeded/<seed>/patch.diff to a FRESH
worktree of /repo HEAD, run ./check there, record the outcome in meta.json['recheck'], remove the worktree."""
import json, os, re, subprocess, sys, tempfile
seed = sys.argv[1]; P = sys.argv[2] if len(sys.argv) > 2 else seed.split("-")[0]
sd = "/verif/seeded/" + seed
wt = tempfile.mkdtemp(prefix="rs-", dir="/tmp"); os.rmdir(wt)
subprocess.run("git -C /repo worktree add -q %s HEAD" % wt, shell=True, check=True)
try:
    r = subprocess.run("git -C %s apply %s/patch.diff" % (wt, sd), shell=True, capture_output=True, text=True)
    if r.returncode != 0:
        print(seed, "patch does not apply on current HEAD:", r.stderr[:300]); sys.exit(2)
    r = subprocess.run("VERIF_REPO=%s timeout 3000 ./check %s --tier quick" % (wt, P), shell=True, cwd="/verif", capture_output=True, text=True)
    lines = [l for l in r.stdout.split("\n") if l.startswith("VIOLATION") or l.startswith("OK ")]
    sigs = []
    for l in lines:
        m = re.search(r"replay=(\S+)", l)
        if m and os.path.exists(m.group(1)):
            rp = json.load(open(m.group(1)))
            sigs.append(rp.get("signature") or ("BREAK: " + str(rp.get("no_longer_checks"))[:160]))
    viol = [l for l in lines if l.startswith("VIOLATION")]
    verdict = ("caught with concrete failing input" if any("no-failing-input-found" not in l for l in viol) else
               "caught as broken proof/correspondence, no concrete failing input found in the quick tier") if viol else \
              ("MISSED (check printed OK)" if lines else "no verdict: " + (r.stdout + r.stderr)[-300:])
    mp = os.path.join(sd, "meta.json"); meta = json.load(open(mp))
    head = subprocess.run("git -C /repo rev-parse --short HEAD", shell=True, capture_output=True, text=True).stdout.strip()
    meta.setdefault("recheck", []).append({"check": P, "repo_head": head, "verdict": verdict, "signatures": sigs[:8]})
    json.dump(meta, open(mp, "w"), indent=1)
    print(seed, "vs", P, ":", verdict, sigs[:4])
finally:
    subprocess.run("git -C /repo worktree remove --force %s" % wt, shell=True)
    import hashlib
    tag = hashlib.sha1(wt.encode()).hexdigest()[:8]
    subprocess.run("rm -rf /verif/_build/harness_%s /verif/_build/bin_%s" % (tag, tag), shell=True)
