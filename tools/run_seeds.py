#!/usr/bin/env python3
"""run ./check <P> --tier quick against every seed in /tmp/seed-<p>-out/<i>/ (applied to the scratch worktree /tmp/seed-<p>),
copy the seed to /verif/seeded/<P>-<i>/ and record in meta.json what the check reported."""
import json, os, re, shutil, subprocess, sys
P = sys.argv[1]; p = P.lower(); rnd = sys.argv[2] if len(sys.argv) > 2 else ""
wt = ("/var/tmp/seed%s-%s" % (rnd, p)) if rnd else "/tmp/seed-%s" % p; out = wt + "-out"
import glob
base = len(glob.glob("/verif/seeded/%s-*" % P)) if rnd else 0
for i in sorted(d for d in os.listdir(out) if d.isdigit()):
    sd = os.path.join(out, i)
    if not os.path.exists(os.path.join(sd, "patch.diff")):
        continue
    subprocess.run("git -C %s checkout -q -- . && git -C %s clean -fdq" % (wt, wt), shell=True)
    r = subprocess.run("git -C %s apply %s/patch.diff" % (wt, sd), shell=True, capture_output=True, text=True)
    if r.returncode != 0:
        print(P, i, "patch does not apply:", r.stderr[:300]); continue
    r = subprocess.run("VERIF_REPO=%s timeout 3000 ./check %s --tier quick" % (wt, P), shell=True, cwd="/verif", capture_output=True, text=True)
    subprocess.run("git -C %s checkout -q -- . && git -C %s clean -fdq" % (wt, wt), shell=True)
    lines = [l for l in r.stdout.split("\n") if l.startswith("VIOLATION") or l.startswith("OK ")]
    sigs = []
    for l in lines:
        m = re.search(r"replay=(\S+)", l)
        if m and os.path.exists(m.group(1)):
            rp = json.load(open(m.group(1)))
            sigs.append(rp.get("signature") or ("BREAK: " + str(rp.get("no_longer_checks"))[:160]))
    verdict = "MISSED (check printed OK)" if any(l.startswith("OK ") for l in lines) and not any(l.startswith("VIOLATION") for l in lines) else \
        ("caught with concrete failing input" if any("no-failing-input-found" not in l for l in lines if l.startswith("VIOLATION")) else
         "caught as broken proof/correspondence, no concrete failing input found in the quick tier") if lines else "check produced no verdict: " + r.stdout[-300:] + r.stderr[-300:]
    dst = "/verif/seeded/%s-%d" % (P, base + int(i))
    os.makedirs(dst, exist_ok=True)
    for f in os.listdir(sd):
        if os.path.isfile(os.path.join(sd, f)) and os.path.getsize(os.path.join(sd, f)) < 400000:
            shutil.copy(os.path.join(sd, f), dst)
    mp = os.path.join(dst, "meta.json")
    meta = json.load(open(mp)) if os.path.exists(mp) else {}
    meta["check_result"] = {"verdict": verdict, "signatures": sigs[:8], "lines": [l[:200] for l in lines][:6],
                            "command": "git apply patch.diff in a scratch worktree; VERIF_REPO=<worktree> ./check %s --tier quick" % P}
    json.dump(meta, open(mp, "w"), indent=1)
    print(os.path.basename(dst), verdict, sigs[:4])
