#!/usr/bin/env python3
"""confirm every seed under /verif/seeded that has no successful 'confirmed' record yet (run me inside `unshare -n -m`)"""
import json, os, re, subprocess, sys
os.system("ip link set lo up; mount -t tmpfs tmpfs /tmp")
only = sys.argv[1:]
for d in sorted(os.listdir("/verif/seeded")):
    sd = os.path.join("/verif/seeded", d)
    if only and d not in only:
        continue
    mp = os.path.join(sd, "meta.json")
    meta = json.load(open(mp)) if os.path.exists(mp) else {}
    c = meta.get("confirmed") or {}
    if str(c.get("demo_with_patch", "")).startswith("fails") and c.get("demo_without_patch") == "pass" and \
       all(v == "pass" for v in (c.get("existing_tests_with_patch") or {"x": "no"}).values()):
        continue
    demo = open(os.path.join(sd, "demo_test.go")).read()
    head = demo[:3000]
    m = re.search(r"(?:[Pp]lace(?:ment)?[^\n]*?|copy this file to|[Pp]ut this file (?:at|in))[:\s]+`?((?:distsys|systems|pgo)/[\w./\-]+?_test\.go)", head)
    pk = re.search(r"^package\s+(\w+)", demo, re.M).group(1)
    patch = open(os.path.join(sd, "patch.diff")).read()
    files = re.findall(r"^\+\+\+ b/(\S+)", patch, re.M)
    mods = []
    for f in files:
        mm = re.match(r"(distsys|systems/[^/]+|pgo/test/files/[^/]+/[^/]+)", f)
        if mm and mm.group(1) not in mods:
            mods.append(mm.group(1))
    if m:
        dest = m.group(1)
    else:
        base = {"resources": "distsys/resources", "resources_test": "distsys/resources", "distsys": "distsys", "distsys_test": "distsys",
                "tla": "distsys/tla", "tla_test": "distsys/tla"}.get(pk)
        if base is None:
            base = [x for x in mods if x.endswith(pk) or x.endswith(pk.replace("_test", ""))]
            base = base[0] if base else mods[0]
        dest = base + "/zz_seed_demo_test.go"
    tests = re.findall(r"^func (Test\w+)\(", demo, re.M)
    pat = "^(" + "|".join(tests) + ")$"
    dmod = re.match(r"(distsys|systems/[^/]+|pgo/test/files/[^/]+/[^/]+)", dest).group(1)
    mod = dmod if dmod in mods or not mods else mods[0]
    extra = [x for x in mods if x != mod]
    if dmod not in [mod] + extra and dmod != "distsys":
        extra.append(dmod)
    env = dict(os.environ)
    if "verif_hooks" in demo or "Verif" in demo or "-tags verif" in head:
        env["DEMO_TAGS"] = "-tags verif"
    print("==", d, "mod", mod, "dest", dest, "extra", extra, flush=True)
    r = subprocess.run(["python3", "/verif/tools/confirm_seed.py", sd, mod, dest, pat] + extra, env=env, capture_output=True, text=True)
    print(d, "->", "CONFIRMED" if r.returncode == 0 else "NOT CONFIRMED", flush=True)
    if r.returncode != 0:
        print(r.stdout[-1200:], r.stderr[-500:], flush=True)
