#!/usr/bin/env python3
"""regenerate /verif/KNOWN_FINDINGS.txt (human-readable aggregate of known_findings/*.json; the JSON files are what the checks read;
neither is ever written at run time by a check)"""
import json, glob, os
V = os.path.dirname(os.path.dirname(os.path.abspath(__file__)))
out = ["# Known findings and repaired defects of DistCompiler/pgo found by the /verif checks",
       "# (aggregate of known_findings/<property>.json, which the checks read; regenerate with tools/findings_txt.py)", ""]
for f in sorted(glob.glob(os.path.join(V, "known_findings", "*.json"))):
    d = json.load(open(f))
    for k in d.get("known", []):
        out.append("known: property=%s signature=%s %s" % (k["property"], k["signature"], " ".join(k["what"].split())))
    for k in d.get("fixed", []):
        out.append("fixed: property=%s %s %s" % (k["property"], k.get("commit", "?"), " ".join(k["what"].split())))
open(os.path.join(V, "KNOWN_FINDINGS.txt"), "w").write("\n".join(out) + "\n")
print(len(out) - 3, "entries")
