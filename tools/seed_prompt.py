#!/usr/bin/env python3
"""print the prompt for an independent seeding sub-agent for property <id> (it gets nothing from /verif)"""
import json, sys
import os, glob
pid = sys.argv[1]; n = sys.argv[2] if len(sys.argv) > 2 else "3"
tests = ""
rnd = sys.argv[3] if len(sys.argv) > 3 else ""      # e.g. "2": second round -> /tmp/seed2-cNN, excludes earlier seeds' ideas
p = [json.loads(l) for l in open('/verif/properties.jsonl') if json.loads(l)['id'] == pid][0]
wt = "/var/tmp/seed%s-%s" % (rnd, pid.lower()); out = "/var/tmp/seed%s-%s-out" % (rnd, pid.lower())
prev = []
for d in sorted(glob.glob("/verif/seeded/%s-*" % pid)):
    try:
        m = json.load(open(os.path.join(d, "meta.json")))
        files = sorted(set(l[6:].strip() for l in open(os.path.join(d, "patch.diff")) if l.startswith("+++ b/")))
        prev.append("- (%s) %s" % (", ".join(files), " ".join(str(m.get("breaks", "")).split())[:400]))
    except Exception:
        pass
known = []
kf = "/verif/known_findings/%s.json" % pid
if os.path.exists(kf):
    for k in json.load(open(kf)).get("known", []):
        known.append("- " + " ".join(k["what"].split())[:300])
extra = ""
if prev:
    extra += "\n\nChanges ALREADY produced by earlier rounds — yours must be different in kind (another mechanism, another file or another failure mode), not variations of these:\n" + "\n".join(prev)
if known:
    extra += "\n\nAlready-known deviations of the unchanged tree from this property (out of scope: do not seed a change whose only effect falls in one of these classes):\n" + "\n".join(known)
extra += "\n\nTest isolation: other people run the same suites on this machine and the suites use fixed TCP ports and /tmp/serverN directories. Run every existing-test command inside a private namespace: `unshare -n -m sh -c 'ip link set lo up; mount -t tmpfs tmpfs /tmp; cd <dir> && go test -count=1 ./...'` (your worktree is under /var/tmp so it stays visible). Run only the tests of the modules your change touches (plus `distsys` if you touch the runtime). Keep CPU use modest: no `-count` above 5, no parallel fan-out."
print(f"""You are testing how well a verification suite detects realistic bugs. You work ONLY in the scratch git worktree {wt} (a checkout of DistCompiler/pgo: PGo, a Scala compiler from Modular PlusCal to Go, plus the Go `distsys` runtime and generated systems under systems/). Do not read or write anything under /verif or /repo. Environment: no network. Go 1.24. For the `distsys` module use `export GOFLAGS=-mod=mod GOPROXY=off GOWORK=off`; for modules under systems/ and pgo/test/files/ use workspace mode instead (`unset GOFLAGS GOWORK; export GOPROXY=off`, the go.work at the worktree root links them to ./distsys). Some existing tests use fixed TCP ports and other people's test runs on this machine may hold them for a while ("address already in use"): retry later rather than concluding anything from that. Do NOT run the tests of systems/raftres (not part of the project's passing baseline; they time out on a clean checkout) and run raftkvs tests only if your change touches raftkvs.

The semantic property under test ({pid} — {p['title']}):

"{p['statement']}"

Quantified over: {p['quantifier']['text']}

Anchored in: {', '.join(p['anchors']['files'])}. Mechanisms meant to make it hold: {'; '.join(m['name'] + ' (' + m['where'] + ')' for m in p['anchors']['mechanism'])}.

Produce {n} different, independent changes to the project's NON-TEST source (Go runtime, generated Go of the systems, or both), each of which BREAKS this property while the project still compiles and its existing tests still pass ({tests or 'run the Go tests of every module you touch and of the modules that depend on the code you touch; `cd distsys && go test -count=1 ./...` always'}). Each change must need something SPECIFIC to manifest — a particular interleaving, a crash or fault at a particular point, a multi-step sequence of operations, an unusual input, or two cooperating sites that each look fine alone — not something ordinary use exposes at once. Make them look like plausible developer mistakes, refactorings or "optimisations", not sabotage, and make them different in kind from each other (touch different mechanisms of the property).

For each change i create {out}/<i>/ containing: `patch.diff` (`git diff` of that change alone, relative to the worktree root, applying cleanly with `git apply` on a clean checkout of the worktree's HEAD), a demonstration `demo_test.go` (a Go test that FAILS with the change applied and PASSES without it; header comment: where to place it, how to run it; if the failure is probabilistic make it fail with high probability by repetition), and `meta.json` with keys "property": "{pid}", "breaks" (one sentence: which part of the property fails), "needs" (what specific circumstance is needed to manifest), "ran" (commands you ran and outcomes: existing tests pass with the patch; demo fails with / passes without). Reset the worktree (`git checkout -- . && git clean -fd`) between changes and at the end. NEVER use `git stash` (the stash is shared with other people's worktrees of the same repository): save work with `git diff > file`, restore with `git apply`. Verify each change fully before reporting; drop a change you cannot demonstrate. Final message: one line per change.""" + extra)
