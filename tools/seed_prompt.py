#!/usr/bin/env python3
"""print the prompt for an independent seeding sub-agent for property <id> (it gets nothing from /verif)"""
import json, sys
pid = sys.argv[1]; n = sys.argv[2] if len(sys.argv) > 2 else "3"
tests = sys.argv[3] if len(sys.argv) > 3 else ""
p = [json.loads(l) for l in open('/verif/properties.jsonl') if json.loads(l)['id'] == pid][0]
wt = "/tmp/seed-%s" % pid.lower(); out = "/tmp/seed-%s-out" % pid.lower()
print(f"""You are testing how well a verification suite detects realistic bugs. You work ONLY in the scratch git worktree {wt} (a checkout of DistCompiler/pgo: PGo, a Scala compiler from Modular PlusCal to Go, plus the Go `distsys` runtime and generated systems under systems/). Do not read or write anything under /verif or /repo. Environment: no network. Go 1.24. For the `distsys` module use `export GOFLAGS=-mod=mod GOPROXY=off GOWORK=off`; for modules under systems/ and pgo/test/files/ use workspace mode instead (`unset GOFLAGS GOWORK; export GOPROXY=off`, the go.work at the worktree root links them to ./distsys). Some existing tests use fixed TCP ports and other people's test runs on this machine may hold them for a while ("address already in use"): retry later rather than concluding anything from that. Do NOT run the tests of systems/raftres (not part of the project's passing baseline; they time out on a clean checkout) and run raftkvs tests only if your change touches raftkvs.

The semantic property under test ({pid} — {p['title']}):

"{p['statement']}"

Quantified over: {p['quantifier']['text']}

Anchored in: {', '.join(p['anchors']['files'])}. Mechanisms meant to make it hold: {'; '.join(m['name'] + ' (' + m['where'] + ')' for m in p['anchors']['mechanism'])}.

Produce {n} different, independent changes to the project's NON-TEST source (Go runtime, generated Go of the systems, or both), each of which BREAKS this property while the project still compiles and its existing tests still pass ({tests or 'run the Go tests of every module you touch and of the modules that depend on the code you touch; `cd distsys && go test -count=1 ./...` always'}). Each change must need something SPECIFIC to manifest — a particular interleaving, a crash or fault at a particular point, a multi-step sequence of operations, an unusual input, or two cooperating sites that each look fine alone — not something ordinary use exposes at once. Make them look like plausible developer mistakes, refactorings or "optimisations", not sabotage, and make them different in kind from each other (touch different mechanisms of the property).

For each change i create {out}/<i>/ containing: `patch.diff` (`git diff` of that change alone, relative to the worktree root, applying cleanly with `git apply` on a clean checkout of the worktree's HEAD), a demonstration `demo_test.go` (a Go test that FAILS with the change applied and PASSES without it; header comment: where to place it, how to run it; if the failure is probabilistic make it fail with high probability by repetition), and `meta.json` with keys "property": "{pid}", "breaks" (one sentence: which part of the property fails), "needs" (what specific circumstance is needed to manifest), "ran" (commands you ran and outcomes: existing tests pass with the patch; demo fails with / passes without). Reset the worktree (`git checkout -- . && git clean -fd`) between changes and at the end. NEVER use `git stash` (the stash is shared with other people's worktrees of the same repository): save work with `git diff > file`, restore with `git apply`. Verify each change fully before reporting; drop a change you cannot demonstrate. Final message: one line per change.""")
