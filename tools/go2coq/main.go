// go2coq: generated Go (output of pgo's MPCalGoCodegenPass) -> Coq terms of PGV.C02.Lang / PGV.C02.Sem.
//
// Syntax-directed, one constructor per statement/expression form the code generator emits, no
// normalisation. Anything outside that grammar is an ERROR (non-zero exit, message on stderr):
// the caller reports it as a broken tie; nothing is ever skipped.
//
// usage: go2coq -sys NAME -in file.go -out Gen/NAME_go.v -json NAME_go.json [-names names.json]
//   names.json: {"GoFunctionName": "TLAOperatorName", ...}  (written by tla2coq)
package main

import (
	"crypto/sha256"
	"encoding/hex"
	"encoding/json"
	"flag"
	"fmt"
	"go/ast"
	"go/parser"
	"go/token"
	"os"
	"sort"
	"strconv"
	"strings"
)

type tr struct {
	fset  *token.FileSet
	names map[string]string // Go operator function -> TLA+ operator name
	iface string            // name of the ArchetypeInterface parameter in scope
	ops   map[string]int    // module-level operator functions: name -> arity
	at    map[string]bool   // closure parameters standing for TLA+'s @ (FunctionSubstitution anchors) in scope
}

type terr struct{ msg string }

func (t *tr) fail(n ast.Node, f string, a ...interface{}) {
	pos := ""
	if n != nil {
		pos = t.fset.Position(n.Pos()).String() + ": "
	}
	panic(terr{pos + fmt.Sprintf(f, a...)})
}

func cq(s string) string { return "\"" + strings.ReplaceAll(s, "\"", "\"\"") + "\"" }

func clist(xs []string) string { return "[" + strings.Join(xs, "; ") + "]" }

// ---------------------------------------------------------------- helpers on the Go AST

func sel(e ast.Expr) (string, string, bool) {
	if s, ok := e.(*ast.SelectorExpr); ok {
		if id, ok := s.X.(*ast.Ident); ok {
			return id.Name, s.Sel.Name, true
		}
	}
	return "", "", false
}

func isSel(e ast.Expr, pkg, name string) bool {
	p, n, ok := sel(e)
	return ok && p == pkg && n == name
}

func strLit(e ast.Expr) (string, bool) {
	if b, ok := e.(*ast.BasicLit); ok && b.Kind == token.STRING {
		s, err := strconv.Unquote(b.Value)
		if err == nil {
			return s, true
		}
	}
	return "", false
}

func ident(e ast.Expr) (string, bool) {
	if id, ok := e.(*ast.Ident); ok {
		return id.Name, true
	}
	return "", false
}

// method call  recv.Name(args)
func method(e ast.Expr) (ast.Expr, string, []ast.Expr, bool) {
	if c, ok := e.(*ast.CallExpr); ok {
		if s, ok := c.Fun.(*ast.SelectorExpr); ok {
			return s.X, s.Sel.Name, c.Args, true
		}
	}
	return nil, "", nil, false
}

// x.AsBool()  ->  x
func asBool(e ast.Expr) (ast.Expr, bool) {
	r, n, a, ok := method(e)
	if ok && n == "AsBool" && len(a) == 0 {
		return r, true
	}
	return nil, false
}

func isTlaValueType(e ast.Expr) bool { return isSel(e, "tla", "Value") }

// ---------------------------------------------------------------- expressions

var moduleOps = map[string]string{
	"EqualsSymbol": "B_eq", "NotEqualsSymbol": "B_neq", "LogicalNotSymbol": "B_not",
	"LogicalAndSymbol": "B_and", "LogicalOrSymbol": "B_or", "ImpliesSymbol": "B_implies", "EquivSymbol": "B_equiv",
	"InSymbol": "B_in", "NotInSymbol": "B_notin", "UnionSymbol": "B_cup", "IntersectSymbol": "B_cap",
	"BackslashSymbol": "B_setminus", "SubsetOrEqualSymbol": "B_subseteq", "PrefixSubsetSymbol": "B_SUBSET",
	"PrefixUnionSymbol": "B_UNION", "DomainSymbol": "B_DOMAIN", "PrefixDomainSymbol": "B_DOMAIN",
	"PlusSymbol": "B_plus", "MinusSymbol": "B_minus", "AsteriskSymbol": "B_times", "DivSymbol": "B_div",
	"PercentSymbol": "B_mod", "SuperscriptSymbol": "B_exp", "NegationSymbol": "B_neg",
	"LessThanSymbol": "B_lt", "LessThanOrEqualSymbol": "B_le", "GreaterThanSymbol": "B_gt",
	"GreaterThanOrEqualSymbol": "B_ge", "DotDotSymbol": "B_dotdot",
	"Len": "B_Len", "Append": "B_Append", "Head": "B_Head", "Tail": "B_Tail", "OSymbol": "B_concat",
	"SubSeq": "B_SubSeq", "Seq": "B_Seq", "Cardinality": "B_Cardinality", "IsFiniteSet": "B_IsFiniteSet",
	"ColonGreaterThanSymbol": "B_mapsto1", "DoubleAtSignSymbol": "B_atat", "ToString": "B_ToString",
	"Assert": "B_Assert",
}

var moduleVals = map[string]string{
	"TRUE": "EBool true", "FALSE": "EBool false", "defaultInitValue": "EOp B_default []",
	"Zero": "ENum 0", "Nat": "EOp B_Nat []", "Int": "EOp B_Int []", "BOOLEAN": "EOp B_BOOLEAN []",
}

func (t *tr) exprs(es []ast.Expr) string {
	out := make([]string, len(es))
	for i, e := range es {
		out[i] = t.expr(e)
	}
	return clist(out)
}

// []tla.Value{a, b}  or nil
func (t *tr) valueSlice(e ast.Expr) []ast.Expr {
	if id, ok := e.(*ast.Ident); ok && id.Name == "nil" {
		return nil
	}
	cl, ok := e.(*ast.CompositeLit)
	if !ok {
		t.fail(e, "expected []tla.Value{...} or nil")
	}
	at, ok := cl.Type.(*ast.ArrayType)
	if !ok || at.Len != nil || !isTlaValueType(at.Elt) {
		t.fail(e, "expected []tla.Value{...}")
	}
	return cl.Elts
}

// []tla.RecordField{ {tla.MakeString("f"), e}, ... }
func (t *tr) recordFields(e ast.Expr) string {
	cl, ok := e.(*ast.CompositeLit)
	if !ok {
		t.fail(e, "expected []tla.RecordField{...}")
	}
	at, ok := cl.Type.(*ast.ArrayType)
	if !ok || !isSel(at.Elt, "tla", "RecordField") {
		t.fail(e, "expected []tla.RecordField{...}")
	}
	var out []string
	for _, el := range cl.Elts {
		f, ok := el.(*ast.CompositeLit)
		if !ok || len(f.Elts) != 2 {
			t.fail(el, "record field: expected {name, value}")
		}
		c, ok := f.Elts[0].(*ast.CallExpr)
		if !ok || !isSel(c.Fun, "tla", "MakeString") || len(c.Args) != 1 {
			t.fail(el, "record field name: expected tla.MakeString")
		}
		name, ok := strLit(c.Args[0])
		if !ok {
			t.fail(el, "record field name: expected a string literal")
		}
		out = append(out, "("+cq(name)+", "+t.expr(f.Elts[1])+")")
	}
	return clist(out)
}

// the closure bodies of quantifier-like forms:
//   func(args []tla.Value) T { var x tla.Value = args[0]; _ = x; var a tla.Value = args[1].ApplyFunction(tla.MakeNumber(1)); ...; return BODY }
// or, for single-bound forms, func(elem tla.Value) bool { var x tla.Value = elem; _ = x; return BODY.AsBool() }
// returns the patterns (one per set) and the body expression
func (t *tr) closure(fn ast.Expr, nsets int, single bool, boolBody bool) ([]string, string) {
	fl, ok := fn.(*ast.FuncLit)
	if !ok || len(fl.Type.Params.List) != 1 || len(fl.Type.Params.List[0].Names) != 1 {
		t.fail(fn, "expected a one-parameter closure")
	}
	param := fl.Type.Params.List[0].Names[0].Name
	type bnd struct {
		vars   []string
		tuple  bool
		filled bool
	}
	bnds := make([]bnd, nsets)
	stmts := fl.Body.List
	i := 0
	for ; i < len(stmts); i++ {
		s := stmts[i]
		if as, ok := s.(*ast.AssignStmt); ok && as.Tok == token.ASSIGN && len(as.Lhs) == 1 {
			if id, ok := as.Lhs[0].(*ast.Ident); ok && id.Name == "_" {
				continue
			}
		}
		ds, ok := s.(*ast.DeclStmt)
		if !ok {
			break
		}
		gd := ds.Decl.(*ast.GenDecl)
		if gd.Tok != token.VAR || len(gd.Specs) != 1 {
			t.fail(s, "closure: unexpected declaration")
		}
		vs := gd.Specs[0].(*ast.ValueSpec)
		if len(vs.Names) != 1 || len(vs.Values) != 1 || !isTlaValueType(vs.Type) {
			t.fail(s, "closure: unexpected var declaration")
		}
		// value is param[k] | param | param[k].ApplyFunction(tla.MakeNumber(j)) | param.ApplyFunction(tla.MakeNumber(j))
		val := vs.Values[0]
		tupleIdx := -1
		if r, n, a, ok := method(val); ok && n == "ApplyFunction" && len(a) == 1 {
			c, ok := a[0].(*ast.CallExpr)
			if !ok || !isSel(c.Fun, "tla", "MakeNumber") {
				t.fail(s, "closure: tuple binding expects ApplyFunction(tla.MakeNumber(j))")
			}
			bl, ok := c.Args[0].(*ast.BasicLit)
			if !ok {
				t.fail(s, "closure: tuple binding index")
			}
			tupleIdx, _ = strconv.Atoi(bl.Value)
			val = r
		}
		k := 0
		if single {
			id, ok := val.(*ast.Ident)
			if !ok || id.Name != param {
				t.fail(s, "closure: binding is not the parameter")
			}
		} else {
			ix, ok := val.(*ast.IndexExpr)
			if !ok {
				t.fail(s, "closure: binding is not args[k]")
			}
			id, ok := ix.X.(*ast.Ident)
			if !ok || id.Name != param {
				t.fail(s, "closure: binding is not args[k]")
			}
			bl, ok := ix.Index.(*ast.BasicLit)
			if !ok {
				t.fail(s, "closure: args index")
			}
			k, _ = strconv.Atoi(bl.Value)
		}
		if k >= nsets {
			t.fail(s, "closure: args[%d] out of range", k)
		}
		if tupleIdx >= 0 {
			if tupleIdx != len(bnds[k].vars)+1 || (bnds[k].filled && !bnds[k].tuple) {
				t.fail(s, "closure: tuple binding out of order")
			}
			bnds[k].tuple = true
		} else if bnds[k].filled {
			t.fail(s, "closure: duplicate binding")
		}
		bnds[k].filled = true
		bnds[k].vars = append(bnds[k].vars, vs.Names[0].Name)
	}
	if i != len(stmts)-1 {
		t.fail(fn, "closure: expected bindings followed by one return")
	}
	rs, ok := stmts[i].(*ast.ReturnStmt)
	if !ok || len(rs.Results) != 1 {
		t.fail(fn, "closure: expected a return")
	}
	body := rs.Results[0]
	if boolBody {
		b, ok := asBool(body)
		if !ok {
			t.fail(body, "closure: expected BODY.AsBool()")
		}
		body = b
	}
	pats := make([]string, nsets)
	for k, b := range bnds {
		if !b.filled {
			t.fail(fn, "closure: set %d has no binding", k)
		}
		if b.tuple {
			q := make([]string, len(b.vars))
			for j, v := range b.vars {
				q[j] = cq(v)
			}
			pats[k] = "PTup " + clist(q)
		} else {
			pats[k] = "PVar " + cq(b.vars[0])
		}
	}
	return pats, t.expr(body)
}

func bounds(pats []string, sets []string) string {
	out := make([]string, len(pats))
	for i := range pats {
		out[i] = "(" + pats[i] + ", " + sets[i] + ")"
	}
	return clist(out)
}

// func() tla.Value { ... }()  : IF / LET / CASE
func (t *tr) immediate(fl *ast.FuncLit) string {
	stmts := fl.Body.List
	if len(stmts) == 1 {
		switch s := stmts[0].(type) {
		case *ast.IfStmt: // IF
			c, ok := asBool(s.Cond)
			if !ok || s.Init != nil || s.Else == nil {
				t.fail(s, "IF closure: unexpected shape")
			}
			th := t.singleReturn(s.Body)
			eb, ok := s.Else.(*ast.BlockStmt)
			if !ok {
				t.fail(s, "IF closure: else is not a block")
			}
			el := t.singleReturn(eb)
			return "EIf (" + t.expr(c) + ") (" + th + ") (" + el + ")"
		case *ast.SwitchStmt: // CASE
			if s.Tag != nil || s.Init != nil {
				t.fail(s, "CASE closure: unexpected switch")
			}
			var arms []string
			other := "None"
			for _, cc := range s.Body.List {
				c := cc.(*ast.CaseClause)
				if c.List == nil { // default
					if len(c.Body) != 1 {
						t.fail(c, "CASE default: unexpected body")
					}
					if rs, ok := c.Body[0].(*ast.ReturnStmt); ok && len(rs.Results) == 1 {
						other = "(Some (" + t.expr(rs.Results[0]) + "))"
					} else if es, ok := c.Body[0].(*ast.ExprStmt); ok {
						if call, ok := es.X.(*ast.CallExpr); !ok || !isIdent(call.Fun, "panic") {
							t.fail(c, "CASE default: expected panic or return")
						}
					} else {
						t.fail(c, "CASE default: expected panic or return")
					}
					continue
				}
				if len(c.List) != 1 || len(c.Body) != 1 {
					t.fail(c, "CASE arm: unexpected shape")
				}
				g, ok := asBool(c.List[0])
				if !ok {
					t.fail(c, "CASE arm: expected COND.AsBool()")
				}
				rs, ok := c.Body[0].(*ast.ReturnStmt)
				if !ok || len(rs.Results) != 1 {
					t.fail(c, "CASE arm: expected return")
				}
				arms = append(arms, "("+t.expr(g)+", "+t.expr(rs.Results[0])+")")
			}
			return "ECase " + clist(arms) + " " + other
		}
	}
	// LET: (var x tla.Value = e | x := func(params) tla.Value { return e }) ; _ = x ; ... ; return body
	type def struct {
		name   string
		params []string
		body   string
	}
	var defs []def
	i := 0
	for ; i < len(stmts)-1; i++ {
		switch s := stmts[i].(type) {
		case *ast.AssignStmt:
			if s.Tok == token.ASSIGN && len(s.Lhs) == 1 && isIdent(s.Lhs[0], "_") {
				continue
			}
			if s.Tok == token.DEFINE && len(s.Lhs) == 1 && len(s.Rhs) == 1 {
				name, _ := ident(s.Lhs[0])
				fl, ok := s.Rhs[0].(*ast.FuncLit)
				if !ok {
					t.fail(s, "LET closure: expected a function literal")
				}
				var ps []string
				for _, f := range fl.Type.Params.List {
					if !isTlaValueType(f.Type) {
						t.fail(s, "LET closure: higher-order operator parameter")
					}
					for _, n := range f.Names {
						ps = append(ps, n.Name)
					}
				}
				defs = append(defs, def{name, ps, t.singleReturn(fl.Body)})
				continue
			}
			t.fail(s, "LET closure: unexpected assignment")
		case *ast.DeclStmt:
			gd := s.Decl.(*ast.GenDecl)
			if gd.Tok != token.VAR || len(gd.Specs) != 1 {
				t.fail(s, "LET closure: unexpected declaration")
			}
			vs := gd.Specs[0].(*ast.ValueSpec)
			if len(vs.Names) != 1 || len(vs.Values) != 1 || !isTlaValueType(vs.Type) {
				t.fail(s, "LET closure: unexpected var")
			}
			defs = append(defs, def{vs.Names[0].Name, nil, t.expr(vs.Values[0])})
		default:
			t.fail(s, "LET closure: unexpected statement")
		}
	}
	rs, ok := stmts[len(stmts)-1].(*ast.ReturnStmt)
	if !ok || len(rs.Results) != 1 || len(defs) == 0 {
		t.fail(fl, "immediately-applied closure: not an IF, CASE or LET")
	}
	out := t.expr(rs.Results[0])
	for j := len(defs) - 1; j >= 0; j-- {
		d := defs[j]
		ps := make([]string, len(d.params))
		for k, p := range d.params {
			ps[k] = cq(p)
		}
		out = "ELet " + cq(d.name) + " " + clist(ps) + " (" + d.body + ") (" + out + ")"
	}
	return out
}

func isIdent(e ast.Expr, name string) bool {
	id, ok := e.(*ast.Ident)
	return ok && id.Name == name
}

func (t *tr) singleReturn(b *ast.BlockStmt) string {
	if len(b.List) != 1 {
		t.fail(b, "expected a block with a single return")
	}
	rs, ok := b.List[0].(*ast.ReturnStmt)
	if !ok || len(rs.Results) != 1 {
		t.fail(b, "expected a single return")
	}
	return t.expr(rs.Results[0])
}

func (t *tr) expr(e ast.Expr) string {
	switch x := e.(type) {
	case *ast.ParenExpr:
		return t.expr(x.X)
	case *ast.Ident:
		if t.at[x.Name] {
			return "EAt"
		}
		return "EVar " + cq(x.Name)
	case *ast.SelectorExpr:
		if p, n, ok := sel(x); ok && p == "tla" && strings.HasPrefix(n, "Module") {
			if v, ok := moduleVals[strings.TrimPrefix(n, "Module")]; ok {
				return v
			}
		}
		t.fail(e, "unexpected selector expression")
	case *ast.CompositeLit:
		if isTlaValueType(x.Type) && len(x.Elts) == 0 {
			return "EOp B_default []"
		}
		t.fail(e, "unexpected composite literal")
	case *ast.CallExpr:
		return t.call(x)
	}
	t.fail(e, "expression outside the generated-Go grammar (%T)", e)
	return ""
}

func (t *tr) call(c *ast.CallExpr) string {
	// func() tla.Value { ... }()
	if fl, ok := c.Fun.(*ast.FuncLit); ok {
		if len(c.Args) != 0 {
			t.fail(c, "immediately-applied closure with arguments")
		}
		if fl.Type.Results == nil {
			// func() { panic("unsupported operator") }()
			return "EUnsupported " + cq("unsupported operator")
		}
		return t.immediate(fl)
	}
	// iface.GetConstant("X")(args...)
	if inner, ok := c.Fun.(*ast.CallExpr); ok {
		if r, n, a, ok := method(inner); ok && n == "GetConstant" && isIdent(r, t.iface) && len(a) == 1 {
			name, ok := strLit(a[0])
			if !ok {
				t.fail(c, "GetConstant: expected a string literal")
			}
			return "EConst " + cq(name) + " " + t.exprs(c.Args)
		}
		t.fail(c, "unexpected curried call")
	}
	// module-level operator: Name(iface, args...)
	if name, ok := ident(c.Fun); ok {
		if len(c.Args) >= 1 && isIdent(c.Args[0], t.iface) {
			tn, ok := t.names[name]
			if !ok {
				t.fail(c, "call of %s: no TLA+ operator of that name is known", name)
			}
			return "ECall " + cq(tn) + " " + t.exprs(c.Args[1:])
		}
		// LET-defined local operator with parameters
		return "ECall " + cq(name) + " " + t.exprs(c.Args)
	}
	if p, n, ok := sel(c.Fun); ok {
		if p == t.iface && n == "Self" && len(c.Args) == 0 {
			return "ESelf"
		}
		if p == "tla" {
			return t.tlaCall(c, n)
		}
	}
	// method calls on values
	if r, n, a, ok := method(c); ok {
		switch n {
		case "ApplyFunction":
			if len(a) == 1 {
				return "EApp (" + t.expr(r) + ") (" + t.expr(a[0]) + ")"
			}
		}
	}
	t.fail(c, "call outside the generated-Go grammar")
	return ""
}

func (t *tr) tlaCall(c *ast.CallExpr, n string) string {
	a := c.Args
	switch n {
	case "MakeNumber":
		if len(a) == 1 {
			switch l := a[0].(type) {
			case *ast.BasicLit:
				if l.Kind == token.INT {
					return "ENum " + l.Value
				}
			case *ast.UnaryExpr:
				if bl, ok := l.X.(*ast.BasicLit); ok && l.Op == token.SUB && bl.Kind == token.INT {
					return "ENum (-" + bl.Value + ")"
				}
			}
		}
		t.fail(c, "MakeNumber: expected an integer literal")
	case "MakeString":
		if len(a) == 1 {
			if s, ok := strLit(a[0]); ok {
				return "EStr " + cq(s)
			}
		}
		t.fail(c, "MakeString: expected a string literal")
	case "MakeBool":
		if len(a) == 1 {
			if b, ok := a[0].(*ast.BinaryExpr); ok {
				if b.Op == token.LAND {
					l, ok1 := asBool(b.X)
					r, ok2 := asBool(b.Y)
					if ok1 && ok2 {
						return "EOp B_and [" + t.expr(l) + "; " + t.expr(r) + "]"
					}
				}
				if b.Op == token.LOR {
					if u, ok := b.X.(*ast.UnaryExpr); ok && u.Op == token.NOT {
						l, ok1 := asBool(u.X)
						r, ok2 := asBool(b.Y)
						if ok1 && ok2 {
							return "EOp B_implies [" + t.expr(l) + "; " + t.expr(r) + "]"
						}
					}
					l, ok1 := asBool(b.X)
					r, ok2 := asBool(b.Y)
					if ok1 && ok2 {
						return "EOp B_or [" + t.expr(l) + "; " + t.expr(r) + "]"
					}
				}
			}
		}
		t.fail(c, "MakeBool: expected a.AsBool() && / || b.AsBool()")
	case "MakeTuple":
		return "ETuple " + t.exprs(a)
	case "MakeSet":
		return "ESetEnum " + t.exprs(a)
	case "MakeRecord":
		if len(a) == 1 {
			return "ERecord " + t.recordFields(a[0])
		}
	case "MakeRecordSet":
		if len(a) == 1 {
			return "ERecordSet " + t.recordFields(a[0])
		}
	case "MakeFunctionSet":
		if len(a) == 2 {
			return "EFuncSet (" + t.expr(a[0]) + ") (" + t.expr(a[1]) + ")"
		}
	case "CrossProduct":
		return "ECross " + t.exprs(a)
	case "MakeFunction", "QuantifiedExistential", "QuantifiedUniversal", "SetComprehension":
		if len(a) == 2 {
			sets := t.valueSlice(a[0])
			ss := make([]string, len(sets))
			for i, s := range sets {
				ss[i] = t.expr(s)
			}
			pats, body := t.closure(a[1], len(sets), false, n == "QuantifiedExistential" || n == "QuantifiedUniversal")
			b := bounds(pats, ss)
			switch n {
			case "MakeFunction":
				return "EFunc " + b + " (" + body + ")"
			case "QuantifiedExistential":
				return "EExists " + b + " (" + body + ")"
			case "QuantifiedUniversal":
				return "EForall " + b + " (" + body + ")"
			default:
				return "ESetMap (" + body + ") " + b
			}
		}
	case "SetRefinement", "Choose":
		if len(a) == 2 {
			pats, body := t.closure(a[1], 1, true, true)
			if n == "SetRefinement" {
				return "EFilter (" + pats[0] + ") (" + t.expr(a[0]) + ") (" + body + ")"
			}
			return "EChoose (" + pats[0] + ") (" + t.expr(a[0]) + ") (" + body + ")"
		}
	case "FunctionSubstitution":
		if len(a) == 2 {
			cl, ok := a[1].(*ast.CompositeLit)
			if !ok {
				t.fail(c, "FunctionSubstitution: expected []tla.FunctionSubstitutionRecord{...}")
			}
			var subs []string
			for _, el := range cl.Elts {
				r, ok := el.(*ast.CompositeLit)
				if !ok || len(r.Elts) != 2 {
					t.fail(el, "FunctionSubstitution record: expected {keys, closure}")
				}
				keys := t.valueSlice(r.Elts[0])
				fl, ok := r.Elts[1].(*ast.FuncLit)
				if !ok || len(fl.Type.Params.List) != 1 || len(fl.Type.Params.List[0].Names) != 1 {
					t.fail(el, "FunctionSubstitution record: expected func(anchor tla.Value) tla.Value")
				}
				anchor := fl.Type.Params.List[0].Names[0].Name
				// the closure parameter is TLA+'s @
				ks := t.exprs(keys)
				old := t.at[anchor]
				t.at[anchor] = true
				body := t.singleReturn(fl.Body)
				t.at[anchor] = old
				subs = append(subs, "("+ks+", "+body+")")
			}
			return "EExcept (" + t.expr(a[0]) + ") " + clist(subs)
		}
	default:
		if strings.HasPrefix(n, "Module") {
			if op, ok := moduleOps[strings.TrimPrefix(n, "Module")]; ok {
				return "EOp " + op + " " + t.exprs(a)
			}
		}
	}
	t.fail(c, "tla.%s: outside the generated-Go grammar", n)
	return ""
}

// ---------------------------------------------------------------- statements

func isErrNilCheck(s ast.Stmt) bool {
	is, ok := s.(*ast.IfStmt)
	if !ok || is.Init != nil || is.Else != nil {
		return false
	}
	b, ok := is.Cond.(*ast.BinaryExpr)
	if !ok || b.Op != token.NEQ || !isIdent(b.Y, "nil") {
		return false
	}
	if _, ok := b.X.(*ast.Ident); !ok {
		return false
	}
	if len(is.Body.List) != 1 {
		return false
	}
	rs, ok := is.Body.List[0].(*ast.ReturnStmt)
	return ok && len(rs.Results) == 1 && isIdent(rs.Results[0], b.X.(*ast.Ident).Name)
}

func (t *tr) ifaceCall(e ast.Expr, name string) ([]ast.Expr, bool) {
	r, n, a, ok := method(e)
	if ok && n == name && isIdent(r, t.iface) {
		return a, true
	}
	return nil, false
}

func (t *tr) varDecl(s ast.Stmt) (*ast.ValueSpec, bool) {
	ds, ok := s.(*ast.DeclStmt)
	if !ok {
		return nil, false
	}
	gd, ok := ds.Decl.(*ast.GenDecl)
	if !ok || gd.Tok != token.VAR || len(gd.Specs) != 1 {
		return nil, false
	}
	vs := gd.Specs[0].(*ast.ValueSpec)
	if len(vs.Names) != 1 {
		return nil, false
	}
	return vs, true
}

func isBlankAssign(s ast.Stmt) bool {
	as, ok := s.(*ast.AssignStmt)
	return ok && as.Tok == token.ASSIGN && len(as.Lhs) == 1 && isIdent(as.Lhs[0], "_")
}

// `X.AsSet().Len()`
func isSetLen(e ast.Expr, tmp string) bool {
	r, n, a, ok := method(e)
	if !ok || n != "Len" || len(a) != 0 {
		return false
	}
	r2, n2, a2, ok := method(r)
	return ok && n2 == "AsSet" && len(a2) == 0 && isIdent(r2, tmp)
}

func (t *tr) block(stmts []ast.Stmt) []string {
	var out []string
	i := 0
	need := func(k int) {
		if i+k > len(stmts) {
			t.fail(stmts[i], "statement sequence ends inside an idiom")
		}
	}
	for i < len(stmts) {
		s := stmts[i]
		// var err error ; _ = err ; _ = x
		if vs, ok := t.varDecl(s); ok && isIdent(vs.Type, "error") && len(vs.Values) == 0 {
			i++
			continue
		}
		if isBlankAssign(s) {
			i++
			continue
		}
		switch x := s.(type) {
		case *ast.AssignStmt:
			// h := iface.RequireArchetypeResource("A.v")
			if x.Tok == token.DEFINE && len(x.Lhs) == 1 && len(x.Rhs) == 1 {
				h, _ := ident(x.Lhs[0])
				if a, ok := t.ifaceCall(x.Rhs[0], "RequireArchetypeResource"); ok && len(a) == 1 {
					name, ok := strLit(a[0])
					if !ok {
						t.fail(s, "RequireArchetypeResource: expected a string literal")
					}
					out = append(out, "GRes "+cq(h)+" "+cq(name))
					i++
					continue
				}
				if a, ok := t.ifaceCall(x.Rhs[0], "ReadArchetypeResourceLocal"); ok && len(a) == 1 {
					name, ok := strLit(a[0])
					if !ok {
						t.fail(s, "ReadArchetypeResourceLocal: expected a string literal")
					}
					out = append(out, "GRefArg "+cq(h)+" "+cq(name))
					i++
					continue
				}
			}
			// h, err := iface.RequireArchetypeResourceRef("A.p") ; if err != nil { return err }
			if x.Tok == token.DEFINE && len(x.Lhs) == 2 && len(x.Rhs) == 1 {
				if a, ok := t.ifaceCall(x.Rhs[0], "RequireArchetypeResourceRef"); ok && len(a) == 1 {
					need(2)
					name, ok := strLit(a[0])
					h, _ := ident(x.Lhs[0])
					if !ok || !isErrNilCheck(stmts[i+1]) {
						t.fail(s, "RequireArchetypeResourceRef: unexpected shape")
					}
					out = append(out, "GRef "+cq(h)+" "+cq(name))
					i += 2
					continue
				}
			}
			// err = iface.Write(h, idx, e) ; if err != nil { return err }
			if x.Tok == token.ASSIGN && len(x.Lhs) == 1 && len(x.Rhs) == 1 {
				if a, ok := t.ifaceCall(x.Rhs[0], "Write"); ok && len(a) == 3 {
					need(2)
					h, ok := ident(a[0])
					if !ok || !isErrNilCheck(stmts[i+1]) {
						t.fail(s, "Write: unexpected shape")
					}
					out = append(out, "GWrite "+cq(h)+" "+t.exprs(t.valueSlice(a[1]))+" ("+t.expr(a[2])+")")
					i += 2
					continue
				}
			}
			t.fail(s, "assignment outside the generated-Go grammar")
		case *ast.DeclStmt:
			vs, ok := t.varDecl(s)
			if !ok {
				t.fail(s, "declaration outside the generated-Go grammar")
			}
			name := vs.Names[0].Name
			// var x tla.Value ; x, err = iface.Read(h, idx) ; if err != nil { return err }
			if len(vs.Values) == 0 && isTlaValueType(vs.Type) {
				need(3)
				as, ok := stmts[i+1].(*ast.AssignStmt)
				if ok && as.Tok == token.ASSIGN && len(as.Lhs) == 2 && len(as.Rhs) == 1 && isIdent(as.Lhs[0], name) {
					if a, ok := t.ifaceCall(as.Rhs[0], "Read"); ok && len(a) == 2 && isErrNilCheck(stmts[i+2]) {
						h, ok := ident(a[0])
						if !ok {
							t.fail(s, "Read: handle is not an identifier")
						}
						out = append(out, "GRead "+cq(name)+" "+cq(h)+" "+t.exprs(t.valueSlice(a[1])))
						i += 3
						continue
					}
				}
				t.fail(s, "var without value not followed by iface.Read")
			}
			// with-set idiom: var tmp = e ; if tmp.AsSet().Len() == 0 { abort } ; var x tla.Value = tmp.SelectElement(iface.NextFairnessCounter(id, uint(tmp.AsSet().Len())))
			if len(vs.Values) == 1 && vs.Type == nil {
				need(3)
				is, ok := stmts[i+1].(*ast.IfStmt)
				okShape := ok && is.Init == nil && is.Else == nil && len(is.Body.List) == 1
				if okShape {
					b, ok := is.Cond.(*ast.BinaryExpr)
					okShape = ok && b.Op == token.EQL && isSetLen(b.X, name)
					if okShape {
						bl, ok := b.Y.(*ast.BasicLit)
						okShape = ok && bl.Value == "0"
					}
					rs, ok := is.Body.List[0].(*ast.ReturnStmt)
					okShape = okShape && ok && len(rs.Results) == 1 && isSel(rs.Results[0], "distsys", "ErrCriticalSectionAborted")
				}
				vs2, ok := t.varDecl(stmts[i+2])
				okShape = okShape && ok && len(vs2.Values) == 1 && isTlaValueType(vs2.Type)
				if okShape {
					r, n, a, ok := method(vs2.Values[0])
					okShape = ok && n == "SelectElement" && isIdent(r, name) && len(a) == 1
					if okShape {
						fa, ok := t.ifaceCall(a[0], "NextFairnessCounter")
						okShape = ok && len(fa) == 2
						if okShape {
							id, ok := strLit(fa[0])
							conv, ok2 := fa[1].(*ast.CallExpr)
							okShape = ok && ok2 && isIdent(conv.Fun, "uint") && len(conv.Args) == 1 && isSetLen(conv.Args[0], name)
							if okShape {
								out = append(out, "GWithSet "+cq(vs2.Names[0].Name)+" "+cq(id)+" ("+t.expr(vs.Values[0])+")")
								i += 3
								continue
							}
						}
					}
				}
				t.fail(s, "untyped var is not the with-set selection idiom")
			}
			// var x tla.Value = e
			if len(vs.Values) == 1 && isTlaValueType(vs.Type) {
				out = append(out, "GVar "+cq(name)+" ("+t.expr(vs.Values[0])+")")
				i++
				continue
			}
			t.fail(s, "declaration outside the generated-Go grammar")
		case *ast.IfStmt:
			if x.Init != nil {
				t.fail(s, "if with init statement")
			}
			// if !c.AsBool() { return ... }
			if u, ok := x.Cond.(*ast.UnaryExpr); ok && u.Op == token.NOT && x.Else == nil && len(x.Body.List) == 1 {
				c, ok := asBool(u.X)
				rs, ok2 := x.Body.List[0].(*ast.ReturnStmt)
				if ok && ok2 && len(rs.Results) == 1 {
					if isSel(rs.Results[0], "distsys", "ErrCriticalSectionAborted") {
						out = append(out, "GAwait ("+t.expr(c)+")")
						i++
						continue
					}
					if call, ok := rs.Results[0].(*ast.CallExpr); ok && isSel(call.Fun, "fmt", "Errorf") && len(call.Args) == 2 && isSel(call.Args[1], "distsys", "ErrAssertionFailed") {
						out = append(out, "GAssert ("+t.expr(c)+")")
						i++
						continue
					}
				}
				t.fail(s, "negated if is neither an await nor an assert")
			}
			c, ok := asBool(x.Cond)
			if !ok || x.Else == nil {
				t.fail(s, "if outside the generated-Go grammar")
			}
			eb, ok := x.Else.(*ast.BlockStmt)
			if !ok {
				t.fail(s, "else is not a block")
			}
			out = append(out, "GIf ("+t.expr(c)+") "+clist(t.block(x.Body.List))+" "+clist(t.block(eb.List)))
			i++
			continue
		case *ast.SwitchStmt:
			if x.Init != nil || x.Tag == nil {
				t.fail(s, "switch outside the generated-Go grammar")
			}
			fa, ok := t.ifaceCall(x.Tag, "NextFairnessCounter")
			if !ok || len(fa) != 2 {
				t.fail(s, "switch tag is not iface.NextFairnessCounter")
			}
			id, _ := strLit(fa[0])
			nl, ok := fa[1].(*ast.BasicLit)
			if !ok {
				t.fail(s, "either: branch count is not a literal")
			}
			n, _ := strconv.Atoi(nl.Value)
			var branches []string
			for k, cc := range x.Body.List {
				c := cc.(*ast.CaseClause)
				if c.List == nil {
					if k != n || len(c.Body) != 1 {
						t.fail(c, "either: unexpected default clause")
					}
					continue
				}
				bl, ok := c.List[0].(*ast.BasicLit)
				if !ok || len(c.List) != 1 || bl.Value != strconv.Itoa(k) {
					t.fail(c, "either: case labels are not 0..n-1 in order")
				}
				branches = append(branches, clist(t.block(c.Body)))
			}
			if len(branches) != n {
				t.fail(s, "either: %d branches for bound %d", len(branches), n)
			}
			out = append(out, "GEither "+cq(id)+" "+clist(branches))
			i++
			continue
		case *ast.ExprStmt:
			if r, n, a, ok := method(x.X); ok && n == "PCalPrint" && len(a) == 0 {
				out = append(out, "GPrint ("+t.expr(r)+")")
				i++
				continue
			}
			t.fail(s, "expression statement outside the generated-Go grammar")
		case *ast.ReturnStmt:
			if len(x.Results) != 1 {
				t.fail(s, "return outside the generated-Go grammar")
			}
			if i != len(stmts)-1 {
				t.fail(s, "statements after a return")
			}
			r := x.Results[0]
			if isSel(r, "distsys", "ErrDone") {
				out = append(out, "GDone")
			} else if isSel(r, "distsys", "ErrProcedureFallthrough") {
				out = append(out, "GFallthrough")
			} else if a, ok := t.ifaceCall(r, "Goto"); ok && len(a) == 1 {
				l, ok := strLit(a[0])
				if !ok {
					t.fail(s, "Goto: expected a string literal")
				}
				out = append(out, "GGoto "+cq(l))
			} else if a, ok := t.ifaceCall(r, "Call"); ok && len(a) >= 2 {
				p, ok1 := strLit(a[0])
				l, ok2 := strLit(a[1])
				if !ok1 || !ok2 {
					t.fail(s, "Call: expected string literals")
				}
				out = append(out, "GCall "+cq(p)+" "+cq(l)+" "+t.exprs(a[2:]))
			} else if a, ok := t.ifaceCall(r, "TailCall"); ok && len(a) >= 1 {
				p, ok1 := strLit(a[0])
				if !ok1 {
					t.fail(s, "TailCall: expected a string literal")
				}
				out = append(out, "GTailCall "+cq(p)+" "+t.exprs(a[1:]))
			} else if a, ok := t.ifaceCall(r, "Return"); ok && len(a) == 0 {
				out = append(out, "GReturn")
			} else {
				t.fail(s, "return outside the generated-Go grammar")
			}
			i++
			continue
		default:
			t.fail(s, "statement outside the generated-Go grammar (%T)", s)
		}
	}
	return out
}

// ---------------------------------------------------------------- top level

type labelOut struct {
	Name string `json:"name"`
	Def  string `json:"def"`
	Hash string `json:"hash"`
	Kind string `json:"kind"` // "body" | "done" | "fallthrough"
}

type archOut struct {
	Name      string     `json:"name"`
	Label     string     `json:"label"`
	RefParams []string   `json:"ref_params"`
	ValParams []string   `json:"val_params"`
	Locals    [][]string `json:"locals"` // [name, coq expr of the initial value]
}

type procOut struct {
	Name      string   `json:"name"`
	Label     string   `json:"label"`
	StateVars []string `json:"state_vars"`
}

type result struct {
	Sys        string     `json:"sys"`
	Labels     []labelOut `json:"labels"`
	Archetypes []archOut  `json:"archetypes"`
	Procs      []procOut  `json:"procs"`
	Ops        []string   `json:"ops"`
	OpsHash    string     `json:"ops_hash"`
}

func mangle(s string) string {
	var b strings.Builder
	for _, r := range s {
		if (r >= 'a' && r <= 'z') || (r >= 'A' && r <= 'Z') || (r >= '0' && r <= '9') {
			b.WriteRune(r)
		} else {
			b.WriteRune('_')
		}
	}
	return b.String()
}

func kv(cl *ast.CompositeLit, key string) ast.Expr {
	for _, e := range cl.Elts {
		if k, ok := e.(*ast.KeyValueExpr); ok && isIdent(k.Key, key) {
			return k.Value
		}
	}
	return nil
}

func (t *tr) stringSlice(e ast.Expr) []string {
	cl, ok := e.(*ast.CompositeLit)
	if !ok {
		t.fail(e, "expected []string{...}")
	}
	var out []string
	for _, el := range cl.Elts {
		s, ok := strLit(el)
		if !ok {
			t.fail(el, "expected a string literal")
		}
		out = append(out, s)
	}
	return out
}

func main() {
	sys := flag.String("sys", "", "system name (prefix of the generated definitions)")
	in := flag.String("in", "", "generated Go file")
	out := flag.String("out", "", "Coq output")
	js := flag.String("json", "", "JSON summary output")
	namesF := flag.String("names", "", "JSON map Go operator function -> TLA+ operator name")
	flag.Parse()
	t := &tr{fset: token.NewFileSet(), names: map[string]string{}, ops: map[string]int{}, at: map[string]bool{}}
	defer func() {
		if r := recover(); r != nil {
			if e, ok := r.(terr); ok {
				fmt.Fprintln(os.Stderr, "go2coq: "+e.msg)
				os.Exit(2)
			}
			panic(r)
		}
	}()
	if *namesF != "" {
		b, err := os.ReadFile(*namesF)
		if err != nil {
			t.fail(nil, "%v", err)
		}
		if err := json.Unmarshal(b, &t.names); err != nil {
			t.fail(nil, "names: %v", err)
		}
	}
	f, err := parser.ParseFile(t.fset, *in, nil, 0)
	if err != nil {
		t.fail(nil, "parse: %v", err)
	}
	res := result{Sys: *sys}
	var w strings.Builder
	w.WriteString("(* GENERATED by tools/go2coq from " + *in + " -- do not edit, not committed *)\n")
	w.WriteString("From PGV Require Import C02.Lang C02.Sem.\nOpen Scope string_scope.\nOpen Scope list_scope.\nOpen Scope Z_scope.\n\n")

	var opDefs []string
	var labelDefs []string
	for _, d := range f.Decls {
		switch x := d.(type) {
		case *ast.FuncDecl:
			// func Name(iface distsys.ArchetypeInterface, a tla.Value, ...) tla.Value { return e }
			if x.Recv != nil || x.Type.Params == nil || len(x.Type.Params.List) == 0 {
				t.fail(x, "function outside the generated-Go grammar")
			}
			p0 := x.Type.Params.List[0]
			if !isSel(p0.Type, "distsys", "ArchetypeInterface") || len(p0.Names) != 1 {
				t.fail(x, "operator function: first parameter is not the archetype interface")
			}
			t.iface = p0.Names[0].Name
			var params []string
			for _, p := range x.Type.Params.List[1:] {
				if !isTlaValueType(p.Type) {
					t.fail(x, "operator %s: higher-order parameter", x.Name.Name)
				}
				for _, n := range p.Names {
					params = append(params, cq(n.Name))
				}
			}
			tn, ok := t.names[x.Name.Name]
			if !ok {
				t.fail(x, "operator function %s has no TLA+ counterpart in the names table", x.Name.Name)
			}
			body := t.singleReturn(x.Body)
			opDefs = append(opDefs, "("+cq(tn)+", ("+clist(params)+", "+body+"))")
			res.Ops = append(res.Ops, tn)
		case *ast.GenDecl:
			if x.Tok == token.IMPORT {
				continue
			}
			if x.Tok != token.VAR {
				t.fail(x, "declaration outside the generated-Go grammar")
			}
			for _, sp := range x.Specs {
				vs := sp.(*ast.ValueSpec)
				if len(vs.Names) != 1 || len(vs.Values) != 1 {
					t.fail(vs, "var outside the generated-Go grammar")
				}
				name := vs.Names[0].Name
				if name == "_" {
					continue
				}
				switch v := vs.Values[0].(type) {
				case *ast.CallExpr:
					if isSel(v.Fun, "distsys", "MakeMPCalProcTable") {
						for _, a := range v.Args {
							cl := a.(*ast.CompositeLit)
							pn, _ := strLit(kv(cl, "Name"))
							pl, _ := strLit(kv(cl, "Label"))
							res.Procs = append(res.Procs, procOut{pn, pl, t.stringSlice(kv(cl, "StateVars"))})
							// the PreAmble (initialisation of the procedure's locals) is a body in the same grammar
							fl, ok := kv(cl, "PreAmble").(*ast.FuncLit)
							if !ok {
								t.fail(cl, "procedure %s: PreAmble is not a function literal", pn)
							}
							t.iface = fl.Type.Params.List[0].Names[0].Name
							stmts := fl.Body.List
							if n := len(stmts); n == 0 || !isReturnNil(stmts[n-1]) {
								t.fail(cl, "procedure %s: PreAmble does not end in return nil", pn)
							} else {
								stmts = stmts[:n-1]
							}
							def := *sys + "_go_preamble_" + mangle(pn)
							text := clist(t.block(stmts))
							w.WriteString("Definition " + def + " : list gstmt :=\n  " + text + ".\n\n")
							h := sha256.Sum256([]byte(text))
							res.Labels = append(res.Labels, labelOut{pn + ".$preamble", def, hex.EncodeToString(h[:8]), "preamble"})
						}
						continue
					}
					if isSel(v.Fun, "distsys", "MakeMPCalJumpTable") {
						for _, a := range v.Args {
							cl, ok := a.(*ast.CompositeLit)
							if !ok || !isSel(cl.Type, "distsys", "MPCalCriticalSection") {
								t.fail(a, "jump table entry is not an MPCalCriticalSection")
							}
							ln, ok := strLit(kv(cl, "Name"))
							if !ok {
								t.fail(cl, "critical section without a name")
							}
							fl, ok := kv(cl, "Body").(*ast.FuncLit)
							if !ok {
								t.fail(cl, "critical section %s: Body is not a function literal", ln)
							}
							if len(fl.Type.Params.List) != 1 {
								t.fail(cl, "critical section %s: unexpected parameters", ln)
							}
							if len(fl.Type.Params.List[0].Names) == 1 {
								t.iface = fl.Type.Params.List[0].Names[0].Name
							} else {
								t.iface = "\x00"
							}
							stmts := t.block(fl.Body.List)
							kind := "body"
							if len(stmts) == 1 && stmts[0] == "GDone" {
								kind = "done"
							} else if len(stmts) == 1 && stmts[0] == "GFallthrough" {
								kind = "fallthrough"
							}
							def := *sys + "_go_" + mangle(ln)
							text := clist(stmts)
							labelDefs = append(labelDefs, "("+cq(ln)+", "+def+")")
							w.WriteString("Definition " + def + " : list gstmt :=\n  " + strings.ReplaceAll(text, "; G", ";\n   G") + ".\n\n")
							h := sha256.Sum256([]byte(text))
							res.Labels = append(res.Labels, labelOut{ln, def, hex.EncodeToString(h[:8]), kind})
						}
						continue
					}
					t.fail(vs, "var %s: outside the generated-Go grammar", name)
				case *ast.CompositeLit:
					if !isSel(v.Type, "distsys", "MPCalArchetype") {
						t.fail(vs, "var %s: outside the generated-Go grammar", name)
					}
					an, _ := strLit(kv(v, "Name"))
					al, _ := strLit(kv(v, "Label"))
					ao := archOut{Name: an, Label: al, RefParams: t.stringSlice(kv(v, "RequiredRefParams")), ValParams: t.stringSlice(kv(v, "RequiredValParams"))}
					fl, ok := kv(v, "PreAmble").(*ast.FuncLit)
					if !ok {
						t.fail(v, "archetype %s: PreAmble is not a function literal", an)
					}
					t.iface = fl.Type.Params.List[0].Names[0].Name
					for _, s := range fl.Body.List {
						es, ok := s.(*ast.ExprStmt)
						if !ok {
							t.fail(s, "archetype preamble: unexpected statement")
						}
						a, ok := t.ifaceCall(es.X, "EnsureArchetypeResourceLocal")
						if !ok || len(a) != 2 {
							t.fail(s, "archetype preamble: expected EnsureArchetypeResourceLocal")
						}
						rn, _ := strLit(a[0])
						ao.Locals = append(ao.Locals, []string{rn, t.preambleExpr(a[1])})
					}
					res.Archetypes = append(res.Archetypes, ao)
				default:
					t.fail(vs, "var %s: outside the generated-Go grammar", name)
				}
			}
		default:
			t.fail(d, "declaration outside the generated-Go grammar")
		}
	}
	opsText := clist(opDefs)
	w.WriteString("Definition " + *sys + "_go_defs : list opdef :=\n  " + strings.ReplaceAll(opsText, "));", "));\n  ") + ".\n\n")
	w.WriteString("Definition " + *sys + "_go_labels : list (string * list gstmt) :=\n  " + clist(labelDefs) + ".\n\n")
	var inits []string
	for _, a := range res.Archetypes {
		for _, l := range a.Locals {
			inits = append(inits, "("+cq(l[0])+", "+l[1]+")")
		}
	}
	w.WriteString("Definition " + *sys + "_go_local_inits : list (string * expr) :=\n  " + clist(inits) + ".\n")
	h := sha256.Sum256([]byte(opsText))
	res.OpsHash = hex.EncodeToString(h[:8])
	sort.Strings(res.Ops)
	if err := os.WriteFile(*out, []byte(w.String()), 0644); err != nil {
		t.fail(nil, "%v", err)
	}
	b, _ := json.MarshalIndent(res, "", " ")
	if err := os.WriteFile(*js, b, 0644); err != nil {
		t.fail(nil, "%v", err)
	}
}

func isReturnNil(s ast.Stmt) bool {
	rs, ok := s.(*ast.ReturnStmt)
	return ok && len(rs.Results) == 1 && isIdent(rs.Results[0], "nil")
}

// initial values in an archetype PreAmble may read earlier locals: iface.ReadArchetypeResourceLocal("A.v"),
// and a `with`-declared local takes  set.SelectElement(0)
func (t *tr) preambleExpr(e ast.Expr) string {
	if r, n, a, ok := method(e); ok && n == "SelectElement" && len(a) == 1 {
		if bl, ok := a[0].(*ast.BasicLit); ok && bl.Value == "0" {
			return "EChoose (PVar \"%sel\") (" + t.preambleExprInner(r) + ") (EBool true)"
		}
	}
	return t.preambleExprInner(e)
}

func (t *tr) preambleExprInner(e ast.Expr) string {
	// ReadArchetypeResourceLocal occurrences are rewritten to named variables "$local:A.v"
	var rewrite func(n ast.Node) bool
	rewrite = func(n ast.Node) bool { return true }
	_ = rewrite
	return t.exprWithLocalReads(e)
}

func (t *tr) exprWithLocalReads(e ast.Expr) string {
	// textual pre-pass on the AST: replace iface.ReadArchetypeResourceLocal("A.v") by identifier $local_A.v
	ast.Inspect(e, func(n ast.Node) bool {
		switch x := n.(type) {
		case *ast.CallExpr:
			for i, a := range x.Args {
				if la, ok := t.ifaceCall(a, "ReadArchetypeResourceLocal"); ok && len(la) == 1 {
					name, _ := strLit(la[0])
					x.Args[i] = &ast.Ident{Name: "$local:" + name, NamePos: a.Pos()}
				}
			}
		case *ast.CompositeLit:
			for i, a := range x.Elts {
				if la, ok := t.ifaceCall(a, "ReadArchetypeResourceLocal"); ok && len(la) == 1 {
					name, _ := strLit(la[0])
					x.Elts[i] = &ast.Ident{Name: "$local:" + name, NamePos: a.Pos()}
				}
			}
		}
		return true
	})
	if la, ok := t.ifaceCall(e, "ReadArchetypeResourceLocal"); ok && len(la) == 1 {
		name, _ := strLit(la[0])
		return "EVar " + cq("$local:"+name)
	}
	return t.expr(e)
}
