#!/usr/bin/env python3
"""Confirm a seeded change in a fresh scratch worktree of /repo HEAD:
  demo passes without the patch; patch applies; module builds; module's existing tests pass; demo fails with it.
usage: confirm_seed.py <seed_dir> <module_dir> <demo_dest_relpath> <go test -run pattern> [extra test dirs...]
Writes the outcome into <seed_dir>/meta.json under "confirmed"."""
import json, os, subprocess, sys, tempfile, shutil
seed, mod, dest, pat = sys.argv[1:5]
extra = sys.argv[5:]
env = dict(os.environ, GOFLAGS="-mod=mod", GOPROXY="off", GOWORK="off")
wt = tempfile.mkdtemp(prefix="seedwt-", dir="/var/tmp"); os.rmdir(wt)
wsenv = {k: v for k, v in os.environ.items() if k not in ("GOFLAGS", "GOWORK")}
wsenv["GOPROXY"] = "off"
def sh(cmd, cwd=None, t=1500, e=None):
    p = subprocess.run(cmd, shell=True, cwd=cwd, env=e or env, stdout=subprocess.PIPE, stderr=subprocess.STDOUT, text=True, timeout=t)
    return p.returncode, p.stdout[-1500:]
res = {}
try:
    rc, out = sh("git -C /repo worktree add -q %s HEAD" % wt); assert rc == 0, out
    res["repo_head"] = sh("git -C /repo rev-parse --short HEAD")[1].strip()
    os.makedirs(os.path.dirname(os.path.join(wt, dest)), exist_ok=True)
    shutil.copy(os.path.join(seed, "demo_test.go") if os.path.exists(os.path.join(seed, "demo_test.go")) else os.path.join(seed, "demo.go"), os.path.join(wt, dest))
    denv = env if dest.startswith("distsys/") else wsenv
    tags = os.environ.get("DEMO_TAGS", "")
    rc, out = sh("go test %s -count=1 -run '%s' ." % (tags, pat), os.path.join(wt, os.path.dirname(dest)), e=denv)
    res["demo_without_patch"] = "pass" if rc == 0 else "FAIL: " + out[-400:]
    rc, out = sh("git apply %s" % os.path.abspath(os.path.join(seed, "patch.diff")), wt)
    res["patch_applies"] = rc == 0 or out
    rc, out = sh("go build ./...", os.path.join(wt, mod), e=(env if mod == "distsys" else wsenv))
    res["builds"] = rc == 0 or out
    os.rename(os.path.join(wt, dest), os.path.join(wt, dest) + ".off")
    tests = {}
    for d in [mod] + extra:
        # distsys: module mode; gotests/systems modules: workspace mode (go.work), as the baseline command does
        for attempt in range(3):   # other builders' tests sometimes hold the fixed ports the suite uses
            rc, out = sh("go test -count=1 ./...", os.path.join(wt, d), e=(env if d == "distsys" else wsenv))
            if rc == 0 or "address already in use" not in out:
                break
        tests[d] = "pass" if rc == 0 else "FAIL: " + out[-600:]
    res["existing_tests_with_patch"] = tests
    os.rename(os.path.join(wt, dest) + ".off", os.path.join(wt, dest))
    rc, out = sh("go test %s -count=1 -run '%s' ." % (tags, pat), os.path.join(wt, os.path.dirname(dest)), e=denv)
    res["demo_with_patch"] = "fails (as required)" if rc != 0 else "PASSES (seed not demonstrated)"
finally:
    subprocess.run("git -C /repo worktree remove --force %s" % wt, shell=True)
mp = os.path.join(seed, "meta.json")
meta = json.load(open(mp)) if os.path.exists(mp) else {}
meta["confirmed"] = res
meta["demo_placement"] = dest; meta["demo_run_pattern"] = pat
json.dump(meta, open(mp, "w"), indent=1)
print(json.dumps(res, indent=1))
ok = res.get("demo_without_patch") == "pass" and res.get("patch_applies") is True and res.get("builds") is True and \
     all(v == "pass" for v in res.get("existing_tests_with_patch", {}).values()) and str(res.get("demo_with_patch", "")).startswith("fails")
sys.exit(0 if ok else 1)
