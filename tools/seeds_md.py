#!/usr/bin/env python3
"""regenerate /verif/seeded/README.md from the meta.json files"""
import json, os, re
V = os.path.dirname(os.path.dirname(os.path.abspath(__file__)))
rows = []
stats = {"total": 0, "first_caught_concrete": 0, "first_break_only": 0, "first_missed": 0, "now_caught": 0, "now_missed": 0, "by_other_check": 0}
def key(d):
    m = re.match(r"C(\d+)-(\d+)", d); return (int(m.group(1)), int(m.group(2)))
for d in sorted([x for x in os.listdir(os.path.join(V, "seeded")) if re.match(r"C\d+-\d+$", x)], key=key):
    sd = os.path.join(V, "seeded", d)
    m = json.load(open(os.path.join(sd, "meta.json")))
    files = sorted(set(l[6:].strip() for l in open(os.path.join(sd, "patch.diff")) if l.startswith("+++ b/")))
    first = (m.get("check_result") or {}).get("verdict") or m.get("detected_by", "")
    re_ = m.get("recheck") or []
    own = [r for r in re_ if r["check"] == d.split("-")[0]]
    other = [r for r in re_ if r["check"] != d.split("-")[0]]
    last_own = own[-1]["verdict"] if own else first
    stats["total"] += 1
    f = first.lower()
    if "missed" in f: stats["first_missed"] += 1
    elif "no concrete" in f or "break" in f and "concrete failing input" not in f: stats["first_break_only"] += 1
    else: stats["first_caught_concrete"] += 1
    caught_now = "caught" in last_own.lower() and "missed" not in last_own.lower()
    if caught_now: stats["now_caught"] += 1
    elif any("caught" in r["verdict"] for r in other) or "caught by" in str(m.get("cross_check", "")).lower():
        stats["by_other_check"] += 1
    else: stats["now_missed"] += 1
    conf = m.get("confirmed") or {}
    cok = str(conf.get("demo_with_patch", "")).startswith("fails") and conf.get("demo_without_patch") == "pass"
    rows.append("| %s | %s | %s | %s | %s | %s | %s |" % (
        d, "<br>".join(files), " ".join(str(m.get("breaks", "")).split())[:260], "yes" if cok else "seeder only",
        first[:90], "; ".join("%s: %s %s" % (r["check"], r["verdict"][:60], ",".join(r.get("signatures", [])[:2])) for r in re_)[:300],
        " ".join(str(m.get("cross_check", "")).split())[:260]))
out = ["# Seeded changes", "",
       "Produced by independent sub-agents that were given only the property text and a scratch worktree (nothing from /verif).",
       "Each directory holds `patch.diff`, the demonstration (`demo_test.go`) and `meta.json` (what it breaks, what it needs to manifest,",
       "what the seeder ran, my own confirmation run, and what the checks reported). To run a check against one:",
       "`python3 tools/recheck_seed.py <seed> [<check>]` (fresh worktree of /repo HEAD + `VERIF_REPO`), or apply it to /repo, run `./check`, and",
       "`git -C /repo checkout -- .` straight afterwards.", "",
       "Summary: %(total)d seeds; first run of the property's own check: %(first_caught_concrete)d caught with a concrete failing input, "
       "%(first_break_only)d reported as a broken proof/correspondence without a concrete input, %(first_missed)d missed. "
       "After the strengthenings recorded in DESIGN.md §0.2 / notes: %(now_caught)d caught by the property's own check, %(by_other_check)d only by "
       "another property's check (the change lives in that property's code), %(now_missed)d not detected (see the rows)." % stats, "",
       "| seed | files | breaks | confirmed by me | first run of own check | rechecks (after strengthening / other checks) | note |", "|---|---|---|---|---|---|---|"] + rows
open(os.path.join(V, "seeded", "README.md"), "w").write("\n".join(out) + "\n")
print(stats)
