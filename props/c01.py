"""C01 — critical sections are atomic across every resource they touch (DESIGN §4 C01)."""
import json, os, copy
import vlib

ID = "C01"
THEOREMS = "Properties/C01.v"
HARNESS = ["c01"]
LEVEL = "proof"
READY = True
TRUSTED_BASE = [
    "Coq 8.16.1 kernel (coqc, full .vo build); vm_compute in the two refutation witnesses, the non-vacuity Example and the correspondence evaluation",
    "no axioms: Print Assumptions reports 'Closed under the global context' for every theorem of Properties/C01.v",
    "hand-written model coq/C01/Model.v of mpcalctx.go Run/commit/abort, archetypeinterface.go Read/Write, archetyperesource.go and 19 leaf kinds + IncMap/HashMap + nestedArchetype, "
    "tied by differential execution on every run (harness/cmd/c01 drives real MPCalContexts; the model is evaluated by vm_compute on the same cases)",
    "ghost stores of the model (Go channel behind a channel resource, badger, file system, TCP stream) behave as FIFO queue / key-value store / file / in-order stream",
    "the implementation-side oracle in props/c01.py (atomic reference semantics in Python) is test infrastructure",
]
ASSUMPTIONS = [
    "failures are aborts (ErrCriticalSectionAborted from a body, an operation or a PreCommit); an attempt that ends the archetype (assertion failure, "
    "panic, other error) is outcome Crashed: the theorem then only says that nothing was published",
    "section bodies are straight-line code whose later operations may depend on earlier reads (finite interaction trees); environment steps "
    "(producer pushes, the other lock holder, consumer readiness) happen between attempts",
    "PreCommit errors are ErrCriticalSectionAborted (the only error the shipped resources yield from PreCommit)",
    "projections: the CRDT resource is modelled as one node without peers (merges and broadcasts are C13), the 2PC variable without replicas (C11), the failure detector as a read-only flag, "
    "nestedArchetype as a forwarder over a lawful nested system (in the harness: a real nested MPCalContext serving a variable over the request/ack protocol); tcpMailboxesLocal/relaxedMailboxesLocal "
    "are the InputChan discipline (readBacklog/readsInProgress) and are exercised as the receiving side only",
    "vector clocks are transparent to values and not modelled",
]
RULE = ("cases = one MPCalContext with 1-5 resources drawn from 22 kinds (local, indexed local, InputChan, CustomInChan, OutputChan, SingleOutputChan, Dummy, "
        "FileSystem, IncMap/HashMap of locals, Persistent, IncMap of Persistent, PersistentLog, localShared, TCP and relaxed mailboxes over 127.0.0.1 on the sending and on the receiving side; single-node CRDT, unreplicated 2PC, nestedArchetype over a real nested context, failure detector, PlaceHolder), "
        "1-6 attempts of 1-8 scripted operations (reads/writes with index paths, write-what-was-read, await, assert, goto), one injected failure per failing attempt "
        "at a random position (false await, refusal at call j of an operation's Index/Read/Write chain, PreCommit failure of a random subset of resources, PreCommit refusal of chosen elements among 2-4 touched elements of one IncMap/HashMap, network failure of a TCP mailbox (the peer resets the connection before / between / after the writes of a section through a forwarder, or is unreachable), resource-inherent: "
        "empty channel, lock held elsewhere, full consumer), usually followed by a fault-free retry, plus a final observing section; all from one PRNG (VERIF_SEED). "
        "Non-trivial = at least 2 resource kinds, a write before the failure and at least one failing attempt; distinct by canonical case text.")

PC0 = "A.l"
# kinds run against the real code with the implementation-side oracle only (no Coq model of them here)
NOMODEL = ()

# ------------------------------------------------------------------------------------------ values

def canon(v):
    if isinstance(v, dict):
        if "t" in v:
            return {"t": [canon(x) for x in v["t"]]}
        return {"r": sorted([[canon(k), canon(x)] for k, x in v["r"]], key=lambda kv: json.dumps(kv[0]))}
    return v


def T(*xs):
    return {"t": list(xs)}


def R(**kw):
    return canon({"r": [[k, v] for k, v in kw.items()]})


def coq_val(v):
    if v is None:
        return "VD"
    if isinstance(v, bool):
        return "(VB %s)" % vlib.coq_bool(v)
    if isinstance(v, int):
        return "(VI %s)" % vlib.coq_Z(v)
    if isinstance(v, str):
        return "(VS %s)" % vlib.coq_str(v)
    if "t" in v:
        return "(VT %s)" % vlib.coq_list([coq_val(x) for x in v["t"]])
    return "(VR %s)" % vlib.coq_list(["(%s, %s)" % (coq_val(k), coq_val(x)) for k, x in v["r"]])


class Crash(Exception):
    pass


class Block(Exception):
    pass


def apply1(f, i):
    if isinstance(f, dict) and "t" in f:
        if isinstance(i, bool) or not isinstance(i, int) or not (1 <= i <= len(f["t"])):
            raise Crash()
        return f["t"][i - 1]
    if isinstance(f, dict) and "r" in f:
        for k, v in f["r"]:
            if k == i and type(k) == type(i):
                return v
        raise Crash()
    raise Crash()


def apply_path(f, p):
    for i in p:
        f = apply1(f, i)
    return f


def subst_path(src, p, v):
    if not p:
        return v
    k = p[0]
    if isinstance(src, dict) and "r" in src:
        out, found = [], False
        for k2, v2 in src["r"]:
            if k2 == k and type(k2) == type(k) and not found:
                out.append([k2, subst_path(v2, p[1:], v)]); found = True
            else:
                out.append([k2, v2])
        if not found:
            raise Crash()
        return {"r": out}
    if isinstance(src, dict) and "t" in src:
        if isinstance(k, bool) or not isinstance(k, int) or not (1 <= k <= len(src["t"])):
            raise Crash()
        xs = list(src["t"]); xs[k - 1] = subst_path(xs[k - 1], p[1:], v)
        return {"t": xs}
    raise Crash()


# ------------------------------------------------------------------------------------------ atomic reference semantics
# One abstract object per resource; a whole section acts on a copy and either replaces the state or not.

def init_obj(d):
    k = d["kind"]
    if k in ("local", "dummy"):
        return {"v": d["init"]}
    if k in ("inchan", "custominchan"):
        return {"q": list(d.get("items", []))}
    if k in ("outchan",):
        return {"sent": []}
    if k == "singleout":
        return {"sent": [], "full": False}
    if k == "filesystem":
        return {"files": {kv[0]: kv[1] for kv in d.get("files", [])}}
    if k == "incmap_local":
        return {"m": {}, "default": d["init"]}
    if k == "hashmap_local":
        return {"m": {json.dumps(kv[0]): {"v": kv[1], "db": None} for kv in d["table"]}, "default": None, "fixed": True}
    if k == "persist":
        return {"v": d["init"], "db": None}
    if k == "incmap_persist":
        return {"m": {}, "default": d["init"]}
    if k == "plog":
        return {"log": [], "db": {}}
    if k == "shared":
        return {"v": d["init"], "other": False}
    if k in ("tcp", "relaxed"):
        return {"sent": []}
    if k in ("tcp_local", "relaxed_local"):
        return {"q": []}
    if k == "crdt":
        return {"v": 0}
    if k in ("twopc", "nested"):
        return {"v": d["init"]}
    if k in ("fd", "placeholder"):
        return {}
    raise ValueError(k)


def fld(v, name):
    if isinstance(v, dict) and "r" in v:
        for k, x in v["r"]:
            if k == name:
                return x
    raise Crash()


def obj_step(kind, o, op, path, val):
    """op in r|w ; returns value read (None for a write). raises Block/Crash. mutates o."""
    if kind in ("local", "persist", "shared"):
        if kind == "shared" and o["other"]:
            raise Block()
        if op == "r":
            return apply_path(o["v"], path)
        o["v"] = subst_path(o["v"], path, val)
        if kind == "persist":
            o["db"] = [o["v"]]
        return None
    if kind == "dummy":
        return o["v"] if op == "r" else None
    if kind in ("inchan", "custominchan"):
        if op != "r" or path:
            raise Crash()
        if not o["q"]:
            if kind == "custominchan":
                return True
            raise Block()
        return o["q"].pop(0)
    if kind in ("outchan", "singleout"):
        if op != "w" or path:
            raise Crash()
        if kind == "singleout" and o["full"]:
            raise Block()
        o["sent"].append(val)
        return None
    if kind == "filesystem":
        if len(path) != 1:
            raise Crash()
        f = path[0]
        if op == "r":
            if not isinstance(f, str) or f not in o["files"]:
                raise Crash()
            return o["files"][f]
        if not isinstance(f, str) or not isinstance(val, str):
            raise Crash()
        o["files"][f] = val
        return None
    if kind in ("incmap_local", "hashmap_local", "incmap_persist"):
        if not path:
            raise Crash()
        key = json.dumps(path[0])
        if key not in o["m"]:
            if o.get("fixed"):
                raise Crash()
            o["m"][key] = {"v": o["default"], "db": None}
        child = o["m"][key]
        return obj_step("persist" if kind == "incmap_persist" else "local", child, op, path[1:], val)
    if kind == "plog":
        if op == "r":
            if not path:
                return T(*o["log"])
            if len(path) == 1 and isinstance(path[0], int) and not isinstance(path[0], bool) and 1 <= path[0] <= len(o["log"]):
                return o["log"][path[0] - 1]
            raise Crash()
        if path:
            raise Crash()
        cmd = fld(val, "cmd")
        if cmd == "log_concat":
            es = fld(val, "entries")
            if not (isinstance(es, dict) and "t" in es):
                raise Crash()
            for e in es["t"]:
                o["log"].append(e); o["db"][len(o["log"]) - 1] = e
            return None
        if cmd == "log_pop":
            cnt = fld(val, "cnt")
            if isinstance(cnt, bool) or not isinstance(cnt, int) or not (0 <= cnt <= len(o["log"])):
                raise Crash()
            for i in range(cnt):
                o["db"].pop(len(o["log"]) - i - 1, None)
            o["log"] = o["log"][:len(o["log"]) - cnt]
            return None
        raise Crash()
    if kind in ("tcp", "relaxed"):
        if op != "w" or len(path) != 1:
            raise Crash()
        o["sent"].append(val)
        return None
    if kind in ("tcp_local", "relaxed_local"):
        if op != "r" or len(path) != 1:
            raise Crash()
        if not o["q"]:
            raise Block()
        return o["q"].pop(0)
    if kind == "crdt":           # grow-only counter, one node: a write adds, a read yields the sum
        if path:
            raise Crash()
        if op == "r":
            return o["v"]
        if isinstance(val, bool) or not isinstance(val, int):
            raise Crash()
        o["v"] += val
        return None
    if kind in ("twopc", "nested"):   # an unreplicated 2PC variable / a variable served by a nested archetype
        if path:
            raise Crash()
        if op == "r":
            return o["v"]
        o["v"] = val
        return None
    if kind == "fd":             # the monitor is unreachable: the detector says "failed"
        if op != "r" or len(path) != 1:
            raise Crash()
        return True
    if kind == "placeholder":
        raise Crash()
    raise ValueError(kind)


def obj_snap(kind, o, keys):
    if kind in ("local", "dummy", "shared", "crdt", "twopc", "nested"):
        return o["v"]
    if kind == "fd":
        return T(*[True for _ in keys])
    if kind in ("inchan", "custominchan", "placeholder"):
        return None
    if kind in ("tcp_local", "relaxed_local"):
        return T(*[None for _ in keys])
    if kind in ("outchan", "singleout"):
        return T(*o["sent"])
    if kind == "filesystem":
        return T(*[T(o["files"][k]) if isinstance(k, str) and k in o["files"] else T() for k in keys])
    if kind in ("incmap_local", "hashmap_local"):
        out = []
        for k in keys:
            c = o["m"].get(json.dumps(k))
            out.append(o["default"] if c is None else c["v"])
        return T(*out)
    if kind == "persist":
        return T(o["v"], T() if o["db"] is None else T(o["db"][0]))
    if kind == "incmap_persist":
        out = []
        for k in keys:
            c = o["m"].get(json.dumps(k))
            if c is None:
                out.append(T(o["default"], T()))
            else:
                out.append(T(c["v"], T() if c["db"] is None else T(c["db"][0])))
        return T(*out)
    if kind == "plog":
        return T(T(*o["log"]), T(*[T(i, o["db"][i]) for i in sorted(o["db"])]))
    if kind in ("tcp", "relaxed"):
        return T(T(*o["sent"]))
    raise ValueError(kind)


def is_act(op):
    return op[0] in ("r", "w", "wl", "goto")


class Ref:
    """the reference: runs the attempts atomically; yields per attempt (expected outcome, trace, snapshot, info)"""

    def __init__(self, case):
        self.case = case
        self.kinds = {d["name"]: d["kind"] for d in case["res"]}
        self.state = {d["name"]: init_obj(d) for d in case["res"]}
        self.pc = PC0
        # TCP mailbox senders: the connection survives aborts; a reset by the peer kills it until the next dial
        self.net = {d["name"]: {"conn": "none", "down": False} for d in case["res"] if d["kind"] == "tcp"}

    def snap(self, state=None, pc=None):
        state = self.state if state is None else state
        pc = self.pc if pc is None else pc
        out = []
        for name, keys in self.case["snap"]:
            out.append(pc if name == ".pc" else obj_snap(self.kinds[name], state[name], keys))
        return canon(T(*out))["t"]

    def env(self, ev):
        o = self.state[ev[1]]
        if ev[0] == "push":
            o["q"].append(ev[2])
        elif ev[0] == "pushb":
            o["q"].extend(ev[2])
        elif ev[0] == "net":
            n = self.net[ev[1]]
            n["down"] = not ev[2]
            if n["down"] and n["conn"] == "live":
                n["conn"] = "dead"
        elif ev[0] == "other":
            if "other" in o:
                o["other"] = ev[2]
            elif "full" in o:
                o["full"] = ev[2]

    def attempt(self, at):
        for ev in at.get("env", []):
            self.env(ev)
        st = copy.deepcopy(self.state)
        pc = self.pc
        tr, last = [], None
        wrote_before, sent_nontx = False, []
        outcome = None
        touched = set()
        touched_elems = set()
        netfail, net_written = None, set()
        fault = at.get("fault")
        for k, op in enumerate(at["ops"]):
            try:
                if op[0] == "cut":               # the peer resets the connections of this mailbox now
                    if self.net[op[1]]["conn"] == "live":
                        self.net[op[1]]["conn"] = "dead"
                    continue
                if op[0] in ("r", "w", "wl"):
                    touched.add(op[1])          # the handle is marked dirty before anything else happens
                if fault and fault["op"] == k:
                    # the Index calls before the refused one are executed and may already panic
                    if fault["call"] >= 1 and op[0] in ("r", "w", "wl") and op[2]:
                        kd, o_ = self.kinds[op[1]], st[op[1]]
                        if kd == "hashmap_local" and json.dumps(op[2][0]) not in o_["m"]:
                            raise Crash()
                        if kd == "plog" and not (isinstance(op[2][0], int) and not isinstance(op[2][0], bool) and 1 <= op[2][0] <= len(o_["log"])):
                            raise Crash()
                        if kd == "filesystem" and not isinstance(op[2][0], str):
                            raise Crash()
                    raise Block()
                if op[0] == "await":
                    if not op[1]:
                        raise Block()
                elif op[0] == "assert":
                    if not op[1]:
                        raise Crash()
                elif op[0] == "goto":
                    pc = op[1]; tr.append(None); wrote_before = True
                else:
                    name, path = op[1], op[2]
                    kind = self.kinds[name]
                    if path:
                        touched_elems.add((name, json.dumps(path[0])))
                    if op[0] == "r":
                        v = obj_step(kind, st[name], "r", path, None)
                        last = v; tr.append(v)
                    else:
                        v = last if op[0] == "wl" else op[3]
                        if kind == "tcp" and len(path) == 1:
                            n = self.net[name]
                            if n["conn"] == "dead" or (n["conn"] == "none" and n["down"]):
                                n["conn"] = "none"; netfail = name
                                raise Block()
                            n["conn"] = "live"; net_written.add(name)
                        obj_step(kind, st[name], "w", path, v)
                        tr.append(None); wrote_before = True
                        if kind in ("singleout", "relaxed"):
                            sent_nontx.append(kind)
            except Block:
                outcome = 1; break
            except Crash:
                outcome = 2; break
        if outcome is None:
            for name in sorted(net_written):
                if self.net[name]["conn"] == "dead":      # reset after the last write: the pre-commit handshake fails
                    self.net[name]["conn"] = "none"; netfail = name; outcome = 1
        if outcome is None:
            # only resources touched by the section take part in the commit protocol
            refused_elems = set((e[0], json.dumps(e[1])) for e in (at.get("epcfail") or []))
            outcome = 1 if (set(at.get("pcfail") or []) & touched) or (refused_elems & touched_elems) else 0
        # the two kinds that are non-transactional by design: SingleOutputChan.Abort always panics,
        # relaxedMailboxesRemote.Abort panics after a send; what was sent stays sent
        panics = [self.kinds[n] for n in sorted(touched) if self.kinds[n] == "singleout"] + [k for k in sent_nontx if k == "relaxed"]
        info = {"wrote_before_failure": wrote_before and outcome == 1, "sent_nontx": panics if outcome == 1 else [], "net": netfail}
        if outcome == 0:
            self.state, self.pc = st, pc
        if outcome == 1 and panics:
            for name in self.state:
                if self.kinds[name] in ("singleout", "relaxed"):
                    self.state[name]["sent"] = st[name]["sent"]
            outcome = 3
        return outcome, canon(T(*tr))["t"], self.snap(), info


# ------------------------------------------------------------------------------------------ generation

VALS = [0, 1, 2, 7, -3, "a", "b", "msg", True, None]
KEYS = [1, 2, "k", 3]
# indices with the same 32-bit tla.Value.Hash() that are not Equal: the dirty-element sets of IncMap / HashMap /
# FileSystem / Mailboxes are hash maps keyed by the index, so colliding indices share a bucket
CLUSTERS = [[True, 1], [0, False, {"r": []}], [{"t": []}, ""]]
CFILES = ["glbvs.txt", "yacxa.txt"]


def map_keys(d):
    """the indices used with map resource d"""
    if d["kind"] == "hashmap_local":
        return [kv[0] for kv in d["table"]]
    if d["kind"] == "filesystem":
        return ["f1", "f2", "f3"] + d.get("cfiles", [])
    seen = [json.dumps(k) for k in KEYS]
    return KEYS + [k for k in d.get("ckeys", []) if json.dumps(k) not in seen]


def gen_val(rng, depth=0):
    r = rng.random()
    if depth < 2 and r < 0.15:
        return T(*[gen_val(rng, depth + 1) for _ in range(rng.randint(1, 3))])
    if depth < 2 and r < 0.3:
        return R(a=gen_val(rng, depth + 1), b=gen_val(rng, depth + 1))
    return rng.choice(VALS)


def gen_struct(rng):
    r = rng.random()
    if r < 0.4:
        return R(a=rng.choice([0, 1, "x"]), b=T(rng.choice([1, 2]), rng.choice(["p", "q"])))
    if r < 0.6:
        return T(rng.choice([1, 5]), R(a=1, b=2))
    return rng.choice([0, 3, "s", None])


def paths_of(v):
    """valid index paths into a value"""
    out = [[]]
    if isinstance(v, dict) and "t" in v:
        for i, x in enumerate(v["t"]):
            out += [[i + 1] + p for p in paths_of(x)]
    elif isinstance(v, dict) and "r" in v:
        for k, x in v["r"]:
            out += [[k] + p for p in paths_of(x)]
    return out


KIND_WEIGHTS = [("local", 5), ("inchan", 3), ("outchan", 3), ("filesystem", 2), ("incmap_local", 3), ("hashmap_local", 1),
                ("persist", 2), ("incmap_persist", 1), ("plog", 2), ("shared", 2), ("dummy", 1), ("custominchan", 1),
                ("singleout", 0.6), ("tcp", 0.5), ("relaxed", 0.4), ("tcp_local", 0.5), ("relaxed_local", 0.3),
                ("crdt", 1.0), ("twopc", 0.8), ("fd", 0.3), ("placeholder", 0.1), ("nested", 0.8)]


def gen_res(rng, name, kind):
    d = {"name": name, "kind": kind}
    if kind in ("local", "persist", "shared", "incmap_local", "incmap_persist", "twopc", "nested"):
        d["init"] = gen_struct(rng)
    elif kind == "dummy":
        d["init"] = rng.choice(VALS)
    elif kind in ("inchan", "custominchan"):
        d["items"] = [rng.choice([10, 11, 12, "m1", "m2"]) for _ in range(rng.randint(0, 4))]
    elif kind == "filesystem":
        d["files"] = [["f1", "old1"]] + ([["f2", "old2"]] if rng.random() < 0.5 else [])
        if rng.random() < 0.6:
            d["cfiles"] = list(CFILES)
            d["files"] += [[f, "orig-" + f] for f in CFILES if rng.random() < 0.6]
    elif kind == "hashmap_local":
        keys = KEYS[:rng.randint(1, 4)]
        if rng.random() < 0.5:
            cl = rng.choice(CLUSTERS)
            keys = [k for k in keys[:2] if json.dumps(k) not in [json.dumps(x) for x in cl]] + cl
        d["table"] = [[k, gen_struct(rng)] for k in keys]
    if kind in ("incmap_local", "incmap_persist") and rng.random() < 0.6:
        d["ckeys"] = list(rng.choice(CLUSTERS))
    return d


def gen_op(rng, ref, d, malformed):
    """one operation on resource d that is valid in the current reference state (unless malformed)"""
    name, kind = d["name"], d["kind"]
    st = ref.state[name]
    if kind in ("local", "persist", "shared"):
        ps = paths_of(st["v"])
        p = rng.choice(ps)
        if malformed and rng.random() < 0.5:
            p = p + ["nokey"]
        r = rng.random()
        if r < 0.4:
            return ["r", name, p]
        if r < 0.85:
            return ["w", name, p, gen_val(rng)]
        return ["wl", name, p]
    if kind == "dummy":
        return rng.choice([["r", name, []], ["w", name, [], 1], ["r", name, [1]]])
    if kind in ("inchan", "custominchan"):
        return ["r", name, []] if not malformed else ["w", name, [], 1]
    if kind in ("outchan", "singleout"):
        return ["w", name, [], rng.choice([5, 6, "o1", "o2"])] if not malformed else ["r", name, []]
    if kind == "filesystem":
        f = rng.choice(map_keys(d))
        if rng.random() < 0.45 and (f in st["files"] or malformed):
            return ["r", name, [f]]
        return ["w", name, [f], rng.choice(["n1", "n2", "n3"])] if not malformed else ["w", name, [f], 5]
    if kind in ("incmap_local", "hashmap_local", "incmap_persist"):
        if kind == "hashmap_local":
            keys = [kv[0] for kv in d["table"]] + (["zz"] if malformed else [])
        else:
            keys = map_keys(d)
        k = rng.choice(keys)
        c = st["m"].get(json.dumps(k))
        cur = st["default"] if c is None else c["v"]
        p = rng.choice(paths_of(cur))
        r = rng.random()
        if r < 0.4:
            return ["r", name, [k] + p]
        if r < 0.85:
            return ["w", name, [k] + p, gen_val(rng)]
        return ["wl", name, [k] + p]
    if kind == "plog":
        r = rng.random()
        n = len(st["log"])
        if r < 0.4:
            return ["w", name, [], R(cmd="log_concat", entries=T(*[rng.choice(["e1", "e2", 3]) for _ in range(rng.randint(1, 3))]))]
        if r < 0.6:
            return ["w", name, [], R(cmd="log_pop", cnt=rng.randint(0, n) if not malformed else n + 1)]
        if r < 0.8 or n == 0:
            return ["r", name, []]
        return ["r", name, [rng.randint(1, n)]]
    if kind in ("tcp", "relaxed"):
        return ["w", name, [0], rng.choice([21, 22, "net"])]
    if kind == "crdt":
        return ["r", name, []] if rng.random() < 0.4 else ["w", name, [], rng.randint(1, 3)]
    if kind in ("twopc", "nested"):
        r = rng.random()
        return ["r", name, []] if r < 0.4 else ["w", name, [], gen_val(rng)] if r < 0.85 else ["wl", name, []]
    if kind == "fd":
        return ["r", name, [0]]
    if kind == "placeholder":
        return ["r", name, []]
    if kind in ("tcp_local", "relaxed_local"):
        if st["q"] or rng.random() < 0.15:
            return ["r", name, [0]]
        return ["await", True]
    raise ValueError(kind)


def gen_case(rng, malformed=False):
    nres = rng.randint(1, 5)
    kinds, weights = zip(*KIND_WEIGHTS)
    res = []
    for i in range(nres):
        kind = rng.choices(kinds, weights)[0]
        if kind in ("tcp", "relaxed", "tcp_local", "relaxed_local") and any(d["kind"] in ("tcp", "relaxed", "tcp_local", "relaxed_local") for d in res):
            kind = "local"
        res.append(gen_res(rng, "r%d" % i, kind))
    if any(d["kind"] == "nested" for d in res):
        # a panic inside abort() (the three kinds whose Abort panics) races with the nested resource's asynchronous
        # Abort goroutine, which then panics on its own goroutine when the dying context stops the nested archetype:
        # the process dies either way, but the harness cannot recover that one, so the kinds are not mixed
        res = [gen_res(rng, d["name"], "local") if d["kind"] in ("singleout", "relaxed", "placeholder") else d for d in res]
    snap = [[".pc", []]]
    for d in res:
        if d["kind"] in ("incmap_local", "incmap_persist"):
            snap.append([d["name"], map_keys(d)])
        elif d["kind"] == "hashmap_local":
            snap.append([d["name"], [kv[0] for kv in d["table"]]])
        elif d["kind"] == "filesystem":
            snap.append([d["name"], map_keys(d)])
        elif d["kind"] in ("tcp", "relaxed", "tcp_local", "relaxed_local", "fd"):
            snap.append([d["name"], [0]])
        else:
            snap.append([d["name"], []])
    case = {"res": res, "snap": snap, "attempts": []}
    ref = Ref(case)
    natt = rng.randint(1, 6)
    retry = None
    # input pattern: two failing attempts that consume different numbers of inputs (so that unread re-offered
    # inputs and freshly consumed ones are both pending at the second abort), then the inputs are read in order
    inputs = [d for d in res if d["kind"] in ("inchan", "custominchan", "tcp_local", "relaxed_local")]
    if inputs and not malformed and rng.random() < 0.6:
        d = rng.choice(inputs)
        path = [0] if d["kind"] in ("tcp_local", "relaxed_local") else []
        n1 = rng.randint(2, 4)
        n2 = rng.randint(1, n1 - 1)
        vals = [rng.choice([41, 42, 43, "p", "q"]) for _ in range(n1 + rng.randint(0, 1))]
        if d["kind"] in ("tcp_local", "relaxed_local"):
            env0 = [["pushb", d["name"], vals[:2]], ["pushb", d["name"], vals[2:]]] if len(vals) > 2 else [["pushb", d["name"], vals]]
        else:
            env0 = [["push", d["name"], v] for v in vals]
        have = len(ref.state[d["name"]]["q"])
        fail = lambda: rng.choice([("await", None), ("pcfail", None)])
        for k, (n, last) in enumerate([(n1, False), (n2, False), (min(have + len(vals), n1 + 1), True)]):
            at = {"env": env0 if k == 0 else [], "ops": [["r", d["name"], path] for _ in range(n)], "fault": None, "pcfail": []}
            if not last:
                if rng.random() < 0.5:
                    at["ops"].append(["await", False])
                else:
                    at["pcfail"] = [d["name"]]
            for ev in at["env"]:
                ref.env(ev)
            ref.attempt(dict(at, env=[]))
            case["attempts"].append(at)
        natt += 3
    # map pattern: one section touches 2-4 elements of the same map and the PreCommit of some of them (chosen by
    # key: first, middle, last in whatever order the map visits them) refuses; nothing of it may commit
    maps = [d for d in res if d["kind"] in ("incmap_local", "hashmap_local", "incmap_persist", "filesystem")]
    if maps and not malformed and rng.random() < 0.75:
        d = rng.choice(maps)
        isfs = d["kind"] == "filesystem"
        keys = list(map_keys(d))
        rng.shuffle(keys)
        keys = keys[:rng.randint(min(2, len(keys)), min(4, len(keys)))]
        # a share of these sections touches indices that collide in the hash of the dirty-element set
        cj = set(json.dumps(x) for c in CLUSTERS for x in c)
        coll = d.get("cfiles") or d.get("ckeys") or [kv[0] for kv in d.get("table", []) if json.dumps(kv[0]) in cj]
        if len(coll) >= 2 and rng.random() < 0.7:
            keys = [k for k in keys if json.dumps(k) not in [json.dumps(c) for c in coll]][:1] + coll
            rng.shuffle(keys)
        ops = []
        for k in keys:
            if isfs:
                ops.append(["w", d["name"], [k], rng.choice(["n1", "n2", "n3", "n4"])])
            else:
                ops.append(["w", d["name"], [k], gen_val(rng)] if rng.random() < 0.8 else ["r", d["name"], [k]])
        others = [x for x in res if x["kind"] in ("local", "outchan", "persist")]
        if others and rng.random() < 0.5:
            o = rng.choice(others)
            ops.insert(rng.randint(0, len(ops)), ["w", o["name"], [], rng.choice([1, "v"])])
        refuse = [k for k in keys if rng.random() < 0.4] or [rng.choice(keys)]
        if isfs:                                   # the elements of a FileSystem cannot be wrapped: fail the whole map
            at = {"env": [], "ops": ops + ([["await", False]] if rng.random() < 0.5 else []), "fault": None, "pcfail": [d["name"]]}
        else:
            at = {"env": [], "ops": ops, "fault": None, "pcfail": [], "epcfail": [[d["name"], k] for k in refuse]}
        ref.attempt(at)
        case["attempts"].append(at)
        # what the failed attempt touched is read back (a leftover shows), then the section runs again and commits,
        # then everything is read back again (a missing commit shows)
        rd = lambda: [["r", d["name"], [k]] for k in keys if (not isfs or k in ref.state[d["name"]]["files"])
                      and (d["kind"] != "hashmap_local" or True)]
        for ops2 in (rd(), [list(o) for o in ops if o[0] != "await"], None):
            if ops2 is None:
                ops2 = rd()
            if not ops2:
                continue
            at2 = {"env": [], "ops": ops2, "fault": None, "pcfail": []}
            ref.attempt(at2)
            case["attempts"].append(at2)
            natt += 1
        natt += 1
    # network pattern: the peer of a TCP mailbox resets the connection before, between and after the writes of a
    # section, or is unreachable for a while; nothing of a failed attempt may be delivered
    nets = [d for d in res if d["kind"] == "tcp"]
    if nets and not malformed and not any(d["kind"] in ("singleout", "relaxed") for d in res) and rng.random() < 0.8:
        d = nets[0]
        others = [x for x in res if x["kind"] in ("local", "outchan", "persist", "twopc", "nested")]
        def sec(kind_):
            w = lambda: ["w", d["name"], [0], rng.choice([21, 22, 23, "net"])]
            ops = [w() for _ in range(rng.randint(1, 3))]
            if others:
                o = rng.choice(others)
                ops.insert(rng.randint(0, len(ops)), ["w", o["name"], [], rng.choice([1, 2, "v"])])
            env = []
            if kind_ == "cut-before":
                ops.insert(0, ["cut", d["name"]])
            elif kind_ == "cut-between":
                ops.insert(rng.randint(1, len(ops)), ["cut", d["name"]])
            elif kind_ == "cut-after":
                ops.append(["cut", d["name"]])
            elif kind_ == "down":
                env = [["net", d["name"], False]]
            elif kind_ == "up":
                env = [["net", d["name"], True]]
            return {"env": env, "ops": ops, "fault": None, "pcfail": []}
        plan = ["ok"] + rng.sample(["cut-before", "cut-between", "cut-after", "ok", "down"], rng.randint(2, 5))
        if "down" in plan:
            plan.insert(plan.index("down") + 1, "up")
        for kind_ in plan:
            at = sec(kind_)
            for ev in at["env"]:
                ref.env(ev)
            ref.attempt(dict(at, env=[]))
            case["attempts"].append(at)
        natt += len(plan)
    while len(case["attempts"]) < natt:
        at = {"env": [], "ops": [], "fault": None, "pcfail": []}
        # environment
        for d in res:
            if d["kind"] in ("inchan", "custominchan") and rng.random() < 0.35:
                at["env"].append(["push", d["name"], rng.choice([13, 14, "m3"])])
            if d["kind"] in ("tcp_local", "relaxed_local") and rng.random() < 0.6:
                at["env"].append(["pushb", d["name"], [rng.choice([31, 32, "nm"]) for _ in range(rng.randint(1, 3))]])
            if d["kind"] in ("shared", "singleout") and rng.random() < 0.25:
                cur = ref.state[d["name"]].get("other", ref.state[d["name"]].get("full"))
                at["env"].append(["other", d["name"], not cur])
        for ev in at["env"]:
            ref.env(ev)
        if retry is not None:
            at["ops"] = retry; retry = None
        else:
            # generate ops against a scratch copy so that later ops see earlier writes
            scratch = Ref(case); scratch.state = copy.deepcopy(ref.state); scratch.pc = ref.pc
            last = None
            for _ in range(rng.randint(1, 8)):
                r = rng.random()
                if r < 0.05:
                    at["ops"].append(["await", True])
                elif r < 0.08:
                    at["ops"].append(["assert", True])
                elif r < 0.13:
                    at["ops"].append(["goto", rng.choice(["A.l", "A.m"])])
                else:
                    d = rng.choice(res)
                    op = gen_op(rng, scratch, d, malformed and rng.random() < 0.3)
                    at["ops"].append(op)
                    if op[0] == "await":
                        continue
                    try:
                        if op[0] == "r":
                            last = obj_step(d["kind"], scratch.state[d["name"]], "r", op[2], None)
                        else:
                            obj_step(d["kind"], scratch.state[d["name"]], "w", op[2], last if op[0] == "wl" else op[3])
                    except (Block, Crash):
                        break
            # failure injection
            r = rng.random()
            acts = [k for k, op in enumerate(at["ops"]) if op[0] in ("r", "w", "wl")]
            acts = [k for k in acts if ref.kinds[at["ops"][k][1]] != "placeholder"]
            if r < 0.3 and acts:
                k = rng.choice(acts)
                plen = len(at["ops"][k][2])
                kind = ref.kinds[at["ops"][k][1]]
                j = rng.randint(0, plen)
                if kind == "plog":
                    j = 0 if plen == 0 else rng.choice([0, 1])
                at["fault"] = {"op": k, "call": j}
            elif r < 0.42:
                at["ops"].insert(rng.randint(0, len(at["ops"])), ["await", False])
            elif r < 0.55:
                at["pcfail"] = sorted(set(rng.choice(res)["name"] for _ in range(rng.randint(1, 2))))
            elif r < 0.62:
                elems = [[op[1], op[2][0]] for op in at["ops"] if op[0] in ("r", "w", "wl") and op[2]
                         and ref.kinds[op[1]] in ("incmap_local", "hashmap_local", "incmap_persist")]
                if elems:
                    at["epcfail"] = [rng.choice(elems)]
            elif r < 0.62 and malformed:
                at["ops"].insert(rng.randint(0, len(at["ops"])), ["assert", False])
        # run on the reference to know what happens, and whether to schedule a retry
        env_saved = at["env"]; at_noenv = dict(at, env=[])
        out, _, _, _ = ref.attempt(at_noenv)
        at["env"] = env_saved
        case["attempts"].append(at)
        if out in (2, 3):
            break
        if out == 1:
            r = rng.random()
            if r < 0.45:
                retry = [list(op) for op in at["ops"] if op != ["await", False]]
            elif r < 0.85:
                # observe instead of retrying: touch everything the failed attempt wrote, so that anything it
                # left behind (a stale buffer, a pending write, queued DB operations) shows up
                obs_ops, seen = [], set()
                for op in at["ops"]:
                    if op[0] not in ("w", "wl"):
                        continue
                    name, kind = op[1], ref.kinds[op[1]]
                    key = (name, json.dumps(op[2][:1]))
                    if key in seen:
                        continue
                    seen.add(key)
                    if kind in ("local", "persist", "dummy"):
                        obs_ops.append(["r", name, []])
                    elif kind == "shared":
                        if not ref.state[name]["other"]:
                            obs_ops.append(["r", name, []])
                    elif kind in ("incmap_local", "incmap_persist", "hashmap_local"):
                        if op[2] and (kind != "hashmap_local" or json.dumps(op[2][0]) in ref.state[name]["m"]):
                            obs_ops.append(["r", name, op[2][:1]])
                    elif kind == "filesystem":
                        if op[2] and isinstance(op[2][0], str):
                            if op[2][0] in ref.state[name]["files"]:
                                obs_ops.append(["r", name, op[2][:1]])
                            obs_ops.append(["w", name, [rng.choice(["f1", "f2", "f3"])], "obs"])
                            for f2 in CFILES:          # the other member of a colliding pair
                                if f2 != op[2][0] and op[2][0] in CFILES and f2 in ref.state[name]["files"]:
                                    obs_ops.append(["r", name, [f2]])
                    elif kind == "plog":
                        obs_ops.append(["w", name, [], R(cmd="log_concat", entries=T("obs"))])
                        obs_ops.append(["r", name, []])
                    elif kind in ("outchan",):
                        obs_ops.append(["w", name, [], "obs"])
                    elif kind == "tcp":
                        obs_ops.append(["w", name, [0], "obs"])
                if obs_ops:
                    retry = obs_ops
            if retry is not None:
                natt = max(natt, len(case["attempts"]) + 1)
    else:
        # final observing section: every variable is read, every pending input is consumed
        ops = []
        for d in res:
            k = d["kind"]
            o = ref.state[d["name"]]
            if k in ("local", "persist", "dummy", "crdt", "twopc", "nested"):
                ops.append(["r", d["name"], []])
            elif k == "shared" and not o["other"]:
                ops.append(["r", d["name"], []])
            elif k == "inchan":
                ops += [["r", d["name"], []] for _ in o["q"]]
            elif k in ("tcp_local", "relaxed_local"):
                ops += [["r", d["name"], [0]] for _ in o["q"]]
            elif k == "plog":
                ops.append(["r", d["name"], []])
            elif k in ("incmap_local", "incmap_persist"):
                ops += [["r", d["name"], [kk]] for kk in map_keys(d)]
            elif k == "filesystem":
                ops += [["r", d["name"], [f]] for f in sorted(o["files"])]
        if ops:
            case["attempts"].append({"env": [], "ops": ops, "fault": None, "pcfail": []})
    return case


# ------------------------------------------------------------------------------------------ Coq encoding

def coq_node(d):
    k = d["kind"]
    v = coq_val(canon(d.get("init")))
    if k == "local":
        return "NLeaf (LLocal %s %s)" % (v, v)
    if k == "dummy":
        return "NLeaf (LDummy %s)" % v
    if k == "inchan":
        return "NLeaf (LIn [] [] %s)" % vlib.coq_list([coq_val(canon(x)) for x in d.get("items", [])])
    if k == "custominchan":
        return "NLeaf (LCIn [] [] %s)" % vlib.coq_list([coq_val(canon(x)) for x in d.get("items", [])])
    if k == "outchan":
        return "NLeaf (LOut [] [])"
    if k == "singleout":
        return "NLeaf (LSOut [] [] false)"
    if k == "filesystem":
        return "mk_filesystem %s" % vlib.coq_list(["(%s, %s)" % (coq_val(kv[0]), coq_val(kv[1])) for kv in d.get("files", [])])
    if k == "incmap_local":
        return "mk_incmap (fun _ => LLocal %s %s)" % (v, v)
    if k == "hashmap_local":
        return "mk_hashmap %s" % vlib.coq_list(["(%s, LLocal %s %s)" % (coq_val(canon(kv[0])), coq_val(canon(kv[1])), coq_val(canon(kv[1]))) for kv in d["table"]])
    if k == "persist":
        return "NLeaf (LPersist false %s %s None)" % (v, v)
    if k == "incmap_persist":
        return "mk_incmap (fun _ => LPersist false %s %s None)" % (v, v)
    if k == "plog":
        return "NLeaf (LPLog [] [] false [] [])"
    if k == "shared":
        return "NLeaf (LShared %s %s false false)" % (v, v)
    if k == "relaxed":
        return "mk_incmap (fun _ => LRelaxed false [] [] false)"
    if k == "tcp":
        return "mk_incmap (fun _ => LTcp false [] [])"
    if k in ("tcp_local", "relaxed_local"):
        return "mk_incmap (fun _ => LIn [] [] [])"
    if k == "crdt":
        return "NLeaf (LCrdt 0%Z 0%Z false)"
    if k == "twopc":
        return "NLeaf (LTwoPC %s %s TNot)" % (v, v)
    if k == "nested":
        return "NNested (LLocal %s %s)" % (v, v)
    if k == "placeholder":
        return "NLeaf LPlace"
    if k == "fd":
        return "mk_incmap (fun _ => LFD (Some true))"
    raise ValueError(k)


def coq_attempt(at, got=None, net=None):
    env = []
    for ev in at.get("env", []):
        if ev[0] == "net":
            continue
        if ev[0] == "push":
            env.append("EPush %s %s" % (vlib.coq_str(ev[1]), coq_val(canon(ev[2]))))
        elif ev[0] == "pushb":
            env += ["EPushAt %s (VI 0%%Z) %s" % (vlib.coq_str(ev[1]), coq_val(canon(v))) for v in ev[2]]
        else:
            env.append("EOther %s %s" % (vlib.coq_str(ev[1]), vlib.coq_bool(ev[2])))
    ops = []
    for op in at["ops"]:
        if op[0] == "r":
            ops.append("SRead %s %s" % (vlib.coq_str(op[1]), vlib.coq_list([coq_val(canon(x)) for x in op[2]])))
        elif op[0] == "w":
            ops.append("SWrite %s %s %s" % (vlib.coq_str(op[1]), vlib.coq_list([coq_val(canon(x)) for x in op[2]]), coq_val(canon(op[3]))))
        elif op[0] == "wl":
            ops.append("SWriteLast %s %s" % (vlib.coq_str(op[1]), vlib.coq_list([coq_val(canon(x)) for x in op[2]])))
        elif op[0] == "goto":
            ops.append("SWrite %s [] (VS %s)" % (vlib.coq_str(".pc"), vlib.coq_str(op[1])))
        elif op[0] == "await":
            ops.append("SAwait %s" % vlib.coq_bool(op[1]))
        elif op[0] == "assert":
            ops.append("SAssert %s" % vlib.coq_bool(op[1]))
    fl = []
    f = at.get("fault")
    pcf = list(at.get("pcfail", []))
    if f:
        nacts = sum(1 for op in at["ops"][:f["op"]] if is_act(op))
        fl = ["None"] * nacts + ["Some %s" % vlib.coq_nat(f["call"])]
    elif net and got is not None and got.get("out") == 1:
        # a network failure of a TCP mailbox: where it surfaced (a WriteValue, or the pre-commit handshake) is
        # observed on the implementation and handed to the model
        acts = [op for op in at["ops"] if is_act(op)]
        k = len(got.get("tr") or [])
        if k < len(acts):
            fl = ["None"] * k + ["Some 1%nat"]
        else:
            pcf.append(net)
    return "mkAttempt %s %s %s %s %s" % (vlib.coq_list(env), vlib.coq_list(ops), vlib.coq_list(fl),
                                         vlib.coq_list([vlib.coq_str(n) for n in pcf]),
                                         vlib.coq_list(["(%s, %s)" % (vlib.coq_str(e[0]), coq_val(canon(e[1]))) for e in at.get("epcfail") or []]))


def to_coq(case, results):
    rs = ["(%s, NLeaf (LLocal (VS %s) (VS %s)))" % (vlib.coq_str(".pc"), vlib.coq_str(PC0), vlib.coq_str(PC0))]
    rs += ["(%s, %s)" % (vlib.coq_str(d["name"]), coq_node(d)) for d in case["res"]]
    q = ["(%s, %s)" % (vlib.coq_str(n), vlib.coq_list([coq_val(canon(k)) for k in keys])) for n, keys in case["snap"]]
    obs = []
    for a in results:
        snap = list(a.get("snap") or [])
        if a["out"] == 3:
            # a panic inside abort(): which resources were already rolled back depends on Go's map order
            snap = [x if (n != ".pc" and case_kind(case, n) in ("singleout", "relaxed")) else None for (n, _), x in zip(case["snap"], snap)]
        vals = [coq_val(canon(T(*(a.get("tr") or []))))] + [coq_val(canon(x)) for x in snap]
        obs.append("(%s, %s)" % (vlib.coq_Z(a["out"]), vlib.coq_list(vals)))
    return "(%s,\n  %s,\n  %s,\n  %s)" % (vlib.coq_list(rs), vlib.coq_list([coq_attempt(a, results[i] if i < len(results) else None, (case.get("_net") or {}).get(i))
                                                        for i, a in enumerate(case["attempts"])]).replace("; mkAttempt", ";\n   mkAttempt"),
                                        vlib.coq_list(q), vlib.coq_list(obs))


# ------------------------------------------------------------------------------------------ oracle

def kinds_sig(case, at):
    ks = sorted(set(case_kind(case, op[1]) for op in at["ops"] if op[0] in ("r", "w", "wl")))
    return "+".join(ks) if ks else "none"


def case_kind(case, name):
    for d in case["res"]:
        if d["name"] == name:
            return d["kind"]
    return "?"


def oracle(case, results):
    """the property, checked on what the real code did. returns (failures, stats)"""
    fails = []
    ref = Ref(case)
    prev_snap = ref.snap()
    stats = {"commit": 0, "abort": 0, "crash": 0, "abort_panic": 0, "failing_with_write": 0}
    for i, at in enumerate(case["attempts"]):
        if i >= len(results):
            fails.append(("missing-attempt", "attempt %d was never executed (archetype ended early)" % i)); break
        got = results[i]
        exp_out, exp_tr, exp_snap, info = ref.attempt(at)
        ks = kinds_sig(case, at)
        gsnap = canon(T(*(got.get("snap") or [])))["t"]
        gtr = canon(T(*(got.get("tr") or [])))["t"]
        how = "fault" if at.get("fault") else "pcfail" if at.get("pcfail") else "elem-pcfail" if at.get("epcfail") else "await" if ["await", False] in at["ops"] \
            else "net" if info.get("net") else "inherent"
        if exp_out == 3:
            stats["abort_panic"] += 1
            kind = sorted(set(info["sent_nontx"]))[0]
            # known design limitation: the archetype dies in Abort; a message already written stays delivered
            if got["out"] == 3 or gsnap != prev_snap:
                fails.append(("abort-panics-" + kind,
                              "attempt %d touched %s and then failed (%s): Abort panics; what WriteValue sent stays delivered" % (i, kind, how)))
            else:
                fails.append(("outcome-%d-instead-of-3:%s:%s" % (got["out"], how, ks), "attempt %d: expected a panic in Abort of %s" % (i, kind)))
            break
        if got["out"] != exp_out:
            fails.append(("outcome-%d-instead-of-%d:%s:%s" % (got["out"], exp_out, how, ks),
                          "attempt %d: expected outcome %d, implementation did %d (%s)" % (i, exp_out, got["out"], got.get("err", ""))))
            break
        if exp_out == 1:
            stats["abort"] += 1
            if info["wrote_before_failure"]:
                stats["failing_with_write"] += 1
            if gsnap != prev_snap:
                bad = [case["snap"][j][0] for j in range(len(prev_snap)) if j < len(gsnap) and gsnap[j] != prev_snap[j]]
                fails.append(("abort-leaves-trace:%s:%s" % (how, "+".join(sorted(set(case_kind(case, b) if b != ".pc" else "pc" for b in bad)))),
                              "attempt %d aborted (%s) but %s changed: before %s after %s" % (i, how, bad, json.dumps(prev_snap), json.dumps(gsnap))))
                break
        elif exp_out == 0:
            stats["commit"] += 1
            if gtr != exp_tr:
                fails.append(("commit-read-values:%s" % ks, "attempt %d committed with operation results %s, atomic execution gives %s" % (i, json.dumps(gtr), json.dumps(exp_tr))))
                break
            if gsnap != exp_snap:
                bad = [case["snap"][j][0] for j in range(len(exp_snap)) if j < len(gsnap) and gsnap[j] != exp_snap[j]]
                fails.append(("commit-effects:%s" % "+".join(sorted(set(case_kind(case, b) if b != ".pc" else "pc" for b in bad))),
                              "attempt %d committed but %s differ: expected %s got %s" % (i, bad, json.dumps(exp_snap), json.dumps(gsnap))))
                break
        else:
            stats["crash"] += 1
            break
        prev_snap = gsnap
    return fails, stats


def nontrivial(case, ref_outs):
    kinds = set(d["kind"] for d in case["res"])
    return len(kinds) >= 2 and any(o[0] in (1, 3) and o[1] for o in ref_outs)


def corpus():
    out = []
    d = os.path.join(vlib.VERIF, "corpus", "C01")
    if os.path.isdir(d):
        for f in sorted(os.listdir(d)):
            if f.endswith(".json"):
                c = json.load(open(os.path.join(d, f)))
                out.append(c.get("case", c))
    return out


def run(ctx):
    rng = ctx.rng
    n = 220 if ctx.tier == "quick" else 4000
    if ctx.replay:
        rp = json.load(open(ctx.replay))
        cases = [rp["case"]]
    else:
        cases = corpus()
        for i in range(n):
            cases.append(gen_case(rng, malformed=(rng.random() < 0.08)))
    for i, c in enumerate(cases):
        c["id"] = i
    rc, res, err = vlib.run_jsonl("c01", [{k: v for k, v in c.items() if not k.startswith("_")} for c in cases], timeout=1500)
    byid = {r["id"]: r for r in res}
    if len(byid) != len(cases):
        ctx.breaks.append({"what": "harness c01 failed (rc=%d, %d/%d results)" % (rc, len(byid), len(cases)), "detail": err[-2000:]})
        return
    kinds, outcomes, faultpos = {}, {"commit": 0, "abort": 0, "crash": 0, "abort_panic": 0, "failing_with_write": 0}, {}
    for c in cases:
        r = byid[c["id"]]
        c["_res"] = r.get("attempts") or []
        for d in c["res"]:
            kinds[d["kind"]] = kinds.get(d["kind"], 0) + 1
        for at in c["attempts"]:
            how = "fault-call%d" % at["fault"]["call"] if at.get("fault") else "pcfail" if at.get("pcfail") else "elem-pcfail-%dof%d" % (
                len(at["epcfail"]), len(set(json.dumps(op[2][0]) for op in at["ops"] if op[0] in ("r", "w", "wl") and op[2] and op[1] == at["epcfail"][0][0]))) if at.get("epcfail") \
                else "await-false" if ["await", False] in at["ops"] else "net-cut" if any(op[0] == "cut" for op in at["ops"]) \
                else "net-down" if any(ev[0] == "net" and not ev[2] for ev in at.get("env", [])) else "none"
            faultpos[how] = faultpos.get(how, 0) + 1
        if r.get("err"):
            ctx.failures.append({"signature": "harness-error:" + r["err"][:40], "what": "harness reported " + r["err"],
                                 "case": {k: v for k, v in c.items() if not k.startswith("_")}, "obs": r})
            ctx.add_case(json.dumps(c["attempts"]), False)
            continue
        fails, stats = oracle(c, c["_res"])
        for k in stats:
            outcomes[k] += stats[k]
        ref = Ref(c); routs = []
        c["_net"] = {}
        for ai, at in enumerate(c["attempts"]):
            o, _, _, info = ref.attempt(at)
            if info.get("net"):
                c["_net"][ai] = info["net"]
            routs.append((o, info["wrote_before_failure"] or bool(info["sent_nontx"])))
            if o in (2, 3):
                break
        ctx.add_case(json.dumps({k: v for k, v in c.items() if not k.startswith("_") and k != "id"}, sort_keys=True), nontrivial(c, routs))
        for sig, what in fails:
            ctx.failures.append({"signature": sig, "what": what, "case": {k: v for k, v in c.items() if not k.startswith("_")}, "obs": c["_res"]})
    ctx.extra["input_distribution"] = {"resource_kinds": kinds, "attempt_outcomes": outcomes, "failure_positions": faultpos,
                                       "attempts_total": sum(len(c["attempts"]) for c in cases)}
    ctx.samples = [{"res": c["res"], "attempts": c["attempts"][:2], "go": c["_res"][:2]} for c in cases[:4]]
    # tie B: the model evaluated inside Coq on the same cases, against what the implementation did
    if ctx.coq_ok:
        from concurrent.futures import ThreadPoolExecutor
        ok_cases = [c for c in cases if not byid[c["id"]].get("err") and not any(d["kind"] in NOMODEL for d in c["res"])]
        ctx.extra["oracle_only_cases"] = sum(1 for c in cases if any(d["kind"] in NOMODEL for d in c["res"]))
        shard = 100 if ctx.tier == "quick" else 400
        parts = [ok_cases[s:s + shard] for s in range(0, len(ok_cases), shard)]

        def eval_part(ip):
            i, part = ip
            body = ("From PGV Require Import C01.Model.\nOpen Scope string_scope.\n"
                    "Definition cases : list (list (string * node) * list attempt * list (string * list val) * list (Z * list val)) :=\n [" +
                    ";\n ".join(to_coq(c, c["_res"]) for c in part) + "].\n"
                    "Definition M := Eval vm_compute in mismatches_from 0 cases.\nPrint M.\n")
            return vlib.coq_eval("C01_cases_%d_%d" % (os.getpid(), i), body)

        with ThreadPoolExecutor(max_workers=3) as ex:
            outs = list(ex.map(eval_part, enumerate(parts)))
        for part, (rc, out, err) in zip(parts, outs):
            mm = vlib.parse_nat_list(out, "M") if rc == 0 else None
            if mm is None:
                ctx.breaks.append({"what": "correspondence evaluation C01_cases did not compile", "detail": (out + err)[-3000:]})
                break
            for k in mm[:3]:                 # show the model's answer for the first few only
                c = part[k]
                rc2, out2, _ = vlib.coq_eval("C01_one_%d" % os.getpid(), "From PGV Require Import C01.Model.\nOpen Scope string_scope.\n"
                                             "Definition c := %s.\nEval vm_compute in run_attempts (mk_ctx (fst (fst (fst c)))) (snd (fst (fst c))) (snd (fst c)).\n" % to_coq(c, c["_res"]))
                ctx.breaks.append({"what": "correspondence C01/Model.v vs distsys differs on a case",
                                   "case": {k2: v for k2, v in c.items() if not k2.startswith("_")},
                                   "impl": c["_res"], "model": out2.strip()[-3000:]})
    if ctx.replay:
        print("replay: implementation did", json.dumps(cases[0]["_res"]))
        print("replay: oracle", oracle(cases[0], cases[0]["_res"])[0], "correspondence breaks", len(ctx.breaks))


MANIFEST = {
    "category": "proof",
    "technique": "Coq proof (transactional-resource laws per resource kind, family-with-dirty-set combinator preserves them, refinement of every section to an atomic step on abstract objects) "
                 "+ differential correspondence model vs real MPCalContexts with fault-injecting wrapper resources",
    "text": ("Theorems in coq/Properties/C01.v, closed under the global context: trl_leaf / trl_incmap / trl_nested / trl_family (the laws hold for locals incl. indexed access, InputChan, CustomInChan, "
             "OutputChan, Dummy, file, Persistent, PersistentLog, localShared, TCP mailbox sender+handler, the CRDT resource (one node), the unreplicated 2PC variable, the failure detector, "
             "PlaceHolder, IncMap/HashMap over them, nestedArchetype over any lawful nested system; any family of lawful resources with a dirty set is lawful); "
             "section_atomic_any_family and section_atomic (any body as a finite interaction tree, any refusal position, any failing PreCommit set: Committed => published view = atomic execution "
             "of the body, Aborted/Crashed => published view unchanged, dirty set empty); sections_atomic (any list of sections); abort_only_if_blocked; retry_starts_from_last_commit; "
             "transactional_kinds_never_panic; full_statement refuted for SingleOutputChan and relaxedMailboxesRemote (known finding: send inside WriteValue, Abort panics) and proved for all other kinds."),
    "level_note": ("Trusted: Coq kernel; the hand-written model (tie = differential execution of real contexts on generated sections with injected failures: 220 quick / 4000 thorough cases); "
                   "ghost stores for channel/badger/file system/TCP. CRDT and 2PC are modelled as single-node projections (multi-node behaviour is C13/C11)."),
}
