"""C09 — Raft KV clients observe a linearizable key-value store (DESIGN §4 C09)."""
import json, os, time
import vlib
import c08_raft as R
import c08_walk as W
import c09_lin as L
import c09_scen as CS

ID = "C09"
THEOREMS = "Properties/C09.v"
HARNESS = ["c09"]
LEVEL = "proof"
READY = True
KNOWN_SIG = "duplicate-application-of-retried-request-after-intervening-acknowledged-write"
TRUSTED_BASE = [
    "Coq 8.16.1 kernel; vm_compute in the refutation witness, the examples and the per-run evaluation of the checker",
    "no axioms: 'Closed under the global context' for every theorem of Properties/C09.v",
    "the checker `linearizable` is proved sound AND complete for the definition lin_spec (C09/Proofs.v), for every history",
    "executions are those of coq/C08/Model.v; the tie to the real generated Go is the step harness (harness/cmd/c09 = raftstep): "
    "outcome + complete spec state after every step, and the clients' history at the end of each walk",
    "Python port of the checker (lib/c09_lin.py) is cross-checked against the Coq checker on every history of every run",
]
ASSUMPTIONS = [
    "per-link FIFO network (cfg_fifo = true), as in C08",
    "history = reads of reqCh / writes of respCh of the AClient archetypes (what bootstrap.Client exposes)",
]
RULE = ("cases = corpus/C09/*.json (the refutation witness, the client-carrying leader-change scenarios of lib/c09_scen.py), the same scenario scripts run LIVE on the tree under test when they take another path there, then seeded adaptive random walks with 1-3 servers, 1-3 clients, 1-3 keys, "
        "profiles biased to client timeouts/retries, leader changes and minority crashes; every history is checked by the Coq checker "
        "(vm_compute) and its Python port. Non-trivial = >= 2 completed operations and (a retry or >= 2 clients with overlapping operations).")


def corpus():
    out = []
    d = os.path.join(vlib.VERIF, "corpus", "C09")
    if os.path.isdir(d):
        for f in sorted(os.listdir(d)):
            if f.endswith(".json"):
                c = json.load(open(os.path.join(d, f)))
                c["file"] = f
                out.append(c)
    return out


def run_fixed(h, case):
    params = case["params"]
    events = [W.tuple_event(e) for e in case["events"]]
    picks = case.get("picks")
    pm = R.pick_map(h, params["n"]) if (picks is None and any(e[0] == "EClientSnd" for e in events)) else {}
    w = h.new(params)
    acks = CS.AckTracker()
    steps, failures = [], []
    for k, ev in enumerate(events):
        pick = picks[k] if picks is not None else (pm.get(ev[2], 0) if ev[0] == "EClientSnd" else 0)
        oev, outcome, out = R.do_event(h, w, ev, pickidx=pick)
        code = R.OUTCOME_CODE.get(outcome, 9)
        d = w.digest()
        steps.append((oev, code, R.hash_digest(d), d if k % 10 == 0 or k == len(events) - 1 else None))
        if code >= 2:
            failures.append({"signature": "generated-code-" + outcome.replace(":", "-") + ":" + out["label"],
                             "what": "%s in %s: %s" % (outcome, out["label"], out.get("err", "")[:200])})
            break
        lost = acks.check(w) if not failures else []     # the first loss is reported; the run goes on so that the clients' reads show it too
        failures.extend({"signature": sig, "what": "after step %d (%s): %s" % (k, " ".join(map(str, oev)), what)} for sig, what in lost)
    return w, steps, failures


def nontrivial(hist):
    ops = L.ops_of(hist)
    done = [o for o in ops if o["resp"] is not None]
    if len(done) < 2:
        return False
    clients = set(o["c"] for o in ops)
    overlap = any(a["c"] != b["c"] and a["inv"] < b["inv"] and (a["resp"] is None or a["resp"][0] > b["inv"]) for a in ops for b in ops)
    return overlap or len(clients) >= 2


def run(ctx):
    rng = ctx.rng
    t0 = time.time()
    h = R.Harness("c09")
    records = []     # (payload, params, steps, hist, world, pylin)
    stats = {"histories": 0, "non_linearizable": 0, "ops_completed": 0, "retries": 0, "live_scenarios_differing_from_corpus": 0}
    try:
        if ctx.replay:
            fixed = [json.load(open(ctx.replay))["case"]]
        else:
            fixed = corpus()
        if not ctx.replay:
            # live scenario scripts (lib/c09_scen.py) on the tree under test; one whose event list is the archived one is not run twice
            have = {c.get("name"): c["events"] for c in fixed}
            for c in CS.build_all(h):
                if have.get(c["name"]) != c["events"]:
                    c["name"] += "+live"
                    fixed.append(c)
                    stats["live_scenarios_differing_from_corpus"] += 1
        for c in fixed:
            w, steps, failures = run_fixed(h, c)
            payload = {k: v for k, v in c.items() if k in ("params", "events", "picks", "name")}
            for f in failures:
                ctx.failures.append(dict(f, case=payload, obs={"history": list(w.hist), "applied_log": L.applied_log(w)}))
            records.append((payload, c["params"], steps, list(w.hist), w, c.get("expect", {})))
        if not ctx.replay:
            nwalks, lo, hi = (6, 140, 300) if ctx.tier == "quick" else (80, 200, 1500)
            budget = 30 if ctx.tier == "quick" else 1200
            for k in range(nwalks):
                if time.time() - t0 > budget:
                    ctx.notes.append("walk budget reached after %d walks" % k)
                    break
                params = W.gen_params(rng, ctx.tier, for_c09=True)
                profile = rng.choice(["retry", "retry", "retry", "service", "lossy", "crash", "steady", "elections"])
                prefix = W.scripted_election(params["n"], rng.randint(1, params["n"])) if rng.random() < 0.95 else ()
                acks, lost = CS.AckTracker(), []

                def on_step(w_, oev_, out_):
                    if not lost:
                        lost.extend(acks.check(w_))
                res = W.walk(h, rng, params, rng.randint(lo, hi), profile, prefix=prefix, on_step=on_step)
                payload = {"params": params, "events": res.intended, "picks": res.picks, "profile": profile}
                for f in res.failures:
                    if f["signature"].startswith("generated-code-"):
                        ctx.failures.append({"signature": f["signature"], "what": f["what"], "case": payload})
                for sig, what in lost:
                    ctx.failures.append({"signature": sig, "what": what, "case": payload})
                records.append((payload, params, res.steps, list(res.world.hist), res.world, {}))
    finally:
        h.close()
    # implementation-side oracle: the property itself on every observed history
    pylin = []
    for payload, params, steps, hist, w, expect in records:
        ok = L.linearizable(hist)
        pylin.append(ok)
        stats["histories"] += 1
        stats["ops_completed"] += sum(1 for e in hist if e[0] == "resp")
        stats["retries"] += sum(1 for s in steps if s[0][0] == "EClientTimeout" and s[1] == 0)
        ctx.add_case(json.dumps(payload, sort_keys=True), nontrivial(hist))
        if not ok:
            stats["non_linearizable"] += 1
            sig, detail = L.classify(hist, w)
            ctx.failures.append({"signature": sig, "what": "non-linearizable history: " + detail, "case": payload,
                                 "obs": {"history": hist, "applied_log": L.applied_log(w)}})
        if expect.get("non_linearizable") and ok:
            ctx.breaks.append({"what": "corpus witness %s no longer produces a non-linearizable history on the generated Go "
                                       "(if the defect was repaired: move the known finding to `fixed` and replace the _refuted theorem)" % payload.get("name"),
                               "case": payload, "impl": hist})
        if len(ctx.samples) < 4:
            ctx.samples.append({"params": params, "history": hist[:12], "linearizable": ok})
    ctx.extra["input_distribution"] = stats
    if ctx.replay:
        print("replay: history", records[0][3])
        print("replay: linearizable (python port) =", pylin[0], "| failures:", [f["signature"] for f in ctx.failures])
    # tie + Coq checker on the same histories
    if ctx.coq_ok:
        shard = 10
        for s in range(0, len(records), shard):
            part = records[s:s + shard]
            items = []
            for payload, params, steps, hist, w, expect in part:
                c = R.coq_case(params, steps)
                items.append("(c09_case (fst %s) (snd %s) %s)" % (c, c, L.coq_hist(hist)))
            body = ("From PGV Require Import C09.Model.\nDefinition M := Eval vm_compute in [\n" + ";\n".join(items) + "].\nPrint M.\n")
            rc, out, err = vlib.coq_eval("C09_cases_%d" % s, body)
            codes = vlib.parse_nat_list(out, "M") if rc == 0 else None
            if codes is None or len(codes) != len(part):
                ctx.breaks.append({"what": "C09 case evaluation did not compile", "detail": (out + err)[-2000:]})
                break
            for k, code in enumerate(codes):
                payload, params, steps, hist, w, expect = part[k]
                if code & 4 == 0:
                    nmis = sum(1 for b in ctx.breaks if "correspondence" in b["what"])
                    ctx.breaks.append({"what": "correspondence C08/Model.v vs generated raftkvs.go differs on a C09 walk",
                                       "case": payload,
                                       "model": R.coq_first_mismatch("C09_one", params, steps) if nmis < 2 else "(first mismatch located for the first two cases only)"})
                elif code & 2 == 0:
                    ctx.breaks.append({"what": "history of the model differs from the history observed at the Go clients",
                                       "case": payload, "impl": hist})
                if bool(code & 1) != pylin[s + k]:
                    ctx.breaks.append({"what": "Python port of the checker disagrees with the Coq checker", "case": payload,
                                       "impl": {"python": pylin[s + k], "coq": bool(code & 1), "history": hist}})


MANIFEST = {
    "category": "proof",
    "technique": "refutation witness by vm_compute on the C08 model replayed on the generated Go + linearizability checker proved sound and complete, "
                 "run on every observed history + positive theorems acknowledged_put_never_lost, linearizable_without_retry",
    "text": ("coq/Properties/C09.v: the checker `linearizable` decides the definition lin_spec for every history (linearizable_sound, "
             "linearizable_complete); the full statement raft_kv_linearizable is a Definition and is REFUTED (raft_kv_linearizable_refuted / "
             "_is_false: 1 server, 2 clients: Put(k1,v1) ack, Put(k1,v2) ack, Get(k1) -> v1, because a client retry is applied twice); the witness "
             "replays on the real generated Go (corpus/C09/retry_duplicate.json) and is the known finding. Proved positive parts (per-link FIFO): "
             "acknowledged_put_never_lost (the entry of an acknowledged Put stays at its index in every server that commits it, in every continuation) and "
             "linearizable_without_retry (if no client request is applied twice the history is linearizable in the order of the applied log). Every history produced by seeded walks of the real generated archetypes (1-3 servers, 1-3 clients, 1-3 keys, retries, "
             "crashes) is checked by the Coq checker and its Python port; a non-linearizable history that is not explained by a re-applied retried Put "
             "is a violation. Scripted leader-change scenarios with two clients (corpus/C09, lib/c09_scen.py: leader crashes after acknowledging a Put before the "
             "followers learn the commit index, a deposed leader asked for a Get, a short-log candidate after an acknowledged Put, and client-carrying versions of "
             "the C08 scenarios) run on every check, archived and live; acknowledged_put_never_lost is also checked as an oracle on every step of every run "
             "(signature acknowledged-put-lost)."),
    "level_note": ("Known finding: raftkvs is not linearizable under client retries (no request de-duplication). Trusted: Coq kernel, the C08 model and "
                   "its step-level tie, the classifier that separates the known finding from other non-linearizable histories (test infrastructure)."),
}
