"""C17 — Run/Stop/Close lifecycle: stops cleanly, never deadlocks, closes once (DESIGN §4 C17)."""
import json, os
import vlib

ID = "C17"
THEOREMS = "Properties/C17.v"
HARNESS = ["c17"]
LEVEL = "proof"
READY = True
TRUSTED_BASE = [
    "Coq 8.16.1 kernel (coqc, full .vo build); vm_compute in Examples, in the refutation of the un-repaired variant and in the correspondence evaluation",
    "no axioms: Print Assumptions reports 'Closed under the global context' for every theorem of Properties/C17.v",
    "hand-written model coq/C17/Model.v of Run/Stop/cleanupResources (distsys/mpcalctx.go) and of IncMap/HashMap/Nested Close, "
    "tied by phase-scripted differential execution (harness/cmd/c17 against the real MPCalContext; the same script drives the model's LTS inside Coq)",
    "Go's sync.Mutex, buffered channel of capacity 1, close/receive on a closed channel, select-with-default and deferred calls behave as the language specifies "
    "(they are the model's primitive steps)",
    "the goroutine scheduler is the model's interleaving: theorems cover every interleaving of the model, the real scheduler is only sampled by phase scripts",
    "hashmap.Keys() lists every key once (C05's domain); cleanup order (Go map iteration) is not observable in what is compared",
]
ASSUMPTIONS = [
    "every attempt of the archetype body takes finitely many steps (a_dur), every Close takes finitely many steps (c_cdur) — of any length",
    "termination is stated as a measure that every step decreases once an exit request is in the channel (or the run is over); "
    "that each runnable goroutine is eventually scheduled is Go's scheduler, not modelled",
    "a Nested resource is a closable of arbitrary finite duration in the outer context; that its Close ends is the theorem nested_drained "
    "(the same LTS instantiated with one Run caller and one Stop caller) — composition by instantiation, not one global LTS",
    "contexts built by NewMPCalContextWithoutArchetype (requireRunnable panics at once) are outside the model",
]
RULE = ("cases = phase scripts from one PRNG (VERIF_SEED): resource mix (1-4 leaves some with failing Close, IncMap with touched keys, HashMap — elements with scripted failing Close —, "
        "a Nested resource of 1-3 contexts some of which end on their own by Done/assertion before the outer run ends), "
        "plan of 1-5 attempts (commit/abort/precommit-abort, then one of done/assert/Error label/read error/precommit error/panic or an endless loop), "
        "k<=8 Stops distributed over the phases pre / race-with-Run / body i / cleanup / after, optional second Run during a body, two further Runs at the end. "
        "Non-trivial = at least 2 Stops overlapping the run (race, body or cleanup phases); distinct by canonical case text.")

ENDS = ["done", "assert", "fall", "reserr", "pcerr", "panic"]
MASK = {"assert": 1, "fall": 2, "res": 4, "close": 8, "panic": 16}


def gen_case(rng, tier):
    c = {"leaves": [rng.random() < 0.25 for _ in range(rng.randint(0, 3))],
         "incmap": rng.random() < 0.5, "hashmap": rng.choice([0, 0, 1, 2, 3]),
         "nested": rng.choice([0, 0, 0, 1, 2]), "rerun_at": -1,
         "pre": 0, "race": 0, "body": [], "cleanup": 0, "after": 0, "norun": False}
    if c["incmap"] and rng.random() < 0.5:
        c["im_fail"] = sorted(rng.sample(range(4), rng.randint(1, 3)))      # elements whose Close returns an error
    if c["hashmap"] and rng.random() < 0.5:
        c["hm_fail"] = sorted(rng.sample(range(c["hashmap"]), rng.randint(1, c["hashmap"])))
    if rng.random() < 0.25:
        # a Nested resource of 2-3 contexts, some of which end on their own (Done / assertion) before the outer run ends
        c["nested"] = rng.randint(2, 3)
        c["nested_end"] = [rng.choice(["", "", "done", "assert"]) for _ in range(c["nested"])]
        if all(x == "" for x in c["nested_end"]):
            c["nested_end"][rng.randrange(c["nested"])] = rng.choice(["done", "assert"])
    elif c["nested"] == 1 and rng.random() < 0.3:
        c["nested_end"] = [rng.choice(["done", "assert"])]
    n = rng.randint(1, 5)
    plan = []
    for i in range(n):
        w = rng.choice(["commit", "commit", "commit", "abort", "pcabort"])
        plan.append({"what": w, "touch": [rng.randint(0, 3) for _ in range(rng.randint(0, 4))] if c["incmap"] else []})
    endless = rng.random() < 0.45
    if not endless:
        plan.append({"what": rng.choice(ENDS), "touch": [rng.randint(0, 3)] if c["incmap"] and rng.random() < 0.5 else []})
    c["plan"] = plan
    if rng.random() < 0.06:
        # preRun panics (a required ref parameter is missing): no attempt runs, the deferred cleanup does
        c["pre_panic"] = True
        c["cleanup"] = rng.randint(0, 4); c["after"] = rng.randint(0, 2); c["race"] = rng.choice([0, 0, 1, 2])
        return c
    budget = rng.randint(0, 8)
    r = rng.random()
    if r < 0.08:
        c["pre"] = rng.randint(1, 3); budget -= c["pre"]
    elif r < 0.12:
        c["norun"] = True; c["pre"] = rng.randint(0, 2); c["after"] = rng.randint(0, 3); return c
    elif r < 0.22:
        c["race"] = rng.randint(1, 3); budget -= c["race"]
    stop_at = None
    if endless or rng.random() < 0.7:
        # Stops while some body is blocked
        k = rng.randint(1, max(1, min(4, budget))) if budget > 0 else (1 if endless else 0)
        if k > 0:
            stop_at = rng.randrange(len(plan))
            c["body"].append({"at": stop_at, "k": k}); budget -= k
            if rng.random() < 0.2 and budget > 0 and stop_at + 1 < len(plan):
                # a second batch one attempt later only matters if the first did not end the run (it always does): keep for robustness
                c["body"].append({"at": stop_at + 1, "k": 1}); budget -= 1
    if endless and stop_at is None and c["race"] == 0 and c["pre"] == 0:
        c["body"].append({"at": len(plan) - 1, "k": 1})
    if budget > 0 and rng.random() < 0.7:
        c["cleanup"] = rng.randint(1, min(4, budget)); budget -= c["cleanup"]
    if budget > 0 and rng.random() < 0.6:
        c["after"] = rng.randint(1, min(3, budget))
    if rng.random() < 0.2:
        c["rerun_at"] = rng.randrange(len(plan))
    return c


def corpus():
    out = []
    d = os.path.join(vlib.VERIF, "corpus", "C17")
    if os.path.isdir(d):
        for f in sorted(os.listdir(d)):
            if f.endswith(".json"):
                c = json.load(open(os.path.join(d, f)))
                out.append(c.get("case", c))
    return out


WHAT = {"commit": "WCommit", "abort": "WAbort", "pcabort": "WAbort", "done": "(WEnd EDone)", "assert": "(WEnd EAssert)",
        "fall": "(WEnd EFall)", "reserr": "(WEnd EResErr)", "pcerr": "(WEnd EResErr)", "panic": "(WEnd EPanic)"}


def nl(xs):
    return vlib.coq_list([str(int(x)) for x in xs])


def cfg_to_coq(c):
    atts = ["mkAtt 0 %s %s" % (WHAT[a["what"]], nl(a.get("touch", []) if c.get("incmap") else [])) for a in c["plan"]]
    leaves = ["false"] + [vlib.coq_bool(b) for b in c.get("leaves", [])]
    nest_err = [i for i, x in enumerate(c.get("nested_end", [])) if x == "assert"]
    eerr = ("(fun x => match x with IInc k => existsb (Nat.eqb k) %s | IHash i => existsb (Nat.eqb i) %s "
            "| INest i => existsb (Nat.eqb i) %s | ILeaf _ => false end)" % (nl(c.get("im_fail", [])), nl(c.get("hm_fail", [])), nl(nest_err)))
    return "(mkCfg (plan_of %s) %s %s %d %s %d (fun _ => 0) %s)" % (
        vlib.coq_list(atts), vlib.coq_bool(c.get("pre_panic", False)), vlib.coq_list(leaves), c.get("hashmap", 0),
        vlib.coq_bool(c.get("incmap", False)), c.get("nested", 0), eerr)


def race_mode(r):
    return 0 if not r["started"] else (2 if r["bodies"] > 0 else 1)


def script_to_coq(c, started):
    body = vlib.coq_list(["(%d, %d)" % (b["at"], b["k"]) for b in c.get("body", [])])
    ra = c.get("rerun_at", -1)
    return "(mkScript %d %s %d %s %s %s %d %d %d)" % (
        c.get("pre", 0), vlib.coq_bool(c.get("norun", False)), c.get("race", 0), started, body,
        ("(Some %d)" % ra) if ra is not None and ra >= 0 else "None", c.get("cleanup", 0), c.get("after", 0),
        0 if c.get("norun") else 2)


def obs_to_coq(c, r):
    """the harness result as the list of lists of numbers that Model.observe produces"""
    hang = 1 if r["hang"] else 0
    started = 1 if r["started"] else 0
    classes = []
    if r["started"] and r["run_returned"]:
        classes.append(sum(MASK.get(x, 32) for x in r["run_class"]))
    for x in r["rerun"]:
        if x.startswith("ran-again"):
            classes.append(99)
    nleaf = 1 + len(c.get("leaves", []))
    leafc = [r["closes"].get("w", 0)] + [r["closes"].get("l%d" % i, 0) for i in range(nleaf - 1)]
    hashc = [r["closes"].get("hm[%d]" % i, 0) for i in range(c.get("hashmap", 0))]
    keys = r.get("created_order") or []
    incc = []
    for k in keys:
        incc.append(sum(v for name, v in r["closes"].items() if name.startswith("im[%d]#" % k)))
    nestc = [r["closes"].get("ne[%d].nw" % i, 0) for i in range(c.get("nested", 0))]
    if not r["started"]:
        # a nested context that ended on its own closed its resource itself; the outer run never closed anything
        ne = c.get("nested_end", [])
        nestc = [0 if (i < len(ne) and ne[i]) else x for i, x in enumerate(nestc)]
    refused = sum(1 for x in r["rerun"] if x == "refused")
    notstarted = sum(1 for x in r["rerun"] if x == "nil-norun")
    if r["run_returned"] and not r["started"] and not r["run_class"]:
        notstarted += 1
    ll = [[hang], [started], classes, [r["commits"]], [r["bodies"]], leafc, hashc, keys, incc, nestc,
          [r["stops_returned"]], [refused], [notstarted]]
    return vlib.coq_list([nl(x) for x in ll])


EXPECT = {"assert": {"assert"}, "fall": {"fall"}, "reserr": {"res"}, "pcerr": {"res"}, "panic": {"panic"}}


def oracle(c, r):
    """the property read directly off what the real code did; returns [(signature, what)]"""
    fails = []
    overl = c.get("race", 0) + sum(b["k"] for b in c.get("body", [])) + c.get("cleanup", 0)
    if r["hang"] and c.get("real"):
        return [("hang-real-resources-%s-sender-%s" % (r["hang"], c.get("sender") or "none"),
                 "over a real FailureDetector + local TCP mailbox (remote sender: %s) a Run or Stop call did not return within the deadline (phase %s, %d Stops)"
                 % (c.get("sender") or "none", r["hang"], c["real"]))]
    if r["hang"]:
        cls = "stops-overlapping-run" if overl >= 2 else "few-stops"
        fails.append(("hang-%s-%s" % (r["hang"], cls), "a Run or Stop call did not return within the deadline (phase %s, %d Stops overlapping the run)" % (r["hang"], overl)))
        return fails
    if r["stops_returned"] != r["stops_issued"]:
        fails.append(("stop-not-returned", "%d of %d Stop calls returned" % (r["stops_returned"], r["stops_issued"])))
    for name, n in sorted(r["closes"].items()):
        if n > 1:
            fails.append(("double-close", "%s was closed %d times" % (name, n))); break
    if r["started"] and r["run_returned"]:
        for name, n in sorted(r["closes"].items()):
            if n == 0 and not name.startswith("ne["):
                fails.append(("not-closed", "%s was never closed although the started run ended" % name)); break
    if not r["started"]:
        for name, n in sorted(r["closes"].items()):
            if n != 0 and not name.startswith("ne["):
                fails.append(("closed-without-run", "%s was closed although the run never started" % name)); break
    for key, n in sorted(r["created"].items()):
        if n != 1:
            fails.append(("incmap-element-created-twice", "IncMap key %s was realised %d times" % (key, n))); break
    if r["commit_after_stop"] or r["body_after_stop"]:
        fails.append(("commit-after-stop", "%d commits / %d attempts after a Stop call had returned" % (r["commit_after_stop"], r["body_after_stop"])))
    if r["stop_before_end"] and r["started"]:
        fails.append(("stop-returned-before-cleanup-finished", "%d Stop calls returned while the started run was still cleaning up" % r["stop_before_end"]))
    for x in r["rerun"]:
        if x not in ("refused", "nil-norun"):
            fails.append(("second-run-" + x.split(":")[0].split("+")[0], "a further Run call was not refused: %s" % x)); break
    if c.get("real"):
        if r["closes"].get("net-listener-released") != 1:
            fails.append(("real-mailbox-listener-not-released", "after Run returned the local mailbox's address cannot be bound again"))
        if r["run_class"]:
            fails.append(("real-run-result", "Run over FailureDetector + TCP mailbox stopped by Stop reported %s" % r["run_class"]))
        if r.get("err"):
            fails.append(("real-run-error", r["err"]))
        return fails
    if r["started"] and r["run_returned"]:
        got = set(r["run_class"])
        lw = "panic" if c.get("pre_panic") else r.get("last_what", "")
        want = set(EXPECT.get(lw, set()))
        close_fails = (any(c.get("leaves", []))
                       or any(k in c.get("im_fail", []) for k in (r.get("created_order") or []))
                       or any(i < c.get("hashmap", 0) for i in c.get("hm_fail", []))
                       or any(x == "assert" for x in c.get("nested_end", [])[:c.get("nested", 0)]))
        if lw != "panic" and close_fails:
            want.add("close")
        if got != want:
            fails.append(("run-result-class-" + (lw or "none"), "the run's last attempt was %r but Run reported %s (expected %s)" % (lw, sorted(got), sorted(want))))
    return fails


def canon(c):
    return json.dumps({k: c[k] for k in sorted(c) if k != "id"}, sort_keys=True)


def nontrivial(c):
    if c.get("real"):
        return c["real"] >= 2
    return c.get("race", 0) + sum(b["k"] for b in c.get("body", [])) + c.get("cleanup", 0) >= 2


def run_harness(cases):
    rc, res, err = vlib.run_jsonl("c17", [dict(c) for c in cases], timeout=900)
    return rc, {r["id"]: r for r in res}, err


def model_mismatches(cases, results, name):
    body = ("From PGV Require Import C17.Model.\n"
            "Definition cases : list (config * script * list (list nat)) :=\n " +
            vlib.coq_list(["(%s, %s, %s)" % (cfg_to_coq(c), script_to_coq(c, race_mode(results[c["id"]])), obs_to_coq(c, results[c["id"]]))
                           for c in cases]).replace("); (", ");\n (") + ".\n"
            "Definition M := Eval vm_compute in mismatches_from 0 repaired cases.\nPrint M.\n")
    rc, out, err = vlib.coq_eval(name, body)
    if rc != 0:
        return None, out + err
    return vlib.parse_nat_list(out, "M"), out


def run(ctx):
    rng = ctx.rng
    n = 300 if ctx.tier == "quick" else 4000
    if ctx.replay:
        rp = json.load(open(ctx.replay))
        cases = [rp["case"]]
    else:
        cases = corpus()
        for i in range(n):
            cases.append(gen_case(rng, ctx.tier))
        senders = ["abort_retry", "abort_only", "plain", ""]
        for i in range(4 if ctx.tier == "quick" else 32):
            # real FailureDetector + local TCP mailbox under k Stops at once (oracle only, the model has no part in these);
            # before the Stops a remote sender (the real remote mailbox resource) has an exchange with the local mailbox:
            # committed, aborted after its PreCommit was acknowledged and retried on the same connection, or aborted for good
            cases.append({"real": rng.randint(1, 8), "sender": senders[i % 4], "plan": [], "rerun_at": -1})
    for i, c in enumerate(cases):
        c["id"] = i
        c.setdefault("rerun_at", -1)
    rc, byid, err = run_harness(cases)
    if rc != 0 or len(byid) != len(cases):
        ctx.breaks.append({"what": "harness c17 failed (rc=%d, %d/%d results)" % (rc, len(byid), len(cases)), "detail": err[-2000:]})
        return
    dist = {"ends": {}, "stops_per_phase": {"pre": 0, "race": 0, "body": 0, "cleanup": 0, "after": 0}, "started": 0, "never_started": 0,
            "with_incmap": 0, "with_hashmap": 0, "with_nested": 0, "with_failing_close": 0, "rerun_during_body": 0, "max_stops": 0}
    # a call that missed the 1.5 s deadline is confirmed with a 6 s deadline before it is called a hang (overloaded machine)
    hung = [dict(c, deadline_ms=6000) for c in cases if byid[c["id"]]["hang"]][:24]
    if hung:
        rc2, by2, _ = run_harness(hung)
        for c in hung:
            if rc2 == 0 and c["id"] in by2 and not by2[c["id"]]["hang"]:
                byid[c["id"]] = by2[c["id"]]
                ctx.extra["hang_not_confirmed"] = ctx.extra.get("hang_not_confirmed", 0) + 1
    for c in cases:
        r = byid[c["id"]]
        ctx.add_case(canon(c), nontrivial(c))
        for sig, what in oracle(c, r):
            ctx.failures.append({"signature": sig, "what": what, "case": c, "obs": r})
        if c.get("real"):
            dist["real_resource_cases"] = dist.get("real_resource_cases", 0) + 1
            key = "real_sender_" + (c.get("sender") or "none")
            dist[key] = dist.get(key, 0) + 1
            dist["max_stops"] = max(dist["max_stops"], r["stops_issued"])
            continue
        if c.get("pre_panic"):
            dist["prerun_panic"] = dist.get("prerun_panic", 0) + 1
        dist["ends"][r.get("last_what") or "none"] = dist["ends"].get(r.get("last_what") or "none", 0) + 1
        dist["started" if r["started"] else "never_started"] += 1
        for ph in ("pre", "race", "cleanup", "after"):
            dist["stops_per_phase"][ph] += c.get(ph, 0)
        dist["stops_per_phase"]["body"] += sum(b["k"] for b in c.get("body", []))
        dist["with_incmap"] += 1 if c.get("incmap") else 0
        dist["with_hashmap"] += 1 if c.get("hashmap") else 0
        dist["with_nested"] += 1 if c.get("nested") else 0
        dist["with_failing_close"] += 1 if any(c.get("leaves", [])) else 0
        dist["with_failing_element_close"] = dist.get("with_failing_element_close", 0) + (1 if c.get("im_fail") or c.get("hm_fail") else 0)
        dist["with_early_ending_nested_context"] = dist.get("with_early_ending_nested_context", 0) + (1 if any(c.get("nested_end", [])) else 0)
        dist["rerun_during_body"] += 1 if c.get("rerun_at", -1) >= 0 else 0
        dist["max_stops"] = max(dist["max_stops"], r["stops_issued"])
    ctx.extra["input_distribution"] = dist
    ctx.samples = [{"case": {k: v for k, v in c.items()}, "go": {k: byid[c["id"]][k] for k in ("hang", "started", "run_class", "commits", "closes", "stops_returned", "rerun")}}
                   for c in cases[:4]]
    # tie B: the same phase script drives the model's LTS inside Coq
    if ctx.coq_ok:
        shard = 500
        mcases = [c for c in cases if not c.get("real")]
        for s in range(0, len(mcases), shard):
            part = mcases[s:s + shard]
            mm, out = model_mismatches(part, byid, "C17_cases_%d" % s)
            if mm is None:
                ctx.breaks.append({"what": "correspondence evaluation C17_cases did not compile", "detail": out[-2000:]})
                break
            if mm:
                # timing can make a released Stop arrive late; re-run the differing cases once before calling it a break
                # more than 40 is not timing; the re-run gives released Stops 30 ms (instead of 3) to reach their blocking point
                again = [dict(part[k], settle_us=30000, deadline_ms=5000) for k in mm][:40]
                rc2, by2, err2 = run_harness(again)
                if rc2 == 0 and len(by2) == len(again):
                    mm2, out2 = model_mismatches(again, by2, "C17_retry_%d" % s)
                    for j, k in enumerate(mm2 or []):
                        c = again[k]
                        outm = ""
                        if len(ctx.breaks) < 3:   # the model's prediction in full, for the first few only (one coqc each)
                            rcm, outm, _ = vlib.coq_eval("C17_one", "From PGV Require Import C17.Model.\nEval vm_compute in predict repaired %s %s.\n"
                                                         % (cfg_to_coq(c), script_to_coq(c, race_mode(by2[c["id"]]))))
                        ctx.breaks.append({"what": "correspondence C17/Model.v vs distsys/mpcalctx.go differs on a phase script (twice)",
                                           "case": c, "impl": by2[c["id"]], "model": outm.strip()[-1500:]})
                    ctx.extra["retried_cases"] = ctx.extra.get("retried_cases", 0) + len(again)
    if ctx.replay:
        r = byid[cases[0]["id"]]
        print("replay: go result", json.dumps(r))
        print("replay: oracle", oracle(cases[0], r), "correspondence breaks", len(ctx.breaks))


MANIFEST = {
    "category": "proof",
    "technique": "Coq proof over a lifecycle LTS with a counting abstraction over any number of Stop and Run callers (inductive invariant, "
                 "enabledness, decreasing measure) + phase-scripted differential correspondence against the real MPCalContext",
    "text": ("Theorems in coq/Properties/C17.v, closed under the global context, for ANY number of goroutines calling Stop and ANY number calling Run, "
             "every interleaving, every plan of attempts (any durations, any way of ending or none), every resource mix, every Close duration: "
             "run_at_most_once; no_double_close (awaitExit and every closable at most once at any time; IncMap creates one element per key); "
             "closed_exactly_once (when a started run has returned every configured resource / HashMap element / realised IncMap element / nested context was closed exactly once); "
             "deadlock_free (any in-flight call => some in-flight goroutine can step); stop_terminates (measure decreasing on every step but a poll that finds no request; "
             "once a Stop is past its request every execution has at most mu steps) with quiescent_means_all_returned; stop_returns_after_the_end; no_commit_after_stop; "
             "run_reports_once / outcomes_distinct. pinned_deadlocks and pinned_runs_twice refute the statement for the un-repaired variant of the same model (both reproduced on the real code, "
             "then repaired by two fix: commits). Tie: harness/cmd/c17 drives the real MPCalContext through phase scripts (instrumented resources whose Close blocks until released; "
             "k<=8 Stops released before Run / racing Run / while a body is blocked / during cleanup / after exit; further Run calls), and the same script drives the model's LTS inside Coq; "
             "hang flag, start, Run's error class, commits, attempts, Close count of every instance, IncMap creation order, returned Stops, refused Runs are compared; "
             "an implementation-side oracle checks the statement directly (every call returns, each Close exactly once, no commit after a Stop returned, further Runs refused, distinct error classes)."),
    "level_note": ("Trusted: Coq kernel; the hand-written model (tie = phase-scripted differential testing: 300 quick / 4000 thorough scripts, so a code change is caught only if a script reaches it); "
                   "Go's mutex/channel/defer semantics as the model's primitive steps. Partial: the goroutine scheduler is only sampled (the driver lets released Stops settle for 3 ms; a differing case is "
                   "re-run once with 30 ms before it counts); liveness is a decreasing measure plus enabledness, scheduler fairness is assumed; a Nested resource's drain is the same theorem instantiated for the inner context, "
                   "not a single composed LTS; real FailureDetector/TCPMailboxes Close are not driven by this check."),
}
