"""C12 — CRDT data types are semilattices with their declared read semantics (DESIGN §4 C12)."""
import json, os
import vlib

ID = "C12"
THEOREMS = "Properties/C12.v"
HARNESS = ["c12"]
LEVEL = "proof"
READY = True
TRUSTED_BASE = [
    "Coq 8.16.1 kernel (coqc, full .vo build); vm_compute used in the refutation witnesses, the non-vacuity Examples and the correspondence evaluation",
    "no axioms: Print Assumptions reports 'Closed under the global context' for every theorem of Properties/C12.v",
    "hand-written model coq/C12/Model.v of distsys/resources/{gcounter,aworset,lww}.go, tied by differential execution "
    "(harness/cmd/c12 drives the Go types through resources.CRDTValue + encoding/gob; the same histories are evaluated by vm_compute)",
    "tla.Value identifiers are modelled by Z (their Equal/Hash coherence is C05's subject); immutable.Map is modelled by association lists, "
    "every theorem holds up to an order-insensitive state equivalence that every operation is proved to respect",
    "time.Now() is an oracle argument of lww_write: the driver reads its own clock just before each Write (strictly after the previous "
    "Write returned) and that reading is the event's timestamp for the model and the oracle - NOT the timestamp found stored, so a "
    "write that stores nothing is still an event",
    "encoding/gob's primitive codec (int, tla.Value, time.Time, struct/slice framing) is taken to round-trip; the model covers what "
    "GobEncode/GobDecode of the three types do around it (iteration, length prefixes, rebuilding the maps)",
]
ASSUMPTIONS = [
    "GCounter: increments are non-negative and the total of all increments stays below 2^31 (int32 arithmetic is modelled with wrap32; "
    "the history theorems carry this hypothesis)",
    "vector clocks of AWORSet stay below 2^31 (fewer than 2^31 updates of one element by one replica)",
    "a replica identifier is used as writer id only by that replica (CRDTValue.Write(id, ...) with id = the replica's own id, as crdt.go does)",
]
RULE = ("cases = op histories from one PRNG (VERIF_SEED) per type (gcounter, aworset, lww): 2-4 writing replicas, <= 30 ops of "
        "W(rite)/S(napshot, optionally through a real gob encoder+decoder)/D(eliver any earlier snapshot to any replica, duplicates and "
        "stale ones included), then with probability 0.6 a finale delivering every snapshot to two fresh replicas in two random orders "
        "with duplication; lww also X (a state decoded from a hand-made gob stream: foreign clock, ties). identifiers as strings, numbers "
        "or tuples. Non-trivial = at least 2 replicas write and at least one pair of updates is concurrent (neither delivered to the "
        "other's writer before it wrote); distinct by canonical (type, ops) text.")

ADD, REM = 1, 2
BIG = 4102444800000000000   # year 2100 in ns: a peer whose clock is far ahead


# ------------------------------------------------------------------ generators

def gen_history(rng, typ, nops=None, finale=None):
    nrep = rng.randint(2, 4)
    elems = list(range(1, rng.randint(1, 3) + 1))
    nops = nops if nops is not None else rng.randint(4, 26)
    ops, npool = [], 0
    pw = rng.choice([0.3, 0.45, 0.6])
    for _ in range(nops):
        x = rng.random()
        if x < pw:
            r = rng.randrange(nrep)
            if typ == "gcounter":
                ops.append(["W", r, rng.choice([0, 1, 1, 1, 2, 3, 5, 1000])])
            else:
                ops.append(["W", r, rng.choice([ADD, ADD, REM]), rng.choice(elems)])
        elif x < pw + 0.25 or npool == 0:
            if typ == "lww" and rng.random() < 0.25:
                tss = [100, 100, 200, 300, BIG, BIG + 5]
                adds = [[e, rng.choice(tss)] for e in elems if rng.random() < 0.6]
                rems = [[e, rng.choice(tss)] for e in elems if rng.random() < 0.6]
                ops.append(["X", adds, rems])
            else:
                ops.append(["S", rng.randrange(nrep), rng.choice([0, 1])])
            npool += 1
        else:
            ops.append(["D", rng.randrange(nrep), rng.randrange(npool)])
    fin = (rng.random() < 0.6) if finale is None else finale
    if fin:
        for r in range(nrep):
            ops.append(["S", r, rng.choice([0, 1])]); npool += 1
        for dst in (100, 101):
            order = list(range(npool))
            rng.shuffle(order)
            order += [rng.randrange(npool) for _ in range(rng.randint(0, 3))]
            if rng.random() < 0.5:
                rng.shuffle(order)
            for m in order:
                ops.append(["D", dst, m])
        if typ != "gcounter" and rng.random() < 0.5:
            # one more round: a replica that saw everything updates, both receivers merge it
            e = rng.choice(elems)
            ops.append(["D", 102, rng.choice([m for m in range(npool)])])
            for m in rng.sample(range(npool), npool):
                ops.append(["D", 102, m])
            ops.append(["W", 102, rng.choice([ADD, REM]), e])
            ops.append(["S", 102, rng.choice([0, 1])]); npool += 1
            ops.append(["D", 100, npool - 1]); ops.append(["D", 101, npool - 1])
    return {"type": typ, "ids": rng.choice(["str", "num", "tup", "rec", "nest"]) if typ != "gcounter" else rng.choice(["str", "num"]),
            "ops": ops, "kind": "history"}


def gen_gc_zero(rng):
    """several replicas whose entry is 0 (they only incremented by 0) next to non-zero ones, every state sent through a real
    gob encoder/decoder: gob omits zero fields, so a decoder must not let a 0 entry inherit the count decoded before it"""
    nz = rng.randint(1, 3); nnz = rng.randint(1, 3)
    reps = list(range(nz + nnz)); rng.shuffle(reps)
    zeros, nonz = reps[:nz], reps[nz:]
    ops, npool = [], 0
    writes = [["W", r, 0] for r in zeros for _ in range(rng.randint(1, 2))] + [["W", r, rng.randint(1, 6)] for r in nonz]
    rng.shuffle(writes)
    ops += writes
    for r in reps:
        ops.append(["S", r, 1]); npool += 1
    for dst in (50, 51):
        order = list(range(npool)); rng.shuffle(order)
        for m in order:
            ops.append(["D", dst, m])
        ops.append(["S", dst, 1]); npool += 1           # the merged state itself crosses gob
    ops.append(["D", 52, npool - 2]); ops.append(["D", 53, npool - 1]); ops.append(["D", 52, npool - 1])
    if rng.random() < 0.5:
        ops.append(["W", rng.choice(zeros), rng.choice([0, 2])]); ops.append(["S", zeros[0], 1]); npool += 1
        ops.append(["D", 53, npool - 1])
    return {"type": "gcounter", "ids": rng.choice(["str", "num"]), "ops": ops, "kind": "zero-entries"}


def gen_malformed_gc(rng):
    """precondition violated (negative increment / int32 overflow): only the tie model-vs-code is checked"""
    c = gen_history(rng, "gcounter", nops=rng.randint(3, 12), finale=False)
    for op in c["ops"]:
        if op[0] == "W" and rng.random() < 0.6:
            op[2] = rng.choice([-1, -5, 2147483647, 2000000000, -2147483648])
    c["kind"] = "malformed"
    return c


def lawset_for(case, rng):
    """states on which the laws are checked directly on the Go Merge: up to 5 pool entries / replicas"""
    npool = sum(1 for o in case["ops"] if o[0] in ("S", "X"))
    reps = sorted({o[1] for o in case["ops"] if o[0] in ("W", "D", "S")})
    refs = [["p", i] for i in range(npool)] + [["r", r] for r in reps]
    rng.shuffle(refs)
    return refs[:5]


# ------------------------------------------------------------------ independent specification (ghost run)

class Ghost:
    """which updates were delivered where; an update = index of its W op (X: one pseudo update per pair)"""
    def __init__(self, case, ts):
        self.events = {}          # uid -> dict(writer, arg, past=frozenset)
        self.dl = {}              # replica -> set(uid)
        self.pool = []            # list of set(uid)
        self.after = []           # per op: (replica, frozenset delivered) or None
        typ = case["type"]
        for i, op in enumerate(case["ops"]):
            k = op[0]
            if k == "W":
                r = op[1]
                d = self.dl.setdefault(r, set())
                if typ == "gcounter":
                    arg = ("inc", op[2])
                elif typ == "lww":
                    arg = (op[2], op[3], ts[i])
                else:
                    arg = (op[2], op[3])
                self.events[(i, 0)] = {"writer": r, "arg": arg, "past": frozenset(d)}
                d.add((i, 0))
                self.after.append((r, frozenset(d)))
            elif k == "S":
                self.pool.append(set(self.dl.setdefault(op[1], set()))); self.after.append(None)
            elif k == "X":
                s = set()
                n = 0
                for cmd, ps in ((ADD, op[1]), (REM, op[2])):
                    for e, t in ps:
                        self.events[(i, n)] = {"writer": ("x", i), "arg": (cmd, e, t), "past": frozenset()}
                        s.add((i, n)); n += 1
                self.pool.append(s); self.after.append(None)
            elif k == "D":
                d = self.dl.setdefault(op[1], set())
                if 0 <= op[2] < len(self.pool):
                    d |= self.pool[op[2]]
                self.after.append((op[1], frozenset(d)))

    def spec_read(self, typ, D):
        ev = [self.events[u] for u in D]
        if typ == "gcounter":
            return sum(e["arg"][1] for e in ev)
        if typ == "lww":
            out = []
            for el in sorted({e["arg"][1] for e in ev}):
                ta = [e["arg"][2] for e in ev if e["arg"][1] == el and e["arg"][0] == ADD]
                tr = [e["arg"][2] for e in ev if e["arg"][1] == el and e["arg"][0] == REM]
                if ta and (not tr or max(ta) >= max(tr)):   # add wins ties
                    out.append(el)
            return out
        out = []
        for el in sorted({e["arg"][1] for e in ev}):
            adds = [u for u in D if self.events[u]["arg"] == (ADD, el)]
            rems = [u for u in D if self.events[u]["arg"] == (REM, el)]
            if any(all(x not in self.events[y]["past"] for y in rems) for x in adds):
                out.append(el)
        return out

    # history classes used to give AWORSet failures a specific signature
    def aw_class(self, D, el):
        evs = [u for u in D if self.events[u]["arg"][1] == el]
        def hb(x, y):
            return x in self.events[y]["past"]
        conc = [(x, y) for x in evs for y in evs
                if self.events[x]["arg"][0] == ADD and self.events[y]["arg"][0] == REM and not hb(x, y) and not hb(y, x)]
        if conc:
            # the known AWORSet defect needs a third update of the element (later or stale) besides the concurrent pair
            return "concurrent-add-remove" if len(evs) >= 3 else "concurrent-pair-only"
        # no add of the element is concurrent with a remove of it: the class proved convergent with the add-wins read
        # semantics (coq: aworset_convergence_addrem_ordered / aworset_read_addrem_ordered) - exactly the complement of the
        # known-finding class. A failure here contradicts the theorem + tie: VIOLATION.
        return "addrem-ordered"


def oracle(case, res, ts):
    """the property checked directly on what the real code did. returns [(signature, what)]"""
    typ = case["type"]
    fails = []
    if res.get("err"):
        return [("%s-error" % typ, "harness/Go error: %s" % res["err"][:200])]
    if case.get("kind") == "malformed":
        return fails
    g = Ghost(case, ts)
    # read semantics after every op, on the replica it changed
    for i, (op, rd, af) in enumerate(zip(case["ops"], res["reads"], g.after)):
        if af is None:
            continue
        exp = g.spec_read(typ, af[1])
        if rd != exp:
            if typ == "aworset":
                diff = sorted(set(rd) ^ set(exp))
                cls = sorted({g.aw_class(af[1], el) for el in diff})
                fails.append(("aworset-readspec-" + "+".join(cls),
                              "AWORSet replica %s reads %s after op %d, the add-wins specification of its delivered updates gives %s" % (af[0], rd, i, exp)))
            else:
                fails.append(("%s-readspec" % typ, "%s replica %s reads %s after op %d, specification of its delivered updates gives %s" % (typ, af[0], rd, i, exp)))
            break
    # strong convergence: same delivered updates => same read
    groups = {}
    for r, d in g.dl.items():
        groups.setdefault(frozenset(d), []).append(r)
    for d, rs in groups.items():
        reads = {json.dumps(res["final"][str(r)]) for r in rs if str(r) in res["final"]}
        if len(reads) > 1:
            if typ == "aworset":
                vals = [set(res["final"][str(r)]) for r in rs]
                diff = set()
                for v in vals:
                    diff |= v ^ vals[0]
                cls = sorted({g.aw_class(d, el) for el in diff})
                fails.append(("aworset-diverge-" + "+".join(cls),
                              "AWORSet replicas %s received the same updates and read %s" % (rs, sorted(reads))))
            else:
                fails.append(("%s-diverge" % typ, "%s replicas %s received the same updates and read %s" % (typ, rs, sorted(reads))))
            break
    # semilattice laws directly on Merge
    def ref_dl(ref):
        return g.pool[ref[1]] if ref[0] == "p" else g.dl.get(ref[1], set())
    for lf in res.get("laws", []):
        law = lf["law"]
        if typ == "aworset" and law == "assoc":
            D = set()
            for ix in lf["at"]:
                D |= ref_dl(case["lawset"][ix])
            els = set()
            for part in ("add", "rem"):
                l = {x["e"]: x["c"] for x in lf["l"][part]}; r = {x["e"]: x["c"] for x in lf["r"][part]}
                els |= {e for e in set(l) | set(r) if l.get(e) != r.get(e)}
            cls = sorted({g.aw_class(D, el) for el in els})
            fails.append(("aworset-assoc-" + "+".join(cls),
                          "AWORSet Merge is not associative on states %s: %s vs %s" % ([case["lawset"][ix] for ix in lf["at"]], json.dumps(lf["l"]), json.dumps(lf["r"]))))
        else:
            fails.append(("%s-%s" % (typ, law), "%s law %s fails at %s: %s vs %s" % (typ, law, lf["at"], json.dumps(lf["l"])[:300], json.dumps(lf["r"])[:300])))
    # at most one failure per signature per case
    seen, out = set(), []
    for s, w in fails:
        if s not in seen:
            seen.add(s); out.append((s, w))
    return out


def nontrivial(case, ts):
    g = Ghost(case, ts or [0] * len(case["ops"]))
    ws = [u for u in g.events if not isinstance(g.events[u]["writer"], tuple)]
    if len({g.events[u]["writer"] for u in ws}) < 2:
        return False
    for x in ws:
        for y in ws:
            if x < y and x not in g.events[y]["past"] and y not in g.events[x]["past"]:
                return True
    return False


# ------------------------------------------------------------------ Coq terms

def coq_zl(xs):
    return vlib.coq_list([vlib.coq_Z(x) for x in xs])


def to_coq(case, res):
    """(ops, obs, fin) for gc_check/aw_check/lww_check. X is expanded into writes of a pseudo replica + snapshot."""
    typ = case["type"]
    ops, obs = [], []
    for i, op in enumerate(case["ops"]):
        k = op[0]
        rd = res["reads"][i]
        if k == "W":
            if typ == "gcounter":
                ops.append("OWrite %s %s" % (vlib.coq_Z(op[1]), vlib.coq_Z(op[2])))
                obs.append("Some (Some %s)" % vlib.coq_Z(rd))
            elif typ == "aworset":
                ops.append("OWrite %s (%s, %s)" % (vlib.coq_Z(op[1]), vlib.coq_Z(op[2]), vlib.coq_Z(op[3])))
                obs.append("Some (Some %s)" % coq_zl(rd))
            else:
                ops.append("OWrite %s (%s, %s, %s)" % (vlib.coq_Z(op[1]), vlib.coq_Z(op[2]), vlib.coq_Z(op[3]), vlib.coq_Z(res["t0"][i])))
                obs.append("Some (Some %s)" % coq_zl(rd))
        elif k == "S":
            ops.append("OSnap %s %s" % (vlib.coq_Z(op[1]), vlib.coq_bool(op[2] == 1)))
            obs.append("Some None")
        elif k == "D":
            ops.append("ODeliver %s %d%%nat" % (vlib.coq_Z(op[1]), op[2]))
            obs.append("Some (Some %s)" % (vlib.coq_Z(rd) if typ == "gcounter" else coq_zl(rd)))
        elif k == "X":
            pr = 1000000 + i
            for cmd, ps in ((ADD, op[1]), (REM, op[2])):
                for e, t in ps:
                    ops.append("OWrite %s (%s, %s, %s)" % (vlib.coq_Z(pr), vlib.coq_Z(cmd), vlib.coq_Z(e), vlib.coq_Z(t)))
                    obs.append("None")
            ops.append("OSnap %s false" % vlib.coq_Z(pr))
            obs.append("Some None")
    fin = []
    for r, v in sorted(res["final"].items(), key=lambda kv: int(kv[0])):
        fin.append("(%s, %s)" % (vlib.coq_Z(int(r)), vlib.coq_Z(v) if typ == "gcounter" else coq_zl(v)))
    fn = {"gcounter": "gc_check", "aworset": "aw_check", "lww": "lww_check"}[typ]
    return "%s %s %s %s" % (fn, vlib.coq_list(ops), vlib.coq_list(obs), vlib.coq_list(fin))


# ------------------------------------------------------------------ driver

def corpus():
    out = []
    d = os.path.join(vlib.VERIF, "corpus", "C12")
    if os.path.isdir(d):
        for f in sorted(os.listdir(d)):
            if f.endswith(".json"):
                c = json.load(open(os.path.join(d, f)))
                c["kind"] = c.get("kind", "corpus")
                out.append(c)
    return out


def strip(c):
    return {k: v for k, v in c.items() if not k.startswith("_")}


def run(ctx):
    rng = ctx.rng
    n = 240 if ctx.tier == "quick" else 6000
    if ctx.replay:
        rp = json.load(open(ctx.replay))
        cases = [rp["case"]]
    else:
        cases = corpus()
        for i in range(n):
            typ = ("gcounter", "aworset", "lww")[i % 3]
            if typ == "gcounter" and rng.random() < 0.1:
                c = gen_malformed_gc(rng)
            elif typ == "gcounter" and rng.random() < 0.15:
                c = gen_gc_zero(rng)
            else:
                c = gen_history(rng, typ)
            c["lawset"] = lawset_for(c, rng)
            cases.append(c)
    for i, c in enumerate(cases):
        c["id"] = i
        c.setdefault("lawset", [])
    rc, res, err = vlib.run_jsonl("c12", [strip(c) for c in cases])
    byid = {r["id"]: r for r in res}
    if rc != 0 or len(byid) != len(cases):
        ctx.breaks.append({"what": "harness c12 failed (rc=%d, %d/%d results)" % (rc, len(byid), len(cases)), "detail": err[-2000:]})
        return
    dist = {}
    for c in cases:
        r = byid[c["id"]]
        c["_res"] = r
        key = "%s/%s" % (c["type"], c.get("kind", "history"))
        dist[key] = dist.get(key, 0) + 1
        ctx.add_case(json.dumps([c["type"], c["ops"]]), not r.get("err") and nontrivial(c, r.get("t0")))
        for sig, what in oracle(c, r, r.get("t0") or []):
            ctx.failures.append({"signature": sig, "what": what, "case": strip(c),
                                 "obs": {"reads": r.get("reads"), "final": r.get("final"), "states": r.get("states"), "laws": r.get("laws")}})
    ctx.extra["input_distribution"] = dist
    ctx.extra["ops_total"] = sum(len(c["ops"]) for c in cases)
    ctx.extra["gob_hops"] = sum(1 for c in cases for o in c["ops"] if o[0] == "S" and o[2] == 1)
    ctx.extra["law_checks_states"] = sum(len(c["lawset"]) for c in cases)
    ctx.samples = [{"type": c["type"], "ops": c["ops"][:12], "go_reads": c["_res"].get("reads", [])[:12], "final": c["_res"].get("final")}
                   for c in cases[:6]]
    # tie B: the model evaluated inside Coq on the same histories
    if ctx.coq_ok:
        good = [c for c in cases if not c["_res"].get("err")]
        shard = 400
        for s in range(0, len(good), shard):
            part = good[s:s + shard]
            body = ("From PGV Require Import C12.Model.\n"
                    "Definition results : list bool :=\n [" + ";\n  ".join(to_coq(c, c["_res"]) for c in part) + "].\n"
                    "Definition M := Eval vm_compute in mismatches_from 0 results.\nPrint M.\n")
            rc, out, err = vlib.coq_eval("C12_cases_%d" % s, body)
            mm = vlib.parse_nat_list(out, "M") if rc == 0 else None
            if mm is None:
                ctx.breaks.append({"what": "correspondence evaluation C12_cases did not compile", "detail": (out + err)[-2000:]})
                break
            for k in mm:
                c = part[k]
                ctx.breaks.append({"what": "correspondence C12/Model.v vs distsys/resources %s differs on a history" % c["type"],
                                   "case": strip(c), "impl": {"reads": c["_res"]["reads"], "final": c["_res"]["final"], "t0": c["_res"]["t0"], "stored_ts": c["_res"]["ts"]},
                                   "model": "gc_check/aw_check/lww_check = false (reads after each op or final reads differ)"})
    if ctx.replay:
        r = cases[0]["_res"]
        print("replay: go reads", r.get("reads"), "final", r.get("final"), "err", r.get("err"))
        print("replay: oracle", oracle(cases[0], r, r.get("t0") or []), "correspondence breaks", len(ctx.breaks))


MANIFEST = {
    "category": "proof",
    "technique": "Coq proofs (semilattice laws on all well-formed states up to an order-insensitive equivalence, invariants over all "
                 "histories lifted by one generic theorem, refutation witnesses for AWORSet) + differential correspondence model vs "
                 "the Go types through resources.CRDTValue and encoding/gob + implementation-side convergence / read-semantics / law oracle",
    "text": ("Theorems in coq/Properties/C12.v, all closed under the global context. GCounter (complete): merge_comm/assoc/idem, "
             "write_inflationary, order_irrelevant, gob_preserves on all well-formed states; for every history (any replicas, writes, "
             "snapshots with/without gob, deliveries of any message any number of times) with non-negative increments summing below 2^31: "
             "reachable_wf, strong_convergence (same delivered updates => same read) and read = sum of the delivered increments. "
             "LWWSet (complete, after two fix: commits): the same laws, write_inflationary for ANY timestamp oracle, gob (decoder accepts the "
             "encoder's stream), strong_convergence and read = 'latest event wins, add wins ties' for every history. AWORSet: compare is the "
             "vector-clock order independently of iteration order, merge_comm, merge_idem, write_inflationary, order_irrelevant, gob_preserves, "
             "read = add entries, reachable_wf; strong convergence and associativity are REFUTED (aworset_convergence_refuted, "
             "aworset_merge_assoc_refuted: witnesses by vm_compute, replayed on the Go code) and recorded as known findings; "
             "positive theorems aworset_convergence_addrem_ordered / aworset_read_addrem_ordered for EVERY history in which no add of an element is "
             "concurrent with a remove of it (adds may be concurrent with adds, removes with removes): exactly the complement of the known-finding "
             "class; contains aw_removes_ordered and aw_sequential, "
             "and aworset_merge_assoc_partial on states with comparable entries."),
    "level_note": ("Trusted: Coq kernel; the hand-written model (tie = differential testing on 240 quick / 6000 thorough histories, so a code "
                   "change is caught only if a generated history reaches it); tla.Value identifiers abstracted to Z; gob primitives; time.Now as oracle. "
                   "AWORSet: convergence is false in general (partial theorems only); failures on elements with a concurrent add/remove pair plus a third "
                   "update are reported as KNOWN-FINDING, every other failure (commutativity, idempotence, inflation, any failure without such a "
                   "pair) is a VIOLATION. Equivalent mutant observed: AWORSet.Read ignoring remMap (add and remove maps are disjoint on reachable states)."),
}
