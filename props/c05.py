"""C05 — value equality, hashing, printing and gob wire encoding are coherent (DESIGN §4 C05)."""
import json, os, itertools, shutil
import vlib
import c05_values as V

ID = "C05"
THEOREMS = "Properties/C05.v"
HARNESS = ["c05"]
LEVEL = "proof"
READY = True
TRUSTED_BASE = [
    "Coq 8.16.1 kernel (coqc, full .vo build); vm_compute in Examples and in the correspondence evaluation",
    "no axioms: Print Assumptions reports 'Closed under the global context' for every theorem of Properties/C05.v",
    "hand-written model coq/C05/Model.v of distsys/tla/value.go (Equal, Hash, String, builders, causal wrapper) and "
    "distsys/hashmap/hashmap.go, tied by differential execution: the harness dumps every value in the iteration order the "
    "runtime holds it, the model is evaluated by vm_compute on exactly that representation",
    "github.com/segmentio/fasthash fnv1a (32 bit) is modelled bit-exactly on N mod 2^32, not imported; compared on every case",
    "github.com/benbjohnson/immutable Map/List are correct persistent containers for every hasher whose Equal is an "
    "equivalence respected by Hash (what Equal_equivalence / Hash_Equal establish); Get is modelled as 'first stored key Equal to the argument'",
    "encoding/gob round-trips primitives, byte strings and registered concrete types (Section hypothesis of gob_roundtrip)",
]
ASSUMPTIONS = [
    "theorems are stated for representations satisfying rep_ok (no two Equal members in a set / function domain), "
    "proved to be established by the constructors and checked on every dumped value",
    "String(): strings over printable ASCII (the statement's scope); other bytes are exercised for Equal/Hash/gob only",
]
RULE = ("one case = 4-7 values derived from one seed value (depth <= 4, width <= 5): the seed, 2 variants equal by construction "
        "(members shuffled, members inserted twice, optionally under causal wrappers), a near-miss differing in one leaf, a cross-kind "
        "relative, an unrelated value; all ordered pairs are compared (so every triple is a transitivity test); plus a HashMap op sequence "
        "over them and a gob stream. Non-trivial = seed depth >= 2 with a variant in another order or a one-leaf near-miss; distinct by canonical case text.")


def gen_case(rng, wrap):
    d = rng.choice([1, 2, 2, 3, 3, 4])
    ascii_only = rng.random() < 0.85
    base = V.gen_value(rng, d, ascii_only, width=rng.choice([2, 3, 5]))
    vals = [base, V.variant(rng, base, wrap), V.variant(rng, base, wrap), V.near_miss(rng, base), V.cross_kind(rng, base)]
    if rng.random() < 0.6:
        vals.append(V.gen_value(rng, rng.randint(0, 2), ascii_only))
    if rng.random() < 0.3:
        vals.append(V.variant(rng, vals[3], wrap))
    if wrap and rng.random() < 0.5:
        vals[0] = ["W", V.gen_clock(rng), vals[0]] if vals[0][0] != "W" else vals[0]
    order = list(range(len(vals)))
    rng.shuffle(order)
    vals = [vals[i] for i in order]
    ops = []
    for _ in range(rng.randint(3, 14)):
        r = rng.random()
        i = rng.randrange(len(vals))
        if r < 0.45:
            ops.append(["set", i, rng.randint(0, 99)])
        elif r < 0.85:
            ops.append(["get", i])
        elif r < 0.95:
            ops.append(["keys"])
        else:
            ops.append(["clear"])
    ops.append(["keys"])
    return {"kind": "wrapped" if wrap else "plain", "vals": vals, "ops": ops, "stream": True, "depth": V.depth(base)}


def gen_collision_case(rng, wrap):
    """sets / function domains with more than 8 entries (immutable.Map switches from an array node to the
    hash trie there) holding members with identical 32-bit hashes and members sharing low hash bits; the same
    containers built in other orders; one member swapped for its collider; cluster members as HashMap keys;
    every value also compared, and used as a HashMap key, after a gob round trip"""
    ms = V.collision_members(rng, 9, 14)
    A = ["S", ms]
    A2 = V.variant(rng, A, wrap)
    j = rng.randrange(len(ms))
    c = V.collider(ms[j])
    if c is not None and V.sem(c) not in {V.sem(m) for m in ms}:
        B = ["S", ms[:j] + [c] + ms[j + 1:]]           # differs from A in one member with the same hash
    else:
        B = V.near_miss(rng, A)
    F = ["F", [[m, V.gen_leaf(rng)] for m in ms]]
    F2 = V.variant(rng, F, wrap, dup=False)
    singles = [m for m in ms if V.collider(m) is not None or any(V.sem(m) in {V.sem(x) for x in cl} for cl in V.COLLISION_CLUSTERS)][:3]
    vals = [A, A2, B, F, F2] + singles
    ops = []
    idx = list(range(len(vals)))
    for _ in range(rng.randint(6, 14)):
        r = rng.random()
        i = rng.choice(idx)
        if r < 0.3:
            ops.append(["set", i, rng.randint(0, 99)])
        elif r < 0.45:
            ops.append(["setg", i, rng.randint(0, 99)])
        elif r < 0.7:
            ops.append(["get", i])
        elif r < 0.92:
            ops.append(["getg", i])
        else:
            ops.append(["keys"])
    ops.append(["keys"])
    return {"kind": "collision", "vals": vals, "ops": ops, "stream": True, "gobcross": True, "depth": 2}


def corpus():
    out = []
    d = os.path.join(vlib.VERIF, "corpus", "C05")
    if os.path.isdir(d):
        for f in sorted(os.listdir(d)):
            if f.endswith(".json"):
                c = json.load(open(os.path.join(d, f)))
                c["corpus_file"] = f
                out.append(c)
    return out


def kind_of(v):
    return V.sem(v)[0]


def oracle(case, res):
    """implementation-side check of the property itself on one case; returns [(signature, what)]"""
    fails = []
    vals = case["vals"]
    n = len(vals)
    if res.get("err") or len(res.get("vals", [])) != n:
        return [("harness-error", "harness failed on the case: %s" % res.get("err"))]
    sems = [V.sem(v) for v in vals]
    eq = res["eq"]
    rv = res["vals"]
    # 1. Equal never fails; equivalence; agrees with the denoted values
    for i in range(n):
        for j in range(n):
            if eq[i][j] < 0:
                fails.append(("equal-panics:%s/%s" % (kind_of(vals[i]), kind_of(vals[j])),
                              "Equal panicked on values %d,%d" % (i, j)))
    if fails:
        return fails
    for i in range(n):
        if eq[i][i] != 1:
            fails.append(("equal-not-reflexive:%s" % kind_of(vals[i]), "value %d is not Equal to itself" % i))
        for j in range(n):
            if eq[i][j] != eq[j][i]:
                fails.append(("equal-not-symmetric:%s" % kind_of(vals[i]), "Equal(%d,%d)=%d but Equal(%d,%d)=%d" % (i, j, eq[i][j], j, i, eq[j][i])))
            want = 1 if sems[i] == sems[j] else 0
            if eq[i][j] != want:
                sig = "equal-order-dependent" if want == 1 else "equal-conflates"
                fails.append(("%s:%s" % (sig, kind_of(vals[i])), "Equal(%d,%d)=%d but the values %s" % (i, j, eq[i][j], "denote the same value" if want else "differ")))
    for i, j, k in itertools.permutations(range(n), 3):
        if eq[i][j] == 1 and eq[j][k] == 1 and eq[i][k] != 1:
            fails.append(("equal-not-transitive:%s" % kind_of(vals[i]), "Equal(%d,%d), Equal(%d,%d) but not Equal(%d,%d)" % (i, j, j, k, i, k)))
            break
    # 2. Equal => equal Hash
    for i in range(n):
        if rv[i]["hash"] < 0:
            fails.append(("hash-panics:%s" % kind_of(vals[i]), "Hash panicked on value %d" % i))
    for i in range(n):
        for j in range(i + 1, n):
            if eq[i][j] == 1 and rv[i]["hash"] != rv[j]["hash"]:
                fails.append(("equal-values-hash-differently:%s" % kind_of(vals[i]),
                              "values %d,%d are Equal but hash to %d and %d" % (i, j, rv[i]["hash"], rv[j]["hash"])))
    # 3. the representation the runtime holds denotes the value built, without duplicate members
    for i in range(n):
        rep = rv[i]["rep"]
        if V.sem(rep) != sems[i]:
            fails.append(("constructor-changes-value:%s" % kind_of(vals[i]), "value %d is held as %s" % (i, json.dumps(rep)[:200])))
        if V.has_dups(rep):
            fails.append(("duplicate-members:%s" % kind_of(vals[i]), "value %d holds two members denoting the same value" % i))
    # 4. gob round trip (fresh encoder/decoder per value, and one shared stream)
    for i in range(n):
        g = rv[i]["gob"]
        if not g.get("ok"):
            fails.append(("gob-fails:%s" % kind_of(vals[i]), "gob round trip of value %d failed: %s" % (i, g.get("err"))))
            continue
        if g["eq_od"] != 1 or g["eq_do"] != 1 or V.sem(g["rep"]) != sems[i]:
            fails.append(("gob-changes-value:%s" % kind_of(vals[i]), "value %d decodes to %s" % (i, json.dumps(g["rep"])[:200])))
        elif V.semw(g["rep"], True) != V.semw(rv[i]["rep"], True):
            fails.append(("gob-loses-clock:%s" % kind_of(vals[i]), "value %d decodes with another causal clock: %s" % (i, json.dumps(g["rep"])[:200])))
        if g["hash"] != rv[i]["hash"]:
            fails.append(("gob-changes-hash:%s" % kind_of(vals[i]), "decoded value %d hashes differently" % i))
    if case.get("stream"):
        st = res.get("stream") or []
        if len(st) != n or any(isinstance(x, str) for x in st):
            fails.append(("gob-stream-fails", "shared gob stream failed: %s" % [x for x in st if isinstance(x, str)][:1]))
        else:
            for i in range(n):
                if V.semw(st[i], True) != V.semw(rv[i]["rep"], True):
                    fails.append(("gob-stream-changes-value:%s" % kind_of(vals[i]), "value %d decodes from the shared stream as %s" % (i, json.dumps(st[i])[:200])))
    # 4b. a decoded value is Equal to an original exactly when they denote the same value
    if case.get("gobcross"):
        geq = res.get("geq") or []
        if len(geq) != n:
            fails.append(("gob-cross-missing", "no decoded-vs-original comparison returned"))
        else:
            for i in range(n):
                for j in range(n):
                    want = 1 if sems[i] == sems[j] else 0
                    if geq[i][j] != want:
                        fails.append(("gob-decoded-equal-wrong:%s" % kind_of(vals[i]),
                                      "decoded value %d Equal original %d = %d, the values %s" % (i, j, geq[i][j], "denote the same value" if want else "differ")))
    # 5. String() is a TLA+ expression denoting the value (printable ASCII only)
    for i in range(n):
        if rv[i].get("serr"):
            fails.append(("string-panics:%s" % kind_of(vals[i]), "String() panicked on value %d" % i))
        elif V.printable_ascii(vals[i]):
            try:
                back = V.parse_tla(rv[i]["str"])
                if V.sem(back) != sems[i]:
                    fails.append(("string-denotes-other-value:%s" % kind_of(vals[i]), "String() of value %d = %r" % (i, rv[i]["str"][:200])))
            except V.ParseError as e:
                fails.append(("string-does-not-parse:%s" % kind_of(vals[i]), "String() of value %d = %r: %s" % (i, rv[i]["str"][:200], e)))
    # 6. HashMap behaves as an association map keyed by the denoted value
    m, order = {}, []
    outs = res.get("ops") or []
    if len(outs) != len(case["ops"]):
        fails.append(("hashmap-harness", "op outputs missing"))
    else:
        for k, (op, out) in enumerate(zip(case["ops"], outs)):
            if isinstance(out, list) and out and out[0] == "panic":
                fails.append(("hashmap-panics", "HashMap op %d %s panicked" % (k, op))); break
            if op[0] in ("set", "setg"):
                s = sems[op[1]]
                if s not in m:
                    order.append(s)
                m[s] = op[2]
            elif op[0] == "clear":
                m, order = {}, []
            elif op[0] in ("get", "getg"):
                s = sems[op[1]]
                want = ["some", m[s]] if s in m else ["none"]
                if out != want:
                    fails.append(("hashmap-get-wrong", "op %d Get(value %d) returned %s, association map says %s" % (k, op[1], out, want))); break
            elif op[0] == "keys":
                ks = [V.sem(x) for x in out[1]]
                if ks != order:
                    sig = "hashmap-keys-duplicate" if len(set(ks)) != len(ks) else "hashmap-keys-wrong"
                    fails.append((sig, "op %d Keys() lists %d keys, association map has %d" % (k, len(ks), len(order)))); break
    return fails


def nontrivial(case):
    vals = case["vals"]
    sems = [V.sem(v) for v in vals]
    for i in range(len(vals)):
        if V.depth(vals[i]) < 2:
            continue
        for j in range(len(vals)):
            if i != j and sems[i] == sems[j] and json.dumps(vals[i]) != json.dumps(vals[j]):
                return True
    return case.get("depth", 0) >= 2


def str_sum(bs):
    h = 0
    for b in bs:
        h = (h * 257 + b + 1) % 2305843009213693951
    return h


def to_coq(case, res, with_input=True):
    obs = []
    reps = [json.dumps(r["rep"]) for r in res["vals"]]
    for v, r in zip(case["vals"], res["vals"]):
        g = r["gob"]
        sb = r["str"].encode("utf8")
        if not g.get("ok"):
            gob = "GobFail"
        elif json.dumps(g["rep"]) == json.dumps(r["rep"]):
            gob = "GobSame"
        else:
            gob = "(GobRep %s)" % V.coq_cval(g["rep"], True)
        same_in = json.dumps(v) == json.dumps(r["rep"])      # nothing to build: canon(build x) vs canon x still checked
        obs.append("mkObs %s %s %s %s %s %s %s" % (
            "(Some %s)" % V.coq_cval(v) if with_input or same_in else "None",
            V.coq_cval(r["rep"], True), vlib.coq_N(max(r["hash"], 0)), vlib.coq_N(len(sb)), vlib.coq_N(str_sum(sb)),
            gob, vlib.coq_N(g.get("hash", 0))))
    eqm = vlib.coq_list([vlib.coq_list([vlib.coq_bool(x == 1) for x in row]) for row in res["eq"]])
    geqm = vlib.coq_list([vlib.coq_list([vlib.coq_bool(x == 1) for x in row]) for row in (res.get("geq") or [])])
    greps = [json.dumps(r["gob"].get("rep")) for r in res["vals"]]
    ops = []
    for op, out in zip(case["ops"], res.get("ops") or []):
        if op[0] == "set":
            ops.append("(CSetOp %d (%d)%%Z, RNone)" % (op[1], op[2]))
        elif op[0] == "setg":
            ops.append("(CSetGOp %d (%d)%%Z, RNone)" % (op[1], op[2]))
        elif op[0] == "get":
            ops.append("(CGetOp %d, RGet %s)" % (op[1], "(Some (%d)%%Z)" % out[1] if out[0] == "some" else "None"))
        elif op[0] == "getg":
            ops.append("(CGetGOp %d, RGet %s)" % (op[1], "(Some (%d)%%Z)" % out[1] if out[0] == "some" else "None"))
        elif op[0] == "keys":
            # Keys() returns the very Values that were passed to Set: name them by their index in the case
            # (a key stored by "setg" is the decoded Value: index + 1000 when its dump is not one of the originals')
            idx = [reps.index(json.dumps(x)) if json.dumps(x) in reps else
                   (1000 + greps.index(json.dumps(x))) if json.dumps(x) in greps else len(reps) for x in out[1]]
            ops.append("(CKeysOp, RKeys %s)" % vlib.coq_list(["%d%%nat" % k for k in idx]))
        else:
            ops.append("(CClearOp, RNone)")
    return "(%s, %s, %s, %s)" % (vlib.coq_list(obs), eqm, geqm, vlib.coq_list(ops))


CHECK_NAMES = {1: "rep_okb / cokb of the dumped representation", 2: "canon(rep) = canon(build(input))", 3: "Equal matrix",
               4: "Hash", 5: "String()", 6: "gob round trip (canon, rep_ok, hash)", 7: "HashMap op sequence",
               8: "the Gallina parser on the printed form", 9: "decoded values vs originals (Equal matrix)"}


def run(ctx):
    rng = ctx.rng
    n = 220 if ctx.tier == "quick" else 4000
    if ctx.replay:
        rp = json.load(open(ctx.replay))
        cases = [rp["case"]] if rp.get("case") else corpus()
    else:
        cases = corpus()
        for i in range(n):
            cases.append(gen_collision_case(rng, wrap=(i % 14 == 6)) if i % 7 == 6 else gen_case(rng, wrap=(i % 3 == 2)))
    for i, c in enumerate(cases):
        c["id"] = i
    scratch = "/var/tmp/verif-%d" % os.getpid()
    os.makedirs(scratch, exist_ok=True)
    try:
        # PGO_TRACE_DIR must be in the environment at process start for WrapCausal to wrap
        rc, res, err = vlib.run_jsonl("c05", [{"id": c["id"], "vals": c["vals"], "ops": c["ops"], "stream": c.get("stream", True), "gobcross": c.get("gobcross", False)} for c in cases],
                                      env={"PGO_TRACE_DIR": scratch})
    finally:
        shutil.rmtree(scratch, ignore_errors=True)
    byid = {r["id"]: r for r in res}
    if rc != 0 or len(byid) != len(cases):
        ctx.breaks.append({"what": "harness c05 failed (rc=%d, %d/%d results)" % (rc, len(byid), len(cases)), "detail": err[-2000:]})
        return
    dist = {"plain": 0, "wrapped": 0, "corpus": 0, "collision": 0}
    kinds, depths, pair_classes = {}, {}, {"equal_by_construction": 0, "unequal": 0}
    good = []
    for c in cases:
        r = byid[c["id"]]
        c["_res"] = r
        dist[c.get("kind", "corpus")] = dist.get(c.get("kind", "corpus"), 0) + 1
        sems = [V.sem(v) for v in c["vals"]]
        for v in c["vals"]:
            kinds[kind_of(v)] = kinds.get(kind_of(v), 0) + 1
            depths[V.depth(v)] = depths.get(V.depth(v), 0) + 1
        for i in range(len(sems)):
            for j in range(i + 1, len(sems)):
                pair_classes["equal_by_construction" if sems[i] == sems[j] else "unequal"] += 1
        ctx.add_case(json.dumps([c["vals"], c["ops"]]), nontrivial(c))
        fl = oracle(c, r)
        for sig, what in fl:
            ctx.failures.append({"signature": sig, "what": what, "case": {k: v for k, v in c.items() if not k.startswith("_")}, "obs": r})
        if not fl and not r.get("err"):
            good.append(c)
    ctx.extra["input_distribution"] = dist
    ctx.extra["value_kinds"] = kinds
    ctx.extra["value_depths"] = {str(k): v for k, v in sorted(depths.items())}
    ctx.extra["pair_classes"] = pair_classes
    ctx.samples = [{"vals": c["vals"][:3], "eq": c["_res"]["eq"], "hashes": [x["hash"] for x in c["_res"]["vals"]][:3],
                    "strings": [x["str"][:80] for x in c["_res"]["vals"]][:3]} for c in cases[:4]]
    # tie B: the model evaluated inside Coq on the dumped representations (4 shards at a time)
    if ctx.coq_ok:
        from concurrent.futures import ThreadPoolExecutor
        shard = 50
        parts = [good[s:s + shard] for s in range(0, len(good), shard)]

        def ev(k):
            part = parts[k]
            body = ("From PGV Require Import C05.Model.\n"
                    "Definition M := Eval vm_compute in mismatches_from 0\n [" +
                    ";\n ".join(to_coq(c, c["_res"], with_input=(c["id"] % 2 == 0 or c.get("kind") == "corpus")) for c in part) + "].\nPrint M.\n")
            rc, out, err = vlib.coq_eval("C05_cases_%d" % k, body)
            return k, rc, out, err

        with ThreadPoolExecutor(max_workers=6) as ex:
            results = list(ex.map(ev, range(len(parts))))
        for k, rc, out, err in results:
            part = parts[k]
            mm = vlib.parse_nat_list(out, "M") if rc == 0 else None
            if mm is None:
                ctx.breaks.append({"what": "correspondence evaluation C05_cases did not compile", "detail": (out + err)[-2000:]})
                break
            for code in mm:
                c = part[code // 10]
                ctx.breaks.append({"what": "correspondence C05/Model.v vs distsys/tla differs: " + CHECK_NAMES.get(code % 10, "?"),
                                   "case": {k2: v for k2, v in c.items() if not k2.startswith("_")},
                                   "impl": c["_res"], "model": "check %d failed" % (code % 10)})
        ctx.extra["model_evaluated_cases"] = len(good)
    if ctx.replay:
        print("replay: oracle", [oracle(c, c["_res"]) for c in cases][:3], "correspondence breaks", [b["what"] for b in ctx.breaks])


MANIFEST = {
    "category": "proof",
    "technique": "Coq proof (Equal <-> canonical-form equality by nested induction; hash congruence; hashmap refinement; gob round trip under an explicit codec hypothesis; token-level print/parse) + differential correspondence of the model with value.go/vclock.go/hashmap.go on representations dumped in the runtime's iteration order",
    "text": ("Theorems in coq/Properties/C05.v, all closed under the global context: Equal_spec (for every two representations the builders can produce, of any depth and "
             "iteration order, a.Equal(b) iff both denote the same canonical value), Equal_equivalence, rep_ok_decided, Hash_Equal (fnv1a modelled bit-exactly), hashmap_refines "
             "(every Set/Clear sequence behaves as an association map keyed by the denoted value, Keys lists each key once), EqualC_transparent/HashC_transparent (causal wrappers at "
             "any depth), MakeSet_establishes_rep_ok, gob_roundtrip (decode(encode c) = c incl. vector clocks, under the hypothesis that gob reads back what it wrote), "
             "print_parse (byte level: parse (print v) = Some v for every value; via print_is_rendered_tokens, parse_print_tokens, lexer_inverts_render)."),
    "level_note": ("Nothing partial; strconv.Quote outside printable ASCII is outside the model and the statement. immutable.Map is abstracted (Get = first Equal key); encoding/gob is a hypothesis; the tie between model and Go is differential testing "
                   "(220 quick / 4000 thorough cases, 13 seeded mutations all caught, see notes/C05.md)."),
}
