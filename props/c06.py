"""C06 — mailboxes and channels are reliable FIFO exactly-once transactional links (DESIGN §4 C06).
Model coq/C06/Model.v, theorems coq/Properties/C06.v, harness harness/cmd/c06."""
import json, os
import vlib

ID = "C06"
THEOREMS = "Properties/C06.v"
HARNESS = ["c06"]
LEVEL = "proof"
READY = True
TRUSTED_BASE = [
    "Coq 8.16.1 kernel (coqc, full .vo build); vm_compute in the refutation witness, the non-vacuity Examples and the correspondence evaluation",
    "no axioms: Print Assumptions reports 'Closed under the global context' for every theorem of Properties/C06.v",
    "hand-written model coq/C06/Model.v of tcpmailboxes.go, relaxedmailboxes.go, channels.go, customch.go (through mailboxes.go / incmap.go), "
    "tied by differential execution over loopback sockets (harness/cmd/c06, single driver thread)",
    "TCP and gob deliver a connection's bytes in order; data written before a close is still delivered; a Go channel serves blocked "
    "senders first-come-first-served; handleConn's 'write ack; msgChannel <- batch' is one step of the model (a handler is not "
    "stalled between the two for longer than the peer's write time-out)",
    "one receiver is modelled: receivers share no state (each index of a Mailboxes IncMap is its own object)",
]
ASSUMPTIONS = [
    "absent connection failure: the resend path of tcpMailboxesRemote.Commit is not an event of the model, because in the model (theorem "
    "commit_ack_independent_of_receiver) a handler that holds an unprocessed commit record is never blocked on the receive queue: the "
    "acknowledgement cannot be delayed by a slow or stopped receiver, only by a failed connection or a handler goroutine that is not "
    "scheduled for longer than the write time-out. The harness never excludes a case for having taken that path: the oracle judges it",
    "CustomInChan's TRUE on time-out is a tick, not a message",
]
RULE = ("cases = scripted schedules from one PRNG (VERIF_SEED) over 127.0.0.1:0 sockets / Go channels: kinds tcp (1-3 senders), relaxed, "
        "chan (OutputChan and plain producers into InputChan or CustomInChan); receive queue size 0-3; 15-60 driver steps: sender write / "
        "pre-commit / commit / abort, receiver read / commit / abort / length, with aborts on both sides, pre-commit time-outs forced by a "
        "full receive queue, large values that fill the socket buffers (write time-out, reconnect), relaxed-mailbox bursts of 15-90 messages "
        "written back to back into a queue of 1-3 with a slow receiver and a 1 s write time-out (back-pressure without any time-out); every case ends with a drain. "
        "Non-trivial = >= 2 senders or >= 1 abort on each side; distinct by canonical op text.")

READ_MS, WRITE_MS, DIAL_MS = 20, 60, 150


# ------------------------------------------------------------------ python simulation (generator guidance only)

class Sim:
    def __init__(self, kinds, cap):
        self.kinds, self.cap = kinds, cap
        self.snd = [dict(phase="idle", cur=[], conns=[], open=False, seq=0) for _ in kinds]
        self.queue, self.backlog, self.inprog = [], [], []

    def blocked(self, s, k):
        return any(e[0] == s and e[1] == k for e in self.queue[self.cap:])

    def ensure(self, s):
        x = self.snd[s]
        if not x["open"]:
            x["conns"].append(dict(stream=[], begun=False, buf=[], ack=False)); x["open"] = True

    def cur_conn(self, s):
        return self.snd[s]["conns"][-1]

    def deliver(self, s, k):
        if self.blocked(s, k):
            return False
        c = self.snd[s]["conns"][k]
        if not c["stream"]:
            return False
        r = c["stream"].pop(0)
        if r[0] == "begin":
            c["buf"] = []; c["begun"] = True
        elif r[0] == "value":
            c["buf"].append(r[1])
        elif r[0] == "pre":
            c["ack"] = True
        elif r[0] == "commit":
            c["ack"] = True
            if c["buf"]:
                self.queue.append((s, k, list(c["buf"])))
            c["buf"] = []; c["begun"] = False
        elif r[0] == "plain":
            self.queue.append((s, k, [r[1]]))
        return True

    def settle(self):
        for _ in range(2):
            for s, kd in enumerate(self.kinds):
                x = self.snd[s]
                if kd == "out" and x["phase"] == "pushing":
                    while x["cur"] and not self.blocked(s, 0):
                        self.queue.append((s, 0, [x["cur"].pop(0)]))
                    if not x["cur"] and not self.blocked(s, 0):
                        x["phase"] = "idle"
            for s, kd in enumerate(self.kinds):
                if kd in ("tcp", "relaxed"):
                    for k in range(len(self.snd[s]["conns"])):
                        while self.deliver(s, k):
                            pass

    def chan_len(self):
        return min(self.cap, len(self.queue))

    def read(self):
        if self.backlog:
            p = self.backlog.pop(0); self.inprog.append(p); return p[1]
        if self.queue:
            s, k, b = self.queue.pop(0)
            self.inprog.append((s, b[0])); self.backlog = [(s, m) for m in b[1:]]
            return b[0]
        return None

    def length(self):
        if not self.backlog and self.queue and self.chan_len() > 0:
            s, k, b = self.queue.pop(0)
            self.backlog = [(s, m) for m in b]
        return len(self.backlog)


def gen_case(rng, tier):
    r = rng.random()
    if r < 0.55:
        kind = "tcp"; nsend = rng.randint(1, 3); kinds = ["tcp"] * nsend
    elif r < 0.75:
        kind = "relaxed"; nsend = rng.randint(1, 2); kinds = ["relaxed"] * nsend
    else:
        kind = "chan"; nsend = rng.randint(1, 3); kinds = [rng.choice(["out", "prod"]) for _ in range(nsend)]
    cap = rng.choice([0, 1, 1, 2, 3]) if kind != "chan" else rng.choice([1, 1, 2, 3])
    if kind == "relaxed" and cap == 0:
        cap = 1
    custom = kind == "chan" and rng.random() < 0.35
    sim = Sim(kinds, cap)
    ops = []
    nsteps = rng.randint(15, 60 if tier == "quick" else 100)
    recv_open = False

    racy = [False]

    def sync():
        """let the asynchronous hand-over finish before the next step (what can be observed is awaited, the rest gets a moment)"""
        sim.settle()
        if len(sim.queue) <= sim.cap:
            ops.append(["waitq", sim.chan_len()])
        else:
            ops.append(["quiesce"])
            # two different senders' goroutines waiting for the same full queue: who gets in first after a read is a race
            # between goroutines that the script cannot observe; such a schedule is checked by the oracle only
            if len(set(e[0] for e in sim.queue[sim.cap:])) >= 2 or \
               (len(set(e[0] for e in sim.queue)) >= 2 and any(x["conns"] and x["conns"][-1]["stream"] for x in sim.snd)):
                racy[0] = True

    def sender_step(s):
        x = sim.snd[s]; kd = kinds[s]
        if kd == "tcp":
            ph = x["phase"]
            if ph in ("idle", "writing"):
                c = rng.random()
                if ph == "idle" or c < 0.5:
                    m = s * 1000 + x["seq"]; x["seq"] += 1
                    ops.append(["w", s, m])
                    sim.ensure(s)
                    if ph == "idle":
                        sim.cur_conn(s)["stream"].append(("begin",)); x["phase"] = "writing"; x["cur"] = []
                    sim.cur_conn(s)["stream"].append(("value", m)); x["cur"].append(m)
                elif c < 0.85:
                    ops.append(["pc", s])
                    sim.cur_conn(s)["stream"].append(("pre",))
                    sim.settle()
                    if sim.cur_conn(s)["ack"]:
                        sim.cur_conn(s)["ack"] = False; x["phase"] = "preok"
                    else:  # handler blocked: time-out, connection closed, the context aborts
                        x["open"] = False; x["phase"] = "idle"; x["cur"] = []
                        ops.append(["a", s])
                else:
                    ops.append(["a", s]); x["phase"] = "idle"; x["cur"] = []
            elif ph == "preok":
                if rng.random() < 0.85:
                    ops.append(["c", s])
                    sim.cur_conn(s)["stream"].append(("commit",))
                    sim.settle()
                    sim.cur_conn(s)["ack"] = False; x["phase"] = "idle"; x["cur"] = []
                    sync()
                else:
                    ops.append(["a", s]); x["phase"] = "idle"; x["cur"] = []
        elif kd == "relaxed":
            m = s * 1000 + x["seq"]; x["seq"] += 1
            ops.append(["w", s, m]); sim.ensure(s); sim.cur_conn(s)["stream"].append(("plain", m))
            ops.append(["c", s])
            sync()
        elif kd == "out":
            ph = x["phase"]
            if ph == "pushing":
                ops.append(["cw", s]); sync()
            elif ph == "idle" or (ph == "writing" and rng.random() < 0.5):
                m = s * 1000 + x["seq"]; x["seq"] += 1
                ops.append(["w", s, m]); x["phase"] = "writing"; x["cur"].append(m)
            elif rng.random() < 0.8:
                ops.append(["c", s]); x["phase"] = "pushing"; sync()
            else:
                ops.append(["a", s]); x["phase"] = "idle"; x["cur"] = []
        else:  # prod
            if not sim.blocked(s, 0) and len(sim.queue) < max(cap, 1):
                m = s * 1000 + x["seq"]; x["seq"] += 1
                ops.append(["p", s, m]); sim.queue.append((s, 0, [m])); sync()
        sim.settle()

    def receiver_step():
        nonlocal recv_open
        c = rng.random()
        if c < 0.55:
            ops.append(["r"]); recv_open = True
            m = sim.read()
            if m is not None:
                sync()
            if m is None and not custom:
                ops.append(["ra"]); sim.backlog = sim.inprog + sim.backlog; sim.inprog = []; recv_open = False
        elif c < 0.75:
            ops.append(["rc"]); sim.inprog = []; recv_open = False
        elif c < 0.88:
            ops.append(["ra"]); sim.backlog = sim.inprog + sim.backlog; sim.inprog = []; recv_open = False
        elif kind != "chan":
            ops.append(["waitq", sim.chan_len()]); ops.append(["len"]); sim.length()
            if rng.random() < 0.6:
                # the same section reads the length, consumes what is there, and reads the length again
                # (the length resource is committed / aborted with the section, not after each read)
                for _ in range(rng.randint(1, 3)):
                    sim.settle()
                    if not sim.backlog and not sim.queue:
                        break
                    ops.append(["r"]); recv_open = True; sim.read(); sync()
                ops.append(["waitq", sim.chan_len()]); ops.append(["len"]); sim.length()
        sim.settle()

    for _ in range(nsteps):
        if rng.random() < 0.6:
            sender_step(rng.randrange(nsend))
        else:
            receiver_step()
    # wind down the senders
    for s in range(nsend):
        x = sim.snd[s]
        if kinds[s] == "tcp" and x["phase"] in ("writing", "preok"):
            ops.append(["a", s]); x["phase"] = "idle"; x["cur"] = []
        if kinds[s] == "out" and x["phase"] == "writing":
            ops.append(["a", s]); x["phase"] = "idle"; x["cur"] = []
    # drain
    if recv_open:
        ops.append(["rc"]); sim.inprog = []
    sim.settle()
    guard = 0
    while guard < 400:
        guard += 1
        for s in range(nsend):
            if kinds[s] == "out" and sim.snd[s]["phase"] == "pushing":
                ops.append(["cw", s])
        sim.settle()
        if not sim.backlog and not sim.queue:
            break
        sim.read()
        ops.append(["r"])
        sync()
        sim.settle()
    ops.append(["rc"]); sim.inprog = []
    # nothing more may come: one more read must time out (tick for CustomInChan)
    ops.append(["r"])
    if not custom:
        ops.append(["ra"])
    ops.append(["rc"])
    return {"kind": kind, "nsend": nsend, "cap": cap, "read_ms": READ_MS, "write_ms": WRITE_MS, "dial_ms": DIAL_MS,
            "custom": custom, "senders": kinds, "ops": ops, "racy": racy[0]}


def gen_backpressure(rng, relaxed):
    """large values: the receive queue (size 1) is not read, the socket buffers fill, a write (or pre-commit) times out,
    the next section goes through a new connection; then everything is drained"""
    kind = "relaxed" if relaxed else "tcp"
    ops = [["fill", 0, 0, 60, 256], ["big", 0, 999, 256]]
    ops += [["c", 0]] if relaxed else [["pc", 0], ["c", 0]]
    for _ in range(64):
        ops += [["r"], ["rc"]]
    return {"kind": kind, "nsend": 1, "cap": 1, "read_ms": READ_MS, "write_ms": WRITE_MS, "dial_ms": DIAL_MS, "custom": False,
            "senders": [kind], "ops": ops}


def gen_relaxed_burst(rng, tier):
    """relaxed mailboxes under back-pressure WITHOUT time-outs: small receive queue, slow receiver, long write time-out,
    messages written back to back (they pile up in the socket and behind the handler), reads in between, drain"""
    nsend = rng.choice([1, 1, 1, 2])
    cap = rng.choice([1, 1, 2, 3])
    ops = []
    seq = [0] * nsend
    total = 0
    nread = 0
    for _ in range(rng.randint(2, 4)):
        s = rng.randrange(nsend)
        n = rng.randint(15, 90)
        ops.append(["burst", s, s * 1000 + seq[s], n, 0]); seq[s] += n; total += n
        insec = 0
        for _ in range(rng.randint(0, min(12, total - nread))):
            ops.append(["r"]); insec += 1
            if rng.random() < 0.3:
                ops.append(["rc"]); nread += insec; insec = 0
        if rng.random() < 0.8:
            ops.append(["rc"]); nread += insec
        else:
            ops.append(["ra"])          # the reads of this section will be redelivered
    # drain in sections of one read each (a read that times out under load then rolls back nothing), with some slack;
    # the last reads must time out: nothing more may come
    for _ in range(total - nread + 5):
        ops += [["r"], ["rc"]]
    return {"kind": "relaxed", "nsend": nsend, "cap": cap, "read_ms": READ_MS, "write_ms": 1000, "dial_ms": DIAL_MS, "custom": False,
            "senders": ["relaxed"] * nsend, "ops": ops, "racy": nsend >= 2, "burst": True}


def gen_ostress(rng, tier, raw=True):
    """OutputChan -> Go channel of capacity 1-3 -> concurrent consumer (plain Go code polling the channel, as a client of an
    OutputChan does, or an InputChan): sections of 3-8 values, the channel fills and drains in the middle of commits"""
    return {"kind": "chan", "nsend": 1, "cap": rng.choice([1, 2, 3]), "read_ms": READ_MS, "write_ms": WRITE_MS, "dial_ms": DIAL_MS,
            "custom": False, "senders": ["out"], "ops": [],
            "ostress": {"sections": 400 if tier == "quick" else 1500, "seed": rng.randrange(1 << 30), "raw": raw,
                        # long sections keep the commit loop running long enough for the consumer to get in between two of
                        # its iterations even on a loaded machine; 8 = the 3-8 values of ordinary sections
                        "maxlen": rng.choice([8, 40, 60]) if raw else 8}}


def oracle_ostress(case, out):
    if out.get("err"):
        return [("blocked-forever:outputchan-concurrent" if out["err"] == "hang" else "crash:outputchan-concurrent", out["err"][:200])]
    sent, got = out.get("sent") or [], out.get("got") or []
    if sent == got:
        return []
    k = next((i for i in range(min(len(sent), len(got))) if sent[i] != got[i]), min(len(sent), len(got)))
    if len(set(got)) < len(got):
        sig = "duplicated:outputchan-concurrent"
    elif any(m not in got for m in sent):
        sig = "lost:outputchan-concurrent"
    else:
        sig = "reordered:outputchan-concurrent"
    return [(sig, "consumer obtained %s ... where the committed sections sent %s ... (first difference at position %d of %d; channel capacity %d)"
             % (got[max(0, k - 3):k + 6], sent[max(0, k - 3):k + 6], k, len(sent), case["cap"]))]


def expand(case, out):
    """flat op / result lists: a `fill` / `burst` step is replaced by the sections it ran (as the harness reports them)"""
    ops, res = [], []
    rs = out.get("res") or []
    for op, r in zip(case["ops"], rs):
        if op[0] not in ("fill", "burst") or r["st"] != "ok":
            ops.append(op); res.append(r); continue
        s, pad = op[1], op[4]
        tcp = case["senders"][s] == "tcp"
        for ent in (r.get("v") or []):
            i, code = ent[0], ent[1]
            conn = ent[2] if len(ent) > 2 else ""
            wop = ["big", s, i, pad] if pad else ["w", s, i]
            if code == "wabort":
                ops.append(wop); res.append({"st": "abort", "v": None}); continue
            ops.append(wop); res.append({"st": "ok", "v": None, "conn": conn})
            if tcp:
                ops.append(["pc", s]); res.append({"st": "ok" if code in ("ok", "pending") else "abort", "v": None})
                if code not in ("ok", "pending"):
                    continue
            ops.append(["c", s]); res.append({"st": "pending" if code == "pending" else "ok", "v": None})
    if len(rs) < len(case["ops"]):
        ops += case["ops"][len(rs):]
    return ops, res


# ------------------------------------------------------------------ implementation-side oracle (independent of the model)

def oracle(case, ops, out):
    fails = []
    res = out.get("res") or []
    kinds = case["senders"]
    if len(res) != len(ops):
        return [("harness-output-length", "harness returned %d results for %d ops (%s)" % (len(res), len(ops), out.get("err")))]
    for k, (op, r) in enumerate(zip(ops, res)):
        if r["st"] == "hang":
            return [("blocked-forever:" + op[0], "step %d %s did not return" % (k, op))]
        if r["st"].startswith("panic") or r["st"].startswith("err"):
            return [("crash:" + op[0], "step %d %s: %s" % (k, op, r["st"]))]
    n = case["nsend"]
    cur = [[] for _ in range(n)]          # messages of the sender section in flight
    sent = [[] for _ in range(n)]         # committed sections (lists)
    got = []                              # (sender, msg) obtained by committed receiver sections, in order
    inprog = []
    redeliver = []
    conn_of = {}                          # message -> connection of its sender it was written to (read-only hook)
    switch_ok = {}                        # (sender, connection) -> a write of that sender timed out right before it was opened
    last_conn = [None] * n
    pending_abort = [False] * n

    def owner(m):
        return m // 1000

    def flat(s):
        return [m for sec in sent[s] for m in sec]

    for k, (op, r) in enumerate(zip(ops, res)):
        name = op[0]
        st = r["st"]
        if st == "skip":
            continue
        if name in ("w", "big"):
            s = op[1]
            if st == "ok":
                cn = r.get("conn") or ""
                conn_of[op[2]] = cn
                if last_conn[s] is not None and cn != last_conn[s]:
                    switch_ok[(s, cn)] = pending_abort[s]
                last_conn[s] = cn; pending_abort[s] = False
                if kinds[s] == "relaxed":
                    sent[s].append([op[2]])
                else:
                    cur[s].append(op[2])
            else:
                pending_abort[s] = True
                cur[s] = []
        elif name == "pc":
            if st != "ok":
                cur[op[1]] = []
        elif name == "c":
            s = op[1]
            if kinds[s] in ("tcp", "out") and st in ("ok", "pending") and cur[s]:
                sent[s].append(cur[s]); cur[s] = []
        elif name == "a":
            cur[op[1]] = []
        elif name == "p":
            if st == "ok":
                sent[op[1]].append([op[2]])
        elif name == "r":
            if st == "ok":
                m = r["v"]
                if redeliver:
                    exp = redeliver.pop(0)
                    if exp != m:
                        fails.append(("redelivery-order:" + case["kind"], "step %d: read %s after an abort, the aborted reads still to come were %s" % (k, m, [exp] + redeliver)))
                        redeliver = []
                inprog.append(m)
            elif st == "abort":
                # the read timed out: the section is aborted (the harness calls Abort as MPCalContext would)
                redeliver = inprog + redeliver; inprog = []
        elif name == "rc":
            got += inprog; inprog = []
            for s in range(n):
                gs = [m for m in got if owner(m) == s]
                fs = flat(s)
                if gs != fs[:len(gs)]:
                    fails.append((classify(case, gs, fs, s, conn_of, switch_ok), "after step %d the committed receiver sections hold %s from sender %d, its committed sections sent %s" % (k, gs, s, fs)))
                    return fails
        elif name == "ra":
            redeliver = inprog + redeliver; inprog = []
        elif name == "len":
            if st == "ok":
                pend = sum(len(flat(s)) for s in range(n)) - len(got) - len(inprog)
                if r["v"] > pend:
                    fails.append(("length-exceeds-pending:" + case["kind"], "step %d: length() = %d, only %d messages pending" % (k, r["v"], pend)))
    # after the drain nothing may be missing
    drained = len(ops) >= 2 and any(o[0] == "r" and rr["st"] in ("abort", "tick") for o, rr in zip(ops[-4:], res[-4:]))
    pending_out = any(o[0] in ("c", "cw") and rr["st"] == "pending" for o, rr in zip(ops, res)) and \
        not all(rr["st"] != "pending" for o, rr in zip(ops, res) if o[0] == "cw")
    if drained:
        for s in range(n):
            gs = [m for m in got if owner(m) == s]
            fs = flat(s)
            if gs != fs:
                fails.append((classify(case, gs, fs, s, conn_of, switch_ok, final=True), "after the drain the receiver holds %s from sender %d, its committed sections sent %s" % (gs, s, fs)))
                return fails
    # contiguity of the sections of TCP senders in the receiver's sequence
    if case["kind"] == "tcp":
        pos = 0
        seq = got
        i = 0
        nexts = [0] * n
        while i < len(seq):
            s = owner(seq[i])
            if nexts[s] >= len(sent[s]):
                break
            sec = sent[s][nexts[s]]
            chunk = seq[i:i + len(sec)]
            if chunk != sec[:len(chunk)]:
                fails.append(("batch-not-contiguous", "receiver sequence %s: section %s of sender %d is interleaved or partial" % (seq, sec, s)))
                break
            i += len(sec); nexts[s] += 1
    return fails


def load_explainable(case, ops, out, fails):
    """an oracle failure that a deadline missed by a runnable goroutine can explain: something did not return within the
    per-step deadline, or a TCP Commit took its resend path / stayed pending (commit acknowledgement later than the write
    time-out - commit_ack_independent_of_receiver says the receiver cannot cause that)"""
    res = out.get("res") or []
    if any(r["st"] == "hang" for r in res) or out.get("commit_resend"):
        return True
    return case["kind"] == "tcp" and any(op[0] == "c" and r["st"] == "pending" for op, r in zip(ops, res))


def classify(case, gs, fs, s, conn_of, switch_ok, final=False):
    """signature of a per-sender sequence mismatch.  The known finding is recognised only by what is specific to it: a
    relaxed sender whose write really timed out, which then really opened a new connection (identity of the sender's
    socket, read through the verif hook), and a pure overtaking of messages of an older connection by messages of a
    newer one - the order inside every single connection intact, nothing lost, nothing twice.  Anything else on a
    relaxed mailbox (in particular any reordering on a single connection, the class relaxed_fifo_single_connection
    covers) has its own signature and is a violation."""
    kind = case["kind"]
    if len(set(gs)) < len(gs):
        return "duplicated:" + kind
    if any(m not in fs for m in gs):
        return "invented-or-aborted-delivered:" + kind
    if final and len(gs) < len(fs) and gs == [m for m in fs if m in gs]:
        return "lost:" + kind
    # every message is one the sender committed, none twice, but not in the order sent
    if kind != "relaxed":
        return "reordered:" + kind
    conns = []
    for m in fs:
        c = conn_of.get(m, "")
        if c not in conns:
            conns.append(c)
    if len(conns) <= 1 or "" in conns:
        return "reordered:relaxed-single-connection"
    for c in conns:
        rc_ = [m for m in gs if conn_of.get(m) == c]
        if rc_ != [m for m in fs if conn_of.get(m) == c][:len(rc_)]:
            return "reordered:relaxed-within-connection"
    if not all(switch_ok.get((s, c), False) for c in conns[1:]):
        return "reordered:relaxed-reconnect-without-timeout"
    return "relaxed-reorder-after-write-timeout-reconnect"


def nontrivial(case, ops, out):
    res = out.get("res") or []
    if case["nsend"] >= 2:
        return True
    sa = any(o[0] == "a" for o in ops) or any(o[0] in ("w", "big", "pc") and r["st"] == "abort" for o, r in zip(ops, res))
    ra = any(o[0] == "ra" for o in ops)
    return sa and ra


# ------------------------------------------------------------------ correspondence with the Coq model

KIND_COQ = {"tcp": "KTcp", "relaxed": "KRelaxed", "out": "KOut", "prod": "KProd"}


def to_items(case, ops, out):
    res = out.get("res") or []
    kinds = case["senders"]
    items = []
    phase = ["idle"] * case["nsend"]   # tracked from the implementation's answers
    for op, r in zip(ops, res):
        name, st = op[0], r["st"]
        if st in ("skip",):
            continue
        if name == "waitq":
            continue
        if st not in ("ok", "abort", "tick", "pending", "full", "timeout"):
            return items, "step %s returned %s" % (op, st)
        if name in ("w", "big"):
            s = op[1]; kd = kinds[s]
            if kd == "tcp":
                if st == "ok":
                    items.append("IEv (SWrite %d (%d)%%Z) ONone" % (s, op[2])); phase[s] = "writing"
                else:
                    items.append("IEv (SDrop %d) ONone" % s); phase[s] = "idle"
            elif kd == "relaxed":
                items.append(("IEv (XWrite %d (%d)%%Z) ONone" % (s, op[2])) if st == "ok" else ("IEv (XDrop %d) ONone" % s))
            elif kd == "out":
                items.append("IEv (OWrite %d (%d)%%Z) ONone" % (s, op[2])); phase[s] = "writing"
        elif name == "pc":
            s = op[1]
            if kinds[s] == "tcp" and phase[s] == "writing":
                items.append("IEv (SPreCommit %d) ONone" % s)
                if st == "ok":
                    items.append("IEv (SPreAck %d) ONone" % s); phase[s] = "preok"
                else:
                    # the acknowledgement did not come within the write time-out: the code may legitimately take this
                    # time-out at any moment (loaded machine), the model's SDrop is enabled throughout SPreWait
                    items.append("IEv (SDrop %d) ONone" % s); phase[s] = "idle"
        elif name == "c":
            s = op[1]; kd = kinds[s]
            if kd == "tcp" and phase[s] == "preok":
                if st == "pending":
                    return items, "Commit of sender %d did not get its acknowledgement (in the model the handler acknowledges a commit record without waiting for the receive queue: commit_ack_independent_of_receiver)" % s
                items.append("IEv (SCommit %d) ONone" % s); items.append("IEv (SComAck %d) ONone" % s); phase[s] = "idle"
            elif kd == "out" and phase[s] == "writing":
                items.append("IEv (OCommit %d) ONone" % s); phase[s] = "idle"
        elif name == "a":
            s = op[1]; kd = kinds[s]
            if kd == "tcp" and phase[s] in ("writing", "preok"):
                items.append("IEv (SAbort %d) ONone" % s)
            elif kd == "out" and phase[s] == "writing":
                items.append("IEv (OAbort %d) ONone" % s)
            phase[s] = "idle"
        elif name == "p":
            if st == "ok":
                items.append("IEv (PPush %d (%d)%%Z) ONone" % (op[1], op[2]))
        elif name == "r":
            if st == "ok":
                items.append("IEv RRead (OMsg (%d)%%Z)" % r["v"])
            elif st == "tick":
                items.append("IEv RTick OTick")
            else:
                items.append("IEv RReadTimeout ONone")
        elif name == "rc":
            items.append("IEv RCommitE ONone")
        elif name == "ra":
            items.append("IEv RAbort ONone")
        elif name == "len":
            items.append("IEv RLen (ONum %d)" % r["v"])
        elif name == "quiesce":
            pass
        elif name == "waitq":
            pass   # settling only: never decides anything by itself
    return items, None


def run_chunks(cases, timeout=1500, chunk=20):
    """one harness process per chunk: a Commit that never completes (its goroutine retries for ever) dies with its process"""
    res, errs, rc = [], "", 0
    for i in range(0, len(cases), chunk):
        rc1, res1, err1 = vlib.run_jsonl("c06", cases[i:i + chunk], timeout=timeout)
        res += res1; errs += err1[-500:]; rc = rc or rc1
    return rc, res, errs


def corpus():
    out = []
    d = os.path.join(vlib.VERIF, "corpus", "C06")
    if os.path.isdir(d):
        for f in sorted(os.listdir(d)):
            if f.endswith(".json"):
                c = json.load(open(os.path.join(d, f)))
                out.append(c.get("case", c))
    return out


def strip(c):
    return {k: v for k, v in c.items() if not k.startswith("_")}


def run(ctx):
    rng = ctx.rng
    n = 140 if ctx.tier == "quick" else 2500
    if ctx.replay:
        cases = [json.load(open(ctx.replay))["case"]]
    else:
        cases = corpus()
        for k in range(n):
            cases.append(gen_case(rng, ctx.tier))
        for k in range(1 if ctx.tier == "quick" else 3):
            cases.append(gen_backpressure(rng, True))
            cases.append(gen_backpressure(rng, False))
        for k in range(8 if ctx.tier == "quick" else 60):
            cases.append(gen_relaxed_burst(rng, ctx.tier))
        for k in range(6 if ctx.tier == "quick" else 40):
            cases.append(gen_ostress(rng, ctx.tier, raw=(k % 3 != 2)))
    for k, c in enumerate(cases):
        c["id"] = k
    plain = cases
    rc, res, err = run_chunks([strip(c) for c in plain])
    byid = {r["id"]: r for r in res}
    if rc != 0 or len(byid) != len(plain):
        ctx.breaks.append({"what": "harness c06 failed (rc=%d, %d/%d results)" % (rc, len(byid), len(plain)), "detail": err[-2000:]})
        return
    dist = {"tcp": 0, "relaxed": 0, "chan": 0, "custom_in_chan": 0, "steps": 0, "sender_aborts": 0, "precommit_timeouts": 0,
            "write_timeouts": 0, "receiver_aborts": 0, "read_timeouts": 0, "len_calls": 0, "not_run": 0,
            "messages_received": 0}
    for c in cases:
        o = byid[c["id"]]
        ops, flat_res = expand(c, o)
        o = dict(o, res=flat_res)
        c["_out"] = o
        c["_ops"] = ops
        if (o.get("err") or "").startswith("not run"):
            c["_skipped"] = True; dist["not_run"] += 1
            continue
        rs = o.get("res") or []
        dist[c["kind"]] += 1
        dist["oracle_only_racy"] = dist.get("oracle_only_racy", 0) + (1 if c.get("racy") or (c["ops"] and c["ops"][0][0] == "fill") else 0)
        dist["custom_in_chan"] += 1 if c.get("custom") else 0
        dist["relaxed_backpressure_no_timeout"] = dist.get("relaxed_backpressure_no_timeout", 0) + (1 if c.get("burst") else 0)
        dist["steps"] += len(ops)
        dist["sender_aborts"] += sum(1 for op in ops if op[0] == "a")
        dist["precommit_timeouts"] += sum(1 for op, r in zip(ops, rs) if op[0] == "pc" and r["st"] == "abort")
        dist["write_timeouts"] += sum(1 for op, r in zip(ops, rs) if op[0] in ("w", "big") and r["st"] == "abort")
        dist["receiver_aborts"] += sum(1 for op in ops if op[0] == "ra")
        dist["read_timeouts"] += sum(1 for op, r in zip(ops, rs) if op[0] == "r" and r["st"] == "abort")
        dist["len_calls"] += sum(1 for op in ops if op[0] == "len")
        dist["messages_received"] += sum(1 for op, r in zip(ops, rs) if op[0] == "r" and r["st"] == "ok")
        if c.get("ostress"):
            dist["outputchan_concurrent"] = dist.get("outputchan_concurrent", 0) + 1
            dist["outputchan_concurrent_values"] = dist.get("outputchan_concurrent_values", 0) + len(o.get("sent") or [])
            c["_skipped"] = True   # genuinely concurrent: oracle only
            ctx.add_case(json.dumps(["ostress", c["cap"], c["ostress"]]), True)
            for sig, what in oracle_ostress(c, o):
                ctx.failures.append({"signature": sig, "what": what, "case": strip(c), "obs": {"got": (o.get("got") or [])[:400], "err": o.get("err")}})
            continue
        ctx.add_case(json.dumps([c["kind"], c["nsend"], c["cap"], c.get("custom"), c["senders"], ops]), nontrivial(c, ops, o))
        if o.get("err"):
            ctx.breaks.append({"what": "harness reported an error on a case: " + o["err"][:200], "case": strip(c), "impl": o})
        if o.get("commit_resend"):
            # tcpMailboxesRemote.Commit did not get its acknowledgement within the write time-out and went through its
            # resend loop.  The connection did not fail (loopback), so this is inside the statement: the oracle judges it
            dist["commit_resend_seen"] = dist.get("commit_resend_seen", 0) + 1
        fl = oracle(c, ops, o)
        if fl and load_explainable(c, ops, o, fl):
            c["_deferred"] = fl      # judged after the re-check with every time-out x5
        else:
            for sig, what in fl:
                ctx.failures.append({"signature": sig, "what": what, "case": dict(strip(c), ops=ops), "obs": o})
    ctx.extra["input_distribution"] = dist
    ctx.samples = [{"kind": c["kind"], "nsend": c["nsend"], "cap": c["cap"], "ops": c["_ops"][:18],
                    "impl": [(r["st"], r.get("v")) for r in (c["_out"].get("res") or [])[:18]]}
                   for c in cases[:60] if not c.get("_skipped") and c["ops"] and c["ops"][0][0] != "fill"][:4]
    if dist["not_run"]:
        ctx.breaks.append({"what": "%d cases not run because earlier cases blocked forever" % dist["not_run"]})
    # tie B
    def coq_mismatches(part, tag):
        items_txt = []
        probs = {}
        for k, c in enumerate(part):
            if c.get("_skipped") or not c["ops"] or c["ops"][0][0] == "fill" or c.get("racy"):
                # fill cases: which of two racing handlers (each decoding a 256 KB value) reaches the queue first
                # is not determined by the script; they are checked by the oracle only
                items_txt.append("([], 1%nat, [])"); continue
            items, prob = to_items(c, c["_ops"], c["_out"])
            if prob:
                probs[k] = prob
            items_txt.append("(%s, %d%%nat,\n  [%s])" % (vlib.coq_list([KIND_COQ[x] for x in c["senders"]]), c["cap"], ";\n   ".join(items)))
        body = ("From PGV Require Import C06.Model.\n"
                "Definition cases : list (list skind * nat * list item) :=\n [" + ";\n ".join(items_txt) + "].\n"
                "Definition M := Eval vm_compute in mismatches_from 0 cases.\nPrint M.\n")
        rc, outc, errc = vlib.coq_eval("C06_cases_%s" % tag, body)
        mm = vlib.parse_nat_list(outc, "M") if rc == 0 else None
        if mm is None:
            ctx.breaks.append({"what": "correspondence evaluation C06_cases did not compile", "detail": (outc + errc)[-2000:]})
            return None, probs
        return mm, probs

    suspects = []
    if ctx.coq_ok:
        shard = 300
        for s0 in range(0, len(cases), shard):
            part = cases[s0:s0 + shard]
            mm, probs = coq_mismatches(part, str(s0))
            if mm is None:
                break
            suspects += [part[k] for k in sorted(set(mm) | set(probs))]
    for c in cases:
        if c.get("_deferred") and c not in suspects:
            suspects.append(c)
    # Re-check.  Deadlines (read / write / dial time-outs, the 3 ms settling pause, the wait for a Commit) are the only
    # thing in a schedule that depends on how loaded the machine is.  A schedule on which model and implementation
    # disagree, or whose oracle failure can be explained by a deadline missed by a runnable goroutine (hang, commit
    # acknowledgement later than the write time-out), is run again in a fresh harness process with every time-out x5,
    # up to three times; it is reported only if it fails every time (a changed implementation differs every time).
    ctx.extra["rechecked_with_slow_timeouts"] = len(suspects)
    cleared = 0
    suspects.sort(key=lambda c: 0 if c.get("_deferred") else 1)
    confirmed = False
    if suspects and not ctx.replay:
        for c in suspects:
            if confirmed:
                # one schedule has failed three times in a row with slow time-outs: the verdict is settled, the others are
                # dropped unjudged rather than paid for (a changed implementation can make dozens of schedules suspect)
                c["_cleared"] = True; c["_deferred"] = None
                ctx.extra["suspects_not_rechecked"] = ctx.extra.get("suspects_not_rechecked", 0) + 1
                continue
            ok = False
            for attempt in range(3):
                rc2, res2, _ = vlib.run_jsonl("c06", [dict(strip(c), slow=5)], timeout=600)
                if rc2 != 0 or not res2:
                    continue
                o = res2[0]
                ops, flat_res = expand(c, o)
                c["_ops"], c["_out"] = ops, dict(o, res=flat_res)
                fl = oracle(c, ops, c["_out"])
                c["_deferred"] = fl
                bad_model = False
                if ctx.coq_ok and not fl:
                    mm, probs = coq_mismatches([c], "recheck")
                    bad_model = bool(mm) or bool(probs) or mm is None
                if not fl and not bad_model:
                    ok = True
                    break
            if ok:
                cleared += 1; c["_cleared"] = True; c["_deferred"] = None
            else:
                confirmed = True
    ctx.extra["cleared_by_recheck"] = cleared
    for c in suspects:
        if c.get("_cleared"):
            continue
        if c.get("_deferred"):
            for sig, what in c["_deferred"]:
                ctx.failures.append({"signature": sig, "what": what, "case": dict(strip(c), ops=c["_ops"]), "obs": c["_out"]})
            continue
        items, prob = to_items(c, c["_ops"], c["_out"])
        ctx.breaks.append({"what": "correspondence C06/Model.v vs the mailbox/channel code differs on a schedule (every time, also with all time-outs x5)" +
                           (": " + prob if prob else ""),
                           "case": dict(strip(c), ops=c["_ops"]), "impl": c["_out"],
                           "model": "check_run rejected the implementation's observations"})
    if ctx.replay:
        c = cases[0]
        print("replay: ops", json.dumps(c["_ops"]))
        print("replay: impl results", json.dumps(c["_out"]))
        print("replay: oracle", oracle(c, c["_ops"], c["_out"]), "correspondence breaks", len(ctx.breaks))


MANIFEST = {
    "category": "proof",
    "technique": "Coq proof (inductive invariants over all event lists of a transition system with any number of senders) + refutation witness for relaxed mailboxes + differential correspondence over loopback sockets",
    "text": "see notes/C06.md",
    "level_note": "Trusted: Coq kernel; hand-written model tied by differential testing; TCP/gob in-order delivery; Go channel FIFO among blocked senders.",
}
