"""C14 — generated primary-backup store (pbkvs): ConsistencyOK, assertion freedom, linearizability (DESIGN §4 C14)."""
import json, os, concurrent.futures
import vlib

ID = "C14"
THEOREMS = "Properties/C14.v"
HARNESS = ["c14"]
LEVEL = "proof"
READY = True
TRUSTED_BASE = [
    "Coq 8.16.1 kernel (coqc, full .vo build); vm_compute used in the refutation witnesses, the non-vacuity Examples and the correspondence evaluation",
    "no axioms: Print Assumptions reports 'Closed under the global context' for every theorem of Properties/C14.v",
    "hand-written typed model coq/C14/Model.v of pbkvs.tla / pbkvs.go (one event = one label of one process with its either/mayFail/CHOOSE choices), "
    "tied to the REAL generated archetypes by differential execution: harness/cmd/c14 runs pbkvs.AReplica/AClient under the real Run loop "
    "(harness/steplib gate FairnessCounter, trace recorder) and the full spec state is compared with the model's after every step (coq/C14/Corr.v, vm_compute)",
    "the deployment resources (TCP mailboxes, failure detector, file system, leader election stub) are replaced by spec-state resources that implement "
    "the mapping macros of pbkvs.tla; that a label is atomic and a link FIFO exactly-once is C01/C06/C07, that fd is perfect is the statement's hypothesis; "
    "the wiring of systems/pbkvs/bootstrap is checked separately (wiring mode: fs and primary are the resources bootstrap wires; wiring probe: index "
    "mapping of net / netLen / fd over loopback); the deployed leader election is a constant stub (known finding): the theorems are about the spec's failover",
    "CHOOSE r \\in replicaSet : TRUE is modelled as an arbitrary element (the element the Go code took is observed and handed to the model)",
    "int32 version numbers / request ids are modelled by unbounded naturals",
]
ASSUMPTIONS = [
    "client inputs are Get(k) / Put(k,v) requests (typ GET_REQ with body [key], typ PUT_REQ with body [key,value])",
    "crash-stop only through the spec's mayFail choice (label boundaries); perfect failure detector (fd[r] set by r's failLabel)",
]
RULE = ("cases = seeded random walks (VERIF_SEED) of the real generated archetypes for 1-4 replicas, 1-3 clients, 1-3 keys, 2-8 client operations, "
        "EXPLORE_FAIL on (85%) or off; crash choice biased towards the current primary inside sndReplicaReqLoop/rcvReplicaRespLoop/sndSyncReqLoop, never "
        "crashing the last replica; 10% of the dictated either-branches are the ones that look disabled (abort path); >= 2 distinct keys in 5 of 6 walks; "
        "plus the failover family (props/c14.py failover_scenario: scripted prefix = the primary crashes at a chosen attempt of sndReplicaReqLoop / "
        "rcvReplicaRespLoop with chosen progress of every backup, the writer slow, another client's Get / Put of the other key first at the new primary, "
        "3-4 replicas, two keys; also a double failover on 4 replicas (the second leader crashes mid-sync) and a dead low-id backup with a slow live "
        "backup and no primary crash; systematic grid corpus/C14/failover_family.json (48) + seeded random members); plus corpus/C14 explicit schedules "
        "(Coq witnesses). Non-trivial = the walk contains a crash, a failover sync, or a state with non-empty queues at >= 2 nodes; distinct by canonical schedule text.")

LABELS_R = {"replicaLoop": "ReplicaLoop", "syncPrimary": "SyncPrimary", "sndSyncReqLoop": "SndSyncReqLoop",
            "rcvSyncRespLoop": "RcvSyncRespLoop", "rcvMsg": "RcvMsg", "handleBackup": "HandleBackup",
            "handlePrimary": "HandlePrimary", "sndReplicaReqLoop": "SndReplicaReqLoop",
            "rcvReplicaRespLoop": "RcvReplicaRespLoop", "sndResp": "SndResp", "failLabel": "FailLabel", "Done": "RDone"}
LABELS_C = {"clientLoop": "ClientLoop", "sndReq": "SndReq", "rcvResp": "RcvResp", "Done": "CDone"}
MTYP = {1: "GET_REQ", 2: "GET_RESP", 3: "PUT_REQ", 4: "PUT_RESP", 5: "SYNC_REQ", 6: "SYNC_RESP"}
SRC = {1: "CLIENT_SRC", 2: "PRIMARY_SRC", 3: "BACKUP_SRC"}


class Untranslatable(Exception):
    pass


def dec(x):
    """steplib encoding -> python (records -> dict, tuples/sets -> list)"""
    if isinstance(x, dict):
        if "t" in x:
            return [dec(e) for e in x["t"]]
        if "s" in x:
            return sorted(dec(e) for e in x["s"])
        if "f" in x:
            return {(k if not isinstance(k, (dict, list)) else json.dumps(k)): dec(v) for k, v in x["f"]}
    return x


def lab(pc):
    return pc.split(".", 1)[1] if "." in pc else pc


# ---------------------------------------------------------------- translation to Coq terms

class Interner:
    def __init__(self):
        self.defs, self.names = [], {}

    def name(self, prefix, ty, term):
        k = (ty, term)
        if k not in self.names:
            n = "%s%d" % (prefix, len(self.names))
            self.names[k] = n
            self.defs.append("Definition %s : %s := %s." % (n, ty, term))
        return self.names[k]


def coq_opt(x, f):
    return "None" if x is None else "(Some %s)" % f(x)


def coq_body(b):
    if not isinstance(b, dict):
        raise Untranslatable("body %r" % (b,))
    ks = set(b.keys())
    if ks == {"key", "value"}:
        return "(BReq %s (Some %s))" % (vlib.coq_str(b["key"]), vlib.coq_str(b["value"]))
    if ks == {"key"}:
        return "(BReq %s None)" % vlib.coq_str(b["key"])
    if ks == {"versionNumber"}:
        return "(BPut %d None)" % b["versionNumber"]
    if ks == {"versionNumber", "key", "value"}:
        return "(BPut %d (Some (%s, %s)))" % (b["versionNumber"], vlib.coq_str(b["key"]), vlib.coq_str(b["value"]))
    if ks == {"content"}:
        return "(BContent %s)" % vlib.coq_str(b["content"])
    raise Untranslatable("body %r" % (b,))


def coq_msg(m, I):
    if not isinstance(m, dict) or set(m.keys()) != {"from", "to", "body", "srcTyp", "typ", "id"}:
        raise Untranslatable("msg %r" % (m,))
    return I.name("m", "msg", "mkMsg %d %d %s %s %s %d" % (m["from"], m["to"], coq_body(m["body"]), SRC[m["srcTyp"]], MTYP[m["typ"]], m["id"]))


def coq_cmsg(m, I):
    if not isinstance(m, dict) or set(m.keys()) != {"typ", "body"}:
        raise Untranslatable("cmsg %r" % (m,))
    return I.name("cm", "cmsg", "mkCmsg %s %s" % (MTYP[m["typ"]], coq_body(m["body"])))


def coq_rlocal(loc, I):
    pc = LABELS_R[lab(loc["pc"])]
    req = dec(loc.get("req"))
    rb = dec(loc.get("respBody"))
    rt = loc.get("respTyp")
    idx = loc.get("idx") or 0
    rs = dec(loc.get("replicaSet")) or []
    ss = loc.get("shouldSync", False)
    lpb = dec(loc["lastPutBody"]) if "lastPutBody" in loc else {"versionNumber": 0}
    t = "mkR %s %s %s %s %d %s %s %s" % (
        pc, coq_opt(req, lambda m: coq_msg(m, I)), coq_opt(rb, coq_body), coq_opt(rt, lambda x: MTYP[x]), idx,
        vlib.coq_list(["%d" % r for r in rs]), vlib.coq_bool(ss), coq_body(lpb))
    return I.name("r", "rlocal", t)


def coq_clocal(loc, I):
    pc = LABELS_C[lab(loc["pc"])]
    msg = dec(loc.get("msg"))
    rep = loc.get("replica") or 0
    idx = loc.get("idx") or 0
    return I.name("c", "clocal", "mkC %s %s %d %d" % (pc, coq_opt(msg, lambda m: coq_cmsg(m, I)), rep, idx))


def deltas_to_coq(case, d, old, I, keys):
    """d: changed components (raw encoding), old: previous python state (updated in place)"""
    out = []
    nr = case["nr"]
    for comp in sorted(d.keys()):
        v = d[comp]
        if comp.startswith("net:"):
            _, n, c = comp.split(":")
            l = dec(v)
            out.append("DNet %s %s %s %s" % (n, "REQ" if c == "1" else "RESP",
                                             vlib.coq_list([coq_msg(m, I) for m in l["queue"]]), vlib.coq_bool(l["enabled"])))
        elif comp == "fd":
            f = dec(v)
            for r in range(1, nr + 1):
                if old.get("fd", {}).get(r) != f[r]:
                    out.append("DFd %d %s" % (r, vlib.coq_bool(f[r])))
        elif comp == "primary":
            s = set(dec(v))
            olds = set(dec(old["_raw"].get("primary"))) if old["_raw"].get("primary") is not None else None
            for r in range(1, nr + 1):
                if olds is None or ((r in s) != (r in olds)):
                    out.append("DPrim %d %s" % (r, vlib.coq_bool(r in s)))
        elif comp.startswith("fs:"):
            r = int(comp.split(":")[1])
            f = dec(v)
            of = dec(old["_raw"].get(comp)) if old["_raw"].get(comp) is not None else {}
            for k in keys:
                if of.get(k) != f.get(k, ""):
                    out.append("DFs %d %s %s" % (r, vlib.coq_str(k), vlib.coq_str(f.get(k, ""))))
        elif comp == "cin":
            out.append("DCin %s" % vlib.coq_list([coq_cmsg(m, I) for m in dec(v)]))
        elif comp == "cout":
            out.append("DCout %s" % coq_opt(v, vlib.coq_str))
        elif comp.startswith("loc:"):
            p = int(comp.split(":")[1])
            if p <= nr:
                out.append("DRl %d %s" % (p, coq_rlocal(v, I)))
            else:
                out.append("DCl %d %s" % (p, coq_clocal(v, I)))
        else:
            raise Untranslatable("component " + comp)
    return out


CLASS = {"commit": "OCommit", "abort": "OAbort", "error:assert": "OAssert", "error:tlatype": "OType"}


def case_to_coq(case, res, idx):
    """Coq text defining check result of one case; raises Untranslatable"""
    I = Interner()
    keys = case_keys(case)
    st = {"_raw": {}}
    init_d = deltas_to_coq(case, res["init"], st, I, keys)
    apply_raw(st, res["init"])
    steps = []
    for s in res["steps"]:
        if s["out"] == "finished":
            continue
        if s["out"] not in CLASS:
            raise Untranslatable("outcome " + s["out"])
        ds = deltas_to_coq(case, s["d"], st, I, keys)
        apply_raw(st, s["d"])
        for h in hist_events(s, st):
            if h[0] == "inv":
                ds.append("DHist (HInv %d %s)" % (h[1], coq_cmsg(h[2], I)))
            else:
                ds.append("DHist (HRes %d %s)" % (h[1], vlib.coq_str(h[2])))
        steps.append("mkOs (Ev %d (mkCh %s %s %d)) %s %s" % (s["p"], vlib.coq_bool(s["alt"] == 1), vlib.coq_bool(s["fail"] == 1), s["pick"],
                                                        CLASS[s["out"]], vlib.coq_list(ds)))
    inp = vlib.coq_list([coq_cmsg(input_msg(m), I) for m in case["input"]])
    txt = "Module K%d.\n%s\nDefinition res := check_case (mkCfg %d %d %s) %s %s\n %s\n %s.\nEnd K%d.\n" % (
        idx, "\n".join(I.defs), case["nr"], case["nc"], vlib.coq_bool(case["ef"]),
        vlib.coq_list([vlib.coq_str(k) for k in keys]), inp, vlib.coq_list(init_d), vlib.coq_list(steps).replace("; mkOs", ";\n  mkOs"), idx)
    return txt


def input_msg(m):
    b = {"key": m["key"]}
    if m.get("value") is not None:
        b["value"] = m["value"]
    return {"typ": m["typ"], "body": b}


def case_keys(case):
    return sorted(set(["KEY1"] + [m["key"] for m in case["input"]]))


# ---------------------------------------------------------------- python-side view of the Go state

def apply_raw(st, d):
    for k, v in d.items():
        st["_raw"][k] = v
        if k == "fd":
            st["fd"] = dec(v)


def hist_events(s, st):
    """history events produced by a committed step (st = state after it)"""
    if s["out"] != "commit":
        return []
    loc = st["_raw"].get("loc:%d" % s["p"], {})
    if s["label"] == "clientLoop":
        return [("inv", s["p"], dec(loc.get("msg")))]
    if s["label"] == "rcvResp" and s["pc"] == "clientLoop":
        return [("res", s["p"], st["_raw"].get("cout"))]
    return []


def wiring_classify(note, st, case):
    """a deviation of a resource wired by systems/pbkvs/bootstrap (harness wiring mode) -> (signature, text)"""
    parts = note.split(":")
    if parts[0] == "primary":
        kv = dict(p.split("=", 1) for p in parts[1:] if "=" in p)
        dead1 = lab(st["_raw"].get("loc:1", {}).get("pc", "")) in ("failLabel", "Done", "")
        if kv.get("deployed") == "1" and kv.get("spec") not in (None, "1") and dead1:
            return ("deploy:leader-election-constant-1:no-failover",
                    "the deployed leader election (leaderelection.go) still names replica 1 primary after it crashed; the spec's mapping gives %s" % kv.get("spec"))
        return ("wiring:primary:deployed-differs-from-spec", "the leader-election resource wired by bootstrap answered %s, the spec's LeaderElection mapping gives %s (%s)"
                % (kv.get("deployed"), kv.get("spec"), note))
    if parts[0] == "fs":
        if "foreign-index" in note or "panic" in note:
            return ("wiring:fs:wrong-index", "the fs resource wired by bootstrap was used with / failed on an index that is not the replica's own: " + note)
        return ("wiring:fs:read-is-not-own-last-write", "a replica read from its fs resource a value other than the last one it committed for that key "
                "(fs must be per replica and per key): " + note)
    return ("wiring:other", note)


def probe_kind(d):
    if d.startswith("netLen"):
        return "wrong-mailbox-length"
    if d.startswith("net"):
        return "message-not-at-the-addressed-mailbox"
    if d.startswith("fd"):
        return "failure-detector-watches-the-wrong-replica"
    return "other"


def consistency_ok(case, st):
    """ConsistencyOK of pbkvs.tla evaluated on the observed Go spec state; returns None or a description"""
    raw = st["_raw"]
    alive = [r for r in range(1, case["nr"] + 1) if lab(raw["loc:%d" % r]["pc"]) not in ("failLabel", "Done", "")]
    if not alive:
        return None
    p = min(alive)
    if lab(raw["loc:%d" % p]["pc"]) != "sndResp":
        return None
    fp = dec(raw["fs:%d" % p])
    for r in alive:
        fr = dec(raw["fs:%d" % r])
        for k in set(fp) | set(fr):
            if fp.get(k, "") != fr.get(k, ""):
                return "primary %d at sndResp has fs[%s]=%r but live replica %d has %r" % (p, k, fp.get(k, ""), r, fr.get(k, ""))
    return None


def linearizable(ops):
    """ops: list of dicts {inv, res (or None), typ, key, value, out, extra}; Wing-Gong search.
    A pending operation may or may not take effect."""
    n = len(ops)
    seen = set()

    def go(done_mask, kv):
        if all((done_mask >> i) & 1 or ops[i]["res"] is None for i in range(n)):
            return True
        key = (done_mask, tuple(sorted(kv.items())))
        if key in seen:
            return False
        seen.add(key)
        rem = [i for i in range(n) if not (done_mask >> i) & 1]
        for i in rem:
            o = ops[i]
            if any(ops[j]["res"] is not None and ops[j]["res"] < o["inv"] for j in rem if j != i):
                continue
            if o["typ"] == 3:
                out, kv2 = "ack-body", dict(kv)
                kv2[o["key"]] = o["value"]
            elif o["typ"] == 1:
                out, kv2 = kv.get(o["key"], ""), kv
            else:
                continue
            if o["res"] is not None and out != o["out"]:
                continue
            if go(done_mask | (1 << i), kv2):
                return True
        return False
    return go(0, {})


def history_ops(hist, sends):
    """hist: list of ('inv', c, msg) / ('res', c, out); sends: per (client, op number) count of committed sends"""
    ops, open_ = [], {}
    cnt = {}
    for pos, h in enumerate(hist):
        if h[0] == "inv":
            m = h[2]
            cnt[h[1]] = cnt.get(h[1], 0) + 1
            o = {"client": h[1], "inv": pos, "res": None, "typ": m["typ"], "key": m["body"].get("key"), "value": m["body"].get("value"),
                 "out": None, "sends": sends.get((h[1], cnt[h[1]]), 0)}
            ops.append(o); open_[h[1]] = o
        else:
            o = open_.pop(h[1], None)
            if o is None:
                ops.append({"client": h[1], "inv": pos, "res": pos, "typ": 0, "key": None, "value": None, "out": h[2], "sends": 0})
            else:
                o["res"], o["out"] = pos, h[2]
    return ops


def lin_classify(ops):
    """None if linearizable; else a signature"""
    if linearizable(ops):
        return None
    # relaxed reading: a Put that the client sent k > 1 times (retry after the primary crashed) may take effect up to k times
    relaxed = list(ops)
    resent = False
    for o in ops:
        if o["typ"] == 3 and o["sends"] > 1:
            resent = True
            for _ in range(o["sends"] - 1):
                relaxed.append(dict(o, res=None, out=None))
    if resent and linearizable(relaxed):
        return "lin:resent-put-applied-more-than-once"
    return "lin:not-linearizable"


# ---------------------------------------------------------------- generation

def gen_case(rng, tier):
    nr = rng.choice([1, 2, 2, 3, 3, 3, 4, 4])
    nc = rng.choice([1, 1, 2, 2, 3])
    ef = rng.random() < 0.85
    nkeys = rng.choice([1, 2, 2, 2, 3, 3])     # >= 2 keys in 5 of 6 walks (the TLA+ model checks one key; the Go code takes any)
    keys = ["KEY1", "k2", "k3"][:nkeys]
    nops = rng.randint(2, 8)
    inp = []
    for i in range(nops):
        k = keys[i] if i < nkeys else rng.choice(keys)   # every key of the case is used
        if rng.random() < 0.6:
            inp.append({"typ": 3, "key": k, "value": "v%d" % (i + 1)})
        else:
            inp.append({"typ": 1, "key": k})
    n = rng.randint(120, 320) if tier == "quick" else rng.randint(150, 900)
    case = {"nr": nr, "nc": nc, "ef": ef, "input": inp,
            "walk": {"seed": rng.randrange(1, 2 ** 31), "n": n, "pcrash": rng.choice([0.0, 0.01, 0.03]),
                     "pcrashp": rng.choice([0.05, 0.15, 0.3]), "pwrong": 0.1}}
    if nr >= 3 and ef and rng.random() < 0.3:
        # failover sync that starts from a stale version (restart of the sync, stale answers with >= 2 backups)
        k = inp[0]["key"]
        case["input"] = [{"typ": 3, "key": k, "value": "w1"}, {"typ": 3, "key": k, "value": "w2"}] + inp
        case["steps"] = restart_prefix(rng, nr, nc)
    return case


def restart_prefix(rng, nr, nc):
    """explicit prefix (nr >= 3): Put 1 is fully replicated; the primary crashes while replicating Put 2 after
    sending it to replicas 2..j; replicas 3..j apply it while replica 2 has not looked at it yet, so that
    replica 2's failover sync starts from the old version and is restarted by a backup's answer"""
    c = nr + 1
    st = []
    def rep(p, n, alt=0, fail=0):
        st.extend([[p, alt, fail]] * n)
    for r in range(1, nr + 1):
        rep(r, 2)
    rep(c, 2); rep(1, 2); rep(1, nr + 1)
    for r in range(2, nr + 1):
        rep(r, 2)
    rep(1, nr); rep(1, 3); rep(c, 1)
    rep(c, 2); rep(1, 2); rep(1, 1)
    j = rng.randint(3, nr)
    for i in range(2, j):
        rep(1, 1)
    rep(1, 1, 0, 1)          # send to j and crash
    rep(1, 1)                # failLabel
    for r in range(3, j + 1):
        rep(r, 3); rep(r, 1, 1, 0)
    return st


def failover_scenario(P):
    """targeted failover family (parameters P, see corpus/C14/failover_family.json): the primary crashes in the middle of
    replicating Put(k1, A) - mode "snd": together with the send of the PUT_REQ to replica j (j = 2..nr, one value per
    attempt of sndReplicaReqLoop); mode "rcv": after all sends, together with its (acks+1)-th attempt of
    rcvReplicaRespLoop - while each backup b that got the PUT_REQ has progressed depth[b] labels (0 = has not looked at
    it, 1 = at handleBackup, 2 = applied and acknowledged, 4 = back in rcvMsg). The writer X stays slow (frozen: no retry)
    while ANOTHER client's request - "get" of k1, "put_other" Put(k2, B), "put_same" Put(k1, B) - is the first thing the new
    primary sees; "fast" lets the new primary run alone as far as it can; "pre" puts one fully replicated Put before
    (shouldSync set, versions > 0). Two distinct keys, 3-4 replicas. The prefix is scripted (harness "script": every
    attempt is a normal step, replays are explicit [p, alt, fail] lists), the rest is a seeded walk."""
    nr, nc = P["nr"], P["nc"]
    X = nr + 1
    k1, k2 = P.get("keys", ["KEY1", "k2"])
    inp = []
    if P.get("pre"):
        inp.append({"typ": 3, "key": P.get("pre_key", k2), "value": "p0"})
    inp.append({"typ": 3, "key": k1, "value": "A"})
    inp.append({"get": {"typ": 1, "key": k1}, "put_other": {"typ": 3, "key": k2, "value": "B"},
                "put_same": {"typ": 3, "key": k1, "value": "B"}}[P["follow"]])
    inp.append({"typ": 1, "key": k1})
    inp.extend(P.get("tail", [{"typ": 1, "key": k2}, {"typ": 1, "key": k1}]))
    depth = {int(b): d for b, d in P.get("depth", {}).items()}
    sc = []
    def run(p, until, mn=0, mx=8):
        if mx > 0:
            sc.append({"op": "run", "p": p, "until": until, "min": mn, "max": mx})
    def step(p, fail=0, alt=-1):
        sc.append({"op": "step", "p": p, "alt": alt, "fail": fail})
    dead = P.get("dead", [])                  # backups that crash at their very first label (replicaLoop)
    for r in range(1, nr + 1):
        if r in dead:
            step(r, fail=1); step(r)
        else:
            run(r, "rcvMsg", 0, 4)
    if P.get("pre"):
        run(X, "rcvResp", 1, 3)
        run(1, "rcvReplicaRespLoop", 1, nr + 4)
        for b in range(2, nr + 1):
            run(b, "rcvMsg", 1, 6)
        run(1, "rcvMsg", 1, nr + 8)
        run(X, "clientLoop", 1, 2)
    run(X, "rcvResp", 1, 3)
    run(1, "sndReplicaReqLoop", 1, 3)
    if P["mode"] == "snd" and P["j"] == 1:
        step(1, fail=1)                       # crashes at the attempt that skips idx = self: the Put reached nobody (lost)
    else:
        step(1)                               # idx = self
    if P["mode"] == "snd" and P["j"] == 1:
        pass
    elif P["mode"] == "snd":
        j = P["j"]
        for b in range(2, j):
            step(1)
            if P.get("interleave"):
                run(b, "rcvMsg", 1, depth.get(b, 0))
        if not P.get("interleave"):
            for b in range(2, j):
                run(b, "rcvMsg", 1, depth.get(b, 0))
        step(1, fail=1)                       # sends to j and crashes
    elif P["mode"] == "deadbackup":
        # no primary crash: a backup with a small id is dead, the live backups are slow (depth), the primary runs alone:
        # it must not reach sndResp before every live backup has acknowledged
        run(1, "rcvReplicaRespLoop", 1, nr + 2)
        for b in range(2, nr + 1):
            if b not in dead:
                run(b, "rcvMsg", 1, depth.get(b, 0))
        run(1, "sndResp", 0, nr + 6)
    elif P["mode"] == "double":
        # double failover: 1 crashes with the send to replica 2; 2 applies the PUT_REQ, starts its failover sync and crashes
        # with the SYNC_REQ to replica j2; the replicas that got the SYNC_REQ handle it; the next leader must synchronise too
        step(1, fail=1); step(1)
        run(2, "sndSyncReqLoop", 1, 6)
        for i in range(1, P["j2"]):
            step(2)
        step(2, fail=1); step(2)
        for b in range(3, P["j2"] + 1):
            run(b, "syncPrimary", 1, 4)
    else:
        run(1, "rcvReplicaRespLoop", 1, nr + 2)
        for b in P.get("order", list(range(2, nr + 1))):
            run(b, "rcvMsg", 1, depth.get(b, 0))
        for i in range(P.get("acks", 0)):
            step(1)
        step(1, fail=1)                       # takes one more acknowledgement (or notices a dead backup) and crashes
    if P["mode"] in ("snd", "rcv"):
        step(1)                               # failLabel
    for b, d in P.get("after", []):
        run(b, "rcvMsg", 1, d)
    run(P.get("y", nr + 2), "rcvResp", 1, 3)
    if P.get("fast"):
        run({"double": 3, "deadbackup": 1}.get(P["mode"], 2), "sndResp", 0, 20)
    w = dict(P.get("walk", {}))
    walk = {"seed": w.get("seed", 1), "n": w.get("n", 160), "pcrash": w.get("pcrash", 0.0), "pcrashp": w.get("pcrashp", 0.05),
            "pwrong": w.get("pwrong", 0.05), "frozen": [X], "frozen_n": w.get("frozen_n", 60)}
    return {"nr": nr, "nc": nc, "ef": True, "input": inp, "script": sc, "walk": walk,
            "_family": "failover:%s:%s" % (P["mode"], P["follow"])}


def failover_case(rng, tier):
    """random member of the failover family (VERIF_SEED)"""
    nr = rng.choice([3, 3, 4])
    nc = rng.choice([2, 2, 3])
    keys = rng.sample(["KEY1", "k2"], 2)
    P = {"nr": nr, "nc": nc, "keys": keys, "pre": rng.random() < 0.4, "pre_key": rng.choice(keys),
         "follow": rng.choice(["get", "get", "get", "put_other", "put_other", "put_same"]),
         "mode": rng.choice(["snd", "snd", "rcv"]), "j": rng.choice([1] + list(range(2, nr + 1)) * 3), "interleave": rng.random() < 0.5,
         "acks": rng.randint(0, nr - 2), "y": rng.randint(nr + 2, nr + nc), "fast": rng.random() < 0.6}
    P["depth"] = {b: rng.choice([0, 1, 2, 3, 4, 4, 4, 4, 4] if b == 2 else [0, 0, 1, 2, 4, 4]) for b in range(2, nr + 1)}
    order = list(range(2, nr + 1)); rng.shuffle(order)
    P["order"] = order
    P["after"] = [[b, rng.choice([1, 2, 4])] for b in range(2, nr + 1) if rng.random() < 0.25]
    P["tail"] = []
    for i in range(rng.randint(1, 4)):
        k = rng.choice(keys)
        P["tail"].append({"typ": 3, "key": k, "value": "t%d" % i} if rng.random() < 0.4 else {"typ": 1, "key": k})
    r = rng.random()
    if r < 0.15 and nr == 4:
        P.update({"mode": "double", "j2": rng.randint(3, 4), "pre": False})
    elif r < 0.3:
        live = rng.randint(3, nr)
        P.update({"mode": "deadbackup", "dead": [b for b in range(2, live) if rng.random() < 0.7] or [2],
                  "depth": {b: rng.choice([0, 0, 1, 2]) for b in range(2, nr + 1)}})
    P["walk"] = {"seed": rng.randrange(1, 2 ** 31), "n": rng.randint(100, 200) if tier == "quick" else rng.randint(200, 600),
                 "pcrash": rng.choice([0.0, 0.0, 0.01]), "pcrashp": rng.choice([0.0, 0.05, 0.15]), "frozen_n": rng.randint(40, 120)}
    return failover_scenario(P)


def failover_grid():
    """the systematic part of the family (materialised in corpus/C14/failover_family.json): every crash point of
    sndReplicaReqLoop / rcvReplicaRespLoop x {Get, Put of the other key} x {backups have / have not handled the PUT_REQ}
    for 3 and 4 replicas, the new primary fast"""
    out = []
    for nr in (3, 4):
        points = [("snd", j) for j in range(2, nr + 1)] + [("rcv", a) for a in range(0, nr - 1)]
        for mode, x in points:
            for follow in ("get", "put_other"):
                for d in (4, 0):
                    if mode == "snd" and x == 2 and d == 4:
                        continue              # nobody has the PUT_REQ before the crash
                    P = {"nr": nr, "nc": 2, "follow": follow, "mode": mode, "fast": True,
                         "depth": {str(b): d for b in range(2, nr + 1)}, "pre": (len(out) % 3 == 2),
                         "walk": {"seed": 1000 + len(out), "n": 80, "frozen_n": 40}}
                    if mode == "snd":
                        P["j"] = x
                    else:
                        P["acks"] = x
                        if d == 0:
                            P["depth"] = {"2": 4}   # only the future primary has applied and acknowledged
                    out.append(P)
    # the primary crashes before it sent the Put to anybody: the Put is lost, the new primary must not know it
    for nr in (3, 4):
        out.append({"nr": nr, "nc": 2, "follow": "get", "mode": "snd", "j": 1, "fast": True, "pre": nr == 4,
                    "walk": {"seed": 1000 + len(out), "n": 80, "frozen_n": 40}})
    # double failover (4 replicas): the third leader learned the latest Put only through a SYNC_REQ
    for j2 in (3, 4):
        for follow in ("get", "put_other"):
            out.append({"nr": 4, "nc": 2, "follow": follow, "mode": "double", "j2": j2, "fast": True,
                        "walk": {"seed": 1000 + len(out), "n": 80, "frozen_n": 40}})
    # a dead backup with a smaller id than a slow live backup: the primary must wait for the live one
    for nr, dead in ((3, [2]), (4, [2]), (4, [3]), (4, [2, 3])):
        for pre in (False, True):
            out.append({"nr": nr, "nc": 2, "follow": "put_other", "mode": "deadbackup", "dead": dead, "pre": pre, "fast": True,
                        "depth": {}, "walk": {"seed": 1000 + len(out), "n": 80, "frozen_n": 0}})
    return out


def corpus():
    out = []
    d = os.path.join(vlib.VERIF, "corpus", "C14")
    if os.path.isdir(d):
        for f in sorted(os.listdir(d)):
            if f.endswith(".json"):
                c = json.load(open(os.path.join(d, f)))
                if "family" in c:          # parameter grid of a scenario family
                    for i, P in enumerate(c["family"]):
                        k = failover_scenario(P)
                        k["_corpus"] = "%s#%d" % (f, i)
                        out.append(k)
                    continue
                c["_corpus"] = f
                out.append(c)
    return out


def explicit(case, res):
    c = {k: v for k, v in case.items() if k in ("nr", "nc", "ef", "input", "wiring")}
    c["steps"] = [[s["p"], s["alt"], s["fail"]] for s in res["steps"]]
    return c


# ---------------------------------------------------------------- run

def analyse(case, res, ctx, stats):
    """implementation-side oracle on one executed case; returns (nontrivial, failures)"""
    fails = []
    st = {"_raw": {}}
    apply_raw(st, res["init"])
    hist, sends, opno = [], {}, {}
    crash = sync = multiq = False
    restarts = 0
    v = consistency_ok(case, st)
    if v:
        fails.append(("consistency:initial", v))
    for i, s in enumerate(res["steps"]):
        if s["out"] == "finished":
            continue
        stats["steps"] += 1
        stats["labels"][(s["label"], s["out"])] = stats["labels"].get((s["label"], s["out"]), 0) + 1
        apply_raw(st, s["d"])
        for n in s.get("wiring", []):
            sig, what = wiring_classify(n, st, case)
            if not any(f[0] == sig for f in fails):
                fails.append((sig, "wiring mode, step %d (%s of process %d): %s" % (i + 1, s["label"], s["p"], what)))
        for h in hist_events(s, st):
            hist.append(h)
            if h[0] == "inv":
                opno[s["p"]] = opno.get(s["p"], 0) + 1
        if s["out"] == "commit":
            if s["pc"] == "failLabel":
                crash = True; stats["crashes"] += 1
            if s["label"] == "syncPrimary" and s["pc"] == "sndSyncReqLoop":
                sync = True; stats["syncs"] += 1
            if s["label"] == "rcvSyncRespLoop" and s["pc"] == "sndSyncReqLoop":
                restarts += 1; stats["sync_restarts"] += 1
            if s["label"] == "sndReq" and s["pc"] == "rcvResp":
                k = (s["p"], opno.get(s["p"], 0))
                sends[k] = sends.get(k, 0) + 1
                if sends[k] == 2:
                    stats["retries"] += 1
            nq = sum(1 for n in range(1, case["nr"] + case["nc"] + 1)
                     if any(dec(st["_raw"]["net:%d:%d" % (n, c)])["queue"] for c in (1, 2)))
            if nq >= 2:
                multiq = True
            v = consistency_ok(case, st)
            if v and not any(f[0].startswith("consistency") for f in fails):
                fails.append(("consistency:nr%d%s%s" % (case["nr"], ":after-crash" if crash else ":failure-free", ":sync-restart" if restarts else ""),
                              "ConsistencyOK violated after step %d: %s" % (i + 1, v)))
        elif s["out"] == "error:assert":
            stats["asserts"] += 1
            sig = "assert:%s" % s["label"]
            if s["label"] in ("rcvSyncRespLoop", "rcvReplicaRespLoop") and restarts:
                # the known deviation: a SYNC_RESP of a restarted failover sync is at the head of the leader's response queue
                # (an aborted attempt leaves the queue as it was); any other failing assertion is a new violation
                q = dec(st["_raw"].get("net:%d:2" % s["p"], {"f": []}))
                head = (q.get("queue") or [None])[0] if isinstance(q, dict) else None
                if isinstance(head, dict) and head.get("typ") == 6:
                    sig += ":after-sync-restart"
            fails.append((sig, "assertion failed in %s of process %d at step %d: %s" % (s["label"], s["p"], i + 1, s.get("err", "")[:200])))
        elif s["out"] not in ("abort",):
            fails.append(("outcome:%s:%s" % (s["out"], s["label"]), "step %d of process %d (%s): %s %s" % (i + 1, s["p"], s["label"], s["out"], s.get("err", "")[:200])))
    ops = history_ops(hist, sends)
    stats["ops_completed"] += sum(1 for o in ops if o["res"] is not None)
    sig = lin_classify(ops)
    if sig:
        fails.append((sig, "history of acknowledged operations is not linearizable: %s" % json.dumps(
            [[o["client"], "Put" if o["typ"] == 3 else "Get", o["key"], o["value"], o["inv"], o["res"], o["out"], o["sends"]] for o in ops])))
    return (crash or sync or multiq), fails, hist


def run(ctx):
    rng = ctx.rng
    if ctx.replay:
        rp = json.load(open(ctx.replay))
        cases = [rp["case"]]
    else:
        cases = corpus()
        n = 24 if ctx.tier == "quick" else 400
        for i in range(n):
            cases.append(gen_case(rng, ctx.tier))
        for i in range(12 if ctx.tier == "quick" else 150):
            cases.append(failover_case(rng, ctx.tier))
    if not ctx.replay:
        # deployment wiring mode (fs and primary are the resources systems/pbkvs/bootstrap wires): every corpus scenario
        # a second time, and every third random walk
        dup = [dict(c, wiring=True) for j, c in enumerate(cases) if c.get("_corpus") or j % 3 == 0]
        cases.extend(dup)
        # wiring probe: index mapping of net / netLen / fd as wired by bootstrap, over loopback TCP
        cases.append({"probe": True, "nr": 3, "nc": 2, "alive": [1, 3]})
        cases.append({"probe": True, "nr": 4, "nc": 1, "alive": [2]})
    for i, c in enumerate(cases):
        c["id"] = i
    strip = lambda c: {k: v for k, v in c.items() if not k.startswith("_")}
    plain = [c for c in cases if not (c.get("wiring") or c.get("probe"))]
    iso = [c for c in cases if c.get("wiring") or c.get("probe")]
    rc, res, err = vlib.run_jsonl("c14", [strip(c) for c in plain], timeout=1500) if plain else (0, [], "")
    # wiring-mode cases run in a process of their own: a resource that the bootstrap package (wrongly) keeps in a
    # package-level variable must not leak from one case into the next, so that every replay reproduces on its own
    with concurrent.futures.ThreadPoolExecutor(max_workers=4) as ex:
        for rc1, res1, err1 in ex.map(lambda c: vlib.run_jsonl("c14", [strip(c)], timeout=600), iso):
            rc = rc or rc1
            res.extend(res1)
            err += err1[-500:] if rc1 else ""
    byid = {r["id"]: r for r in res}
    if rc != 0 or len(byid) != len(cases):
        ctx.breaks.append({"what": "harness c14 failed (rc=%d, %d/%d results)" % (rc, len(byid), len(cases)), "detail": err[-2000:]})
        return
    stats = {"steps": 0, "labels": {}, "crashes": 0, "syncs": 0, "sync_restarts": 0, "retries": 0, "asserts": 0, "ops_completed": 0}
    coq_texts = []
    for c in cases:
        r = byid[c["id"]]
        if r.get("err"):
            ctx.breaks.append({"what": "harness c14 could not run a case: " + r["err"][:300], "case": {k: v for k, v in c.items() if not k.startswith("_")}})
            continue
        if c.get("probe"):
            pc = {k: v for k, v in c.items() if k != "id"}
            ctx.add_case(json.dumps(pc, sort_keys=True), True)
            stats["probe_checks"] = stats.get("probe_checks", 0) + r.get("checked", 0)
            seen = set()
            for d in r.get("probe", []):
                sig = "wiring:%s:%s" % (d.split(":")[0], probe_kind(d))
                if sig not in seen:
                    seen.add(sig)
                    ctx.failures.append({"signature": sig, "what": "wiring probe (resources wired by systems/pbkvs/bootstrap over loopback TCP): " + d,
                                         "case": pc, "obs": {"deviations": r.get("probe", [])[:20]}})
            continue
        ex = explicit(c, r)
        nontriv, fails, hist = analyse(c, r, ctx, stats)
        ctx.add_case(json.dumps(ex, sort_keys=True), nontriv)
        for sig, what in fails:
            ctx.failures.append({"signature": sig, "what": what, "case": ex,
                                 "obs": {"history": hist, "last_steps": [[s["p"], s["label"], s["out"], s["pc"]] for s in r["steps"][-12:]]}})
        if len(ctx.samples) < 4:
            ctx.samples.append({"config": {k: c[k] for k in ("nr", "nc", "ef")}, "input": c["input"],
                                "first_steps": [[s["p"], s["label"], s["alt"], s["fail"], s["out"], s["pc"]] for s in r["steps"][:10]],
                                "n_steps": len(r["steps"]), "history": hist[:8]})
        if c.get("wiring") and c.get("_family") and c.get("_corpus") and c["id"] % 6 != 0:
            continue    # wiring-mode rerun of a grid member: implementation-side oracles only (its plain run is compared with the model)
        try:
            coq_texts.append((c, r, ex, case_to_coq(c, r, c["id"])))
        except Untranslatable as e:
            ctx.breaks.append({"what": "observed Go state outside the typed model's universe: %s" % e, "case": ex})
    ctx.extra["input_distribution"] = {
        "cases": len(cases), "steps": stats["steps"], "crashes": stats["crashes"], "failover_syncs": stats["syncs"],
        "sync_restarts": stats["sync_restarts"], "client_retries": stats["retries"], "assertion_failures": stats["asserts"],
        "completed_operations": stats["ops_completed"],
        "by_replicas": {str(k): sum(1 for c in cases if c["nr"] == k) for k in (1, 2, 3, 4)},
        "by_clients": {str(k): sum(1 for c in cases if c["nc"] == k) for k in (1, 2, 3)},
        "by_distinct_keys": {str(k): sum(1 for c in cases if len(set(m["key"] for m in c.get("input", []))) == k) for k in (1, 2, 3)},
        "wiring_probe_checks": stats.get("probe_checks", 0),
        "wiring_mode": sum(1 for c in cases if c.get("wiring")),
        "failover_family": {"grid": sum(1 for c in cases if c.get("_family") and c.get("_corpus")),
                            "random": sum(1 for c in cases if c.get("_family") and not c.get("_corpus"))},
        "label_outcomes": {"%s/%s" % k: v for k, v in sorted(stats["labels"].items())}}
    # tie B: the typed model evaluated by vm_compute on the same schedules, state compared after every step
    if ctx.coq_ok and coq_texts:
        shard = 8
        jobs = []
        for s in range(0, len(coq_texts), shard):
            part = coq_texts[s:s + shard]
            body = ("From Coq Require Import List String.\nFrom PGV Require Import C14.Model C14.Corr.\nImport ListNotations.\nOpen Scope string_scope.\n"
                    + "".join(t[3] for t in part)
                    + "Definition M := Eval vm_compute in List.concat %s.\nPrint M.\n" % vlib.coq_list(["K%d.res" % t[0]["id"] for t in part]))
            jobs.append((s, part, body))
        with concurrent.futures.ThreadPoolExecutor(max_workers=4) as ex:
            outs = list(ex.map(lambda j: vlib.coq_eval("C14_cases_%d_%d" % (os.getpid(), j[0]), j[2], timeout=900), jobs))
        for (s, part, body), (rc, out, err) in zip(jobs, outs):
            mm = vlib.parse_nat_list(out, "M") if rc == 0 else None
            if mm is None or len(mm) != 5 * len(part):
                ctx.breaks.append({"what": "correspondence evaluation C14_cases did not compile", "detail": (out + err)[-3000:]})
                continue
            for j, (c, r, exc, _) in enumerate(part):
                cls, st, cons, lin, init_ok = mm[5 * j: 5 * j + 5]
                if not init_ok:
                    ctx.breaks.append({"what": "initial spec state of the Go system differs from the model's init", "case": exc})
                if cls or st:
                    k = min(x for x in (cls, st) if x)
                    stp = [s2 for s2 in r["steps"] if s2["out"] != "finished"][k - 1]
                    ctx.breaks.append({"what": "correspondence C14/Model.v vs generated pbkvs.go differs at step %d (%s of process %d): %s" % (
                        k, stp["label"], stp["p"], "outcome class" if cls == k else "state after the step"),
                        "case": exc, "impl": {"step": stp}, "model": "outcome-class mismatch at %d, state mismatch at %d" % (cls, st)})
                impl_cons = any(f["signature"].startswith("consistency") for f in ctx.failures if f["case"] is exc)
                if bool(cons) != impl_cons and not (cls or st):
                    ctx.breaks.append({"what": "model-side and implementation-side ConsistencyOK verdicts differ (model: step %d)" % cons, "case": exc})
                impl_lin = not any(f["signature"].startswith("lin:") for f in ctx.failures if f["case"] is exc)
                if bool(lin) != impl_lin and not (cls or st):
                    ctx.breaks.append({"what": "model-side and implementation-side linearizability verdicts differ (model: %d)" % lin, "case": exc})
    if ctx.replay:
        r = byid[cases[0]["id"]]
        print("replay: %d steps; failures: %s; breaks: %d" % (len(r["steps"]), [f["signature"] for f in ctx.failures], len(ctx.breaks)))
        for s in r["steps"][-15:]:
            print("  ", s["p"], s["label"], s["alt"], s["fail"], s["out"], "->", s["pc"], s.get("err", "")[:100])


MANIFEST = {
    "category": "proof",
    "technique": "Coq invariant proofs over a typed label-level transition system of pbkvs.tla (any number of replicas/clients/keys, crashes through mayFail) "
                 "+ step-level differential correspondence with the real generated archetypes + implementation-side ConsistencyOK / linearizability oracles",
    "text": ("Theorems in coq/Properties/C14.v, closed under the global context. PROVED OUTRIGHT: consistency_ok - the spec's ConsistencyOK, verbatim, in every "
             "state of every execution of the typed model: any number of replicas, clients, keys, every interleaving and either/CHOOSE resolution, every sequence of "
             "crash-stops at label boundaries (3850-line inductive invariant: version/content agreement, prefix knowledge in replica order, counting of failover-sync "
             "tokens incl. stale ones, replication phase with dead backups); consistency_ok_failure_free (independent proof); "
             "pb_linearizable_failure_free_partial (failure-free executions, any N: linearizable, via a linearizing-monitor simulation); "
             "assertion_free_failure_free_partial (failure-free executions, any N: no enabled step fails an assertion or a TLA+ evaluation); "
             "pb_linearizable_no_retry_partial (executions WITH crashes, any N, in which no client takes the rcvResp time-out branch (no_resend): linearizable; "
             "monitor simulation on top of the crash invariant, a Put is linearized when every live replica holds it; non-vacuity: a Go-observed failover run); "
             "lin_checker_complete. "
             "Assertion freedom WITH crashes and client re-sends, any N (final round): queued_messages_addressed_to_owner, put_bodies_wellformed, "
             "pending_put_not_older_than_receiver, client_rcvResp_never_fails (client invariant that allows re-sends), response_messages_wellformed, "
             "no_tla_evaluation_error (NO step at ANY label ever hits a TLA+ evaluation error: one half of assertion_free_statement outright) and, together, "
             "assertion_free_crash_except_replica_answer_labels_partial: no step of any process fails an assertion or a TLA+ evaluation at any label other "
             "than a replica's rcvSyncRespLoop / rcvReplicaRespLoop. "
             "REFUTED (witness by vm_compute, replayed on the real Go code on every run, known findings): assertion_free_refuted (4 replicas: stale SYNC_RESP after a "
             "restarted failover sync fails the assertion of rcvSyncRespLoop) and pb_linearizable_refuted (a Put re-sent after the primary crashed is applied twice). "
             "Full statements kept as Definitions: consistency_ok_statement (= the proved theorem), assertion_free_statement, pb_linearizable_statement. "
             "Not proved: the two answer labels of a replica (rcvSyncRespLoop, rcvReplicaRespLoop) in crash executions with at most 3 replicas "
             "(assertion_free_crash_le3_statement stays a Definition; false for >= 4); linearizability under the weaker hypothesis 'no request applied twice' "
             "(re-sends of lost requests allowed)."),
    "level_note": ("Trusted: Coq kernel; the hand-written model, tied by running the REAL pbkvs.AReplica/AClient archetypes step by step under the real Run loop "
                   "(harness/steplib gate FairnessCounter) and comparing the full spec state with the model's after every attempt; the spec-state resources that "
                   "replace the deployment resources (mailboxes, FD, file system, leader election stub)."),
}
