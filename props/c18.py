"""C18 — execution traces are faithful and causally consistent (DESIGN §4 C18)."""
import json, os, re, shutil
import vlib

ID = "C18"
THEOREMS = "Properties/C18.v"
HARNESS = ["c18"]
LEVEL = "proof"
READY = True
KNOWN_MAILBOX = "mailbox-clock-at-write-time"
TRUSTED_BASE = [
    "Coq 8.16.1 kernel (coqc, full .vo build); vm_compute in the refutation witness, the non-vacuity examples and the correspondence evaluation",
    "no axioms: Print Assumptions reports 'Closed under the global context' for every theorem of Properties/C18.v",
    "hand-written model coq/C18/Model.v of trace/{state,vclock_sink}.go, tla/{vclock,value}.go (WrapCausal/StripVClock), archetypeinterface.go Read/Write/Goto, "
    "archetyperesource.go, mpcalctx.go Run/commit/abort, resources/{localshared,channels,tcpmailboxes,incmap}.go; tied by differential execution on every run "
    "(harness/cmd/c18 drives real MPCalContexts op by op; per archetype the logged events - abort flag, clock vector, elements with indices, values, hints - and the "
    "final Run status are compared with the model's by vm_compute)",
    "immutable.Map (the VClock container) is abstracted to the dense vector of its entries; TLA+ values are integers and integer-keyed functions",
    "environment behaviour is a function of the modelled state because the harness is the only driver: a busy lock stays busy and an empty queue stays empty for the whole timeout; "
    "loopback TCP and gob deliver what was sent; the hand-over of a committed mailbox record to the receive queue is awaited (verif hook /repo 402c2190 reading len(msgChannel))",
    "timer/network choices of the implementation (a timeout firing although the lock/message is available, a failing dial or PreCommit) are observed per step and handed to the model as the event's flag",
    "the ghost fields of the model (attempt numbers, writer tags, read sources, performed-op history) have no counterpart in Go; the theorems about sources speak about the model's tags",
]
ASSUMPTIONS = [
    "tracing and vector clocks enabled (PGO_TRACE_DIR set in the environment at process start); a Recorder that consumes the event inside RecordEvent (as localFileRecorder does)",
    "archetypes are straight-line label sequences (no procedures); values integers / integer-keyed functions; network errors of TCP mailboxes (PreCommit failure, resend) not modelled",
    "an attempt that ends by an error or panic (neither committed nor aborted: Run returns) and the Done pseudo-section are not logged by the runtime and are outside the statement",
]
RULE = ("cases = scripted multi-archetype programs (1-4 MPCalContexts) + an interleaving (one schedule entry = one op of one archetype), from one PRNG (VERIF_SEED): "
        "families locals (scalar and function-valued locals, retries, forced aborts, panicking ops), shared (scalar and function-valued LocalShared variables read and written whole or by index, lock contention, Go-channel resources, attempts whose PreCommit is refused by a fault-injecting wrapper), "
        "relay (values passed on over 2-3 hops through channels / shared variables / TCP mailboxes), mailbox (loopback TCP mailboxes, several senders, aborted sends and receives), "
        "rewrite (a section writes back the value a local / shared variable / cell of a shared function already has and then witnesses a third archetype; another attempt reads it), plus the corpus. Non-trivial = some attempt reads a value written or sent by another attempt (other archetype or earlier attempt); distinct by canonical case text.")

# ---------------------------------------------------------------------------------------------- generators

def uniq(rng, st):
    st["n"] += 1
    return st["n"] * 10 + rng.randint(0, 9)


def gen_ops(rng, st, a, spec, kinds, nops, allow_crash=False):
    """ops for one try of archetype a. kinds: list of op factories allowed"""
    ops = []
    for _ in range(nops):
        k = rng.choice(kinds)
        ops.append(k(rng, st))
    return ops


def val_expr(rng, st, relay=0.3):
    if rng.random() < relay:
        return ["l", rng.randint(0, 2) * 1000]
    return ["c", uniq(rng, st)]


def mk_local_ops(locals_):
    """factories for ops over the locals of one archetype"""
    fs = []
    for k, l in enumerate(locals_):
        if "map" in l:
            keys = [kv[0] for kv in l["map"]]
            fs.append(lambda rng, st, k=k, keys=keys: ["R", "loc", k, [rng.choice(keys)]])
            fs.append(lambda rng, st, k=k, keys=keys: ["W", "loc", k, [rng.choice(keys)], val_expr(rng, st)])
            fs.append(lambda rng, st, k=k, keys=keys: ["W", "loc", k, [rng.choice(keys)], val_expr(rng, st)])
            fs.append(lambda rng, st, k=k: ["R", "loc", k, []])
        else:
            fs.append(lambda rng, st, k=k: ["R", "loc", k, []])
            fs.append(lambda rng, st, k=k: ["W", "loc", k, [], val_expr(rng, st)])
            fs.append(lambda rng, st, k=k: ["W", "loc", k, [], val_expr(rng, st)])
    return fs


def gen_locals_decl(rng):
    out = []
    for _ in range(rng.randint(1, 3)):
        if rng.random() < 0.35:
            keys = rng.sample(range(1, 6), rng.randint(1, 3))
            out.append({"map": [[k, rng.randint(0, 9)] for k in keys]})
        else:
            out.append({"init": rng.randint(0, 9)})
    return out


def gen_label(rng, st, factories, maxops=5, abort_p=0.3, crash=None, refuse_p=0.0):
    tries = []
    while rng.random() < abort_p and len(tries) < 3:
        tries.append({"ops": [rng.choice(factories)(rng, st) for _ in range(rng.randint(0, maxops))], "abort": True})
    if rng.random() < refuse_p:     # the body completes, the PreCommit of a dirty shared/channel resource is refused
        tries.append({"ops": [rng.choice(factories)(rng, st) for _ in range(rng.randint(1, maxops))], "abort": False, "refuse": True})
    ops = [rng.choice(factories)(rng, st) for _ in range(rng.randint(0, maxops))]
    if crash is not None and rng.random() < 0.5:
        ops.insert(rng.randint(0, len(ops)), crash)
    tries.append({"ops": ops, "abort": False})
    return {"tries": tries}


def steps_needed(arch):
    return sum(sum(len(t["ops"]) + 1 for t in l["tries"]) for l in arch["labels"])


def random_sched(rng, archs, slack=1.3, extra=4):
    pool = []
    for a, ar in enumerate(archs):
        pool += [a] * (int(steps_needed(ar) * slack) + extra)
    rng.shuffle(pool)
    return pool


def gen_locals_case(rng):
    st = {"n": 0}
    archs = []
    for a in range(rng.randint(1, 2)):
        locs = gen_locals_decl(rng)
        fs = mk_local_ops(locs)
        crash = None
        if rng.random() < 0.12:
            crash = rng.choice([["R", "loc", 0, [77]], ["W", "loc", 0, [77], ["c", 1]], ["R", "out", 0, []], ["W", "in", 0, [], ["c", 1]],
                                ["R", "loc", 0, [1, 2]], ["R", "in", 0, [3]]])
        labels = [gen_label(rng, st, fs, crash=crash if i == 1 else None) for i in range(rng.randint(1, 4))]
        archs.append({"locals": locs, "labels": labels})
    return {"kind": "locals", "archs": archs, "shared": [], "nchans": 1, "mboxes": [], "sched": random_sched(rng, archs)}


def gen_shared_decl(rng):
    if rng.random() < 0.45:
        keys = rng.sample(range(1, 6), rng.randint(1, 3))
        return {"map": [[k, rng.randint(0, 9)] for k in keys]}
    return rng.randint(0, 9)


def gen_shared_case(rng):
    st = {"n": 0}
    na = rng.randint(2, 4)
    nsh = rng.randint(1, 2)
    nch = rng.randint(0, 2)
    shared = [gen_shared_decl(rng) for _ in range(nsh)]
    archs = []
    for a in range(na):
        locs = gen_locals_decl(rng) if rng.random() < 0.6 else [{"init": 0}]
        fs = mk_local_ops(locs)[:3]
        for j in range(nsh):
            if isinstance(shared[j], dict):
                keys = [kv[0] for kv in shared[j]["map"]]
                fs += [lambda rng, st, j=j, keys=keys: ["R", "shr", j, [rng.choice(keys)]]] * 2
                fs += [lambda rng, st, j=j, keys=keys: ["W", "shr", j, [rng.choice(keys)], val_expr(rng, st)]] * 2
                fs += [lambda rng, st, j=j: ["R", "shr", j, []]]
            else:
                fs += [lambda rng, st, j=j: ["R", "shr", j, []]] * 2
                fs += [lambda rng, st, j=j: ["W", "shr", j, [], val_expr(rng, st)]] * 2
        for c in range(nch):
            fs += [lambda rng, st, c=c: ["R", "in", c, []]] * 2
            fs += [lambda rng, st, c=c: ["W", "out", c, [], val_expr(rng, st)]] * 2
        crash = ["R", "shr", 0, [77]] if rng.random() < 0.05 else None
        labels = [gen_label(rng, st, fs, maxops=4, abort_p=0.25, crash=crash if i == 1 else None, refuse_p=0.3) for i in range(rng.randint(1, 3))]
        archs.append({"locals": locs, "labels": labels})
    return {"kind": "shared", "archs": archs, "shared": shared, "nchans": max(nch, 1), "mboxes": [],
            "sched": random_sched(rng, archs, slack=1.6)}


def link_ops(kind, i):
    """(write op factory, read op) of link i of kind chan|shr|box"""
    if kind == "chan":
        return (lambda e: ["W", "out", i, [], e]), ["R", "in", i, []]
    if kind == "shr":
        return (lambda e: ["W", "shr", i, [], e]), ["R", "shr", i, []]
    if kind == "shrm":     # one cell of a function-valued shared variable
        return (lambda e: ["W", "shr", i, [2], e]), ["R", "shr", i, [2]]
    return (lambda e: ["W", "box", i, [], e]), ["R", "box", i, []]


def gen_relay_case(rng, with_box=True):
    """a chain A0 -> A1 -> ... -> An over random link kinds; every hop passes the value on (+1000);
       with some probability a node also listens to a side source after (or before) it has written"""
    st = {"n": 0}
    hops = rng.randint(2, 3)
    na = hops + 1
    side = rng.random() < 0.7          # extra source Z feeding one relay after its write
    kinds = [rng.choice(["chan", "shr", "shrm", "box"] if with_box else ["chan", "shr", "shrm"]) for _ in range(hops)]
    cnt = {"chan": 0, "shr": 0, "box": 0}
    links = []
    mbox_owner = []
    shared_decl = []
    for h, kd in enumerate(kinds):
        ck = "shr" if kd == "shrm" else kd
        links.append((kd, cnt[ck])); cnt[ck] += 1
        if kd == "box":
            mbox_owner.append(h + 1)
        if ck == "shr":
            shared_decl.append({"map": [[1, 0], [2, 0], [3, 0]]} if kd == "shrm" else 0)
    archs = [{"locals": [{"init": 0}], "labels": []} for _ in range(na)]
    z = None
    if side:
        z = na
        archs.append({"locals": [{"init": 0}], "labels": []})
        skind = rng.choice(["chan", "box"] if with_box else ["chan"])
        victim = rng.randint(0, hops - 1)     # the node that witnesses Z after writing on its outgoing link
        slink = (skind, cnt[skind]); cnt[skind] += 1
        if skind == "box":
            mbox_owner.append(victim)
        w, r = link_ops(*slink)
        archs[z]["labels"].append({"tries": [{"ops": [w(["c", uniq(rng, st)])], "abort": False}]})
    sched = []
    if side:
        sched += [z, z]
    for h in range(na):
        ops = []
        if h > 0:
            ops.append(link_ops(*links[h - 1])[1])
            if rng.random() < 0.5:
                ops.append(["W", "loc", 0, [], ["l", 0]])
        if h < hops:
            e = ["l", 1000] if h > 0 else ["c", uniq(rng, st)]
            wr = link_ops(*links[h])[0](e)
            if side and h == victim:
                rd = link_ops(*slink)[1]
                if rng.random() < 0.75:
                    ops += [wr, rd]          # write, THEN witness Z: the clock of the value is older than the event's
                else:
                    ops += [rd, wr]
            else:
                ops.append(wr)
        tries = []
        if rng.random() < 0.3:
            tries.append({"ops": ops[:rng.randint(0, len(ops))], "abort": True})
        if rng.random() < 0.2:
            tries.append({"ops": ops, "abort": False, "refuse": True})
        tries.append({"ops": ops, "abort": False})
        archs[h]["labels"].append({"tries": tries})
        sched += [h] * sum(len(t["ops"]) + 1 for t in tries)
    if rng.random() < 0.4:      # perturb: premature steps of later nodes (empty reads abort and are retried)
        for _ in range(rng.randint(1, 3)):
            a = rng.randint(1, na - 1)
            if kinds[a - 1] != "box" or rng.random() < 0.3:
                sched.insert(rng.randint(0, len(sched) // 2), a)
        sched += list(range(na)) * 3
    return {"kind": "relay", "archs": archs, "shared": shared_decl, "nchans": max(cnt["chan"], 1), "mboxes": mbox_owner, "sched": sched}


def gen_mailbox_case(rng):
    """one receiver owning a mailbox, 1-3 senders, sends with aborted attempts; the receiver relays into a second mailbox or a channel"""
    st = {"n": 0}
    ns = rng.randint(1, 3)
    recv = ns
    sink = ns + 1
    archs = []
    for s in range(ns):
        labels = []
        for _ in range(rng.randint(1, 2)):
            ops = [["W", "box", 0, [], ["c", uniq(rng, st)]] for _ in range(rng.randint(1, 2))]
            if rng.random() < 0.4:
                ops.insert(rng.randint(0, len(ops)), ["R", "shr", 0, []])
            if rng.random() < 0.3:
                ops.append(["W", "shr", 0, [], ["c", uniq(rng, st)]])
            tries = []
            if rng.random() < 0.35:
                tries.append({"ops": ops[:rng.randint(1, len(ops))], "abort": True})
            tries.append({"ops": ops, "abort": False})
            labels.append({"tries": tries})
        archs.append({"locals": [{"init": 0}], "labels": labels})
    nmsg = sum(sum(1 for o in l["tries"][-1]["ops"] if o[1] == "box") for a in archs for l in a["labels"])
    rlabels = []
    left = nmsg
    while left > 0:
        k = min(left, rng.randint(1, 2))
        ops = []
        for _ in range(k):
            ops.append(["R", "box", 0, []])
            if rng.random() < 0.6:
                ops.append(["W", "box", 1, [], ["l", 1000]])
        tries = []
        if rng.random() < 0.3:
            tries.append({"ops": ops[:rng.randint(1, len(ops))], "abort": True})
        tries.append({"ops": ops, "abort": False})
        rlabels.append({"tries": tries})
        left -= k
    archs.append({"locals": [{"init": 0}], "labels": rlabels})
    archs.append({"locals": [{"init": 0}], "labels": [{"tries": [{"ops": [["R", "box", 1, []]], "abort": False}]} for _ in range(rng.randint(0, 2))]})
    sched = []
    senders = []
    for s in range(ns):
        senders += [s] * steps_needed(archs[s])
    rng.shuffle(senders)
    sched += senders
    sched += [recv] * steps_needed(archs[recv])
    sched += [sink] * steps_needed(archs[sink])
    if rng.random() < 0.3:
        sched.insert(rng.randint(0, max(1, len(senders) // 2)), recv)   # one read of a still empty mailbox (timeout -> abort)
        sched += [recv, recv, recv, sink, sink]
    return {"kind": "mailbox", "archs": archs, "shared": [0], "nchans": 1, "mboxes": [recv, sink], "sched": sched, "mbox_timeout_ms": 40}


def gen_rewrite_case(rng):
    """a section rewrites a variable with the value it already has, then witnesses a third archetype; another
       archetype reads the variable afterwards (scalar shared variable, cell of a shared function, or - same
       archetype, later attempt - a local)"""
    st = {"n": 0}
    form = rng.choice(["shr", "cell", "cell", "shr", "loc"])
    idx = [2] if form == "cell" else []
    shared = [{"map": [[1, rng.randint(0, 9)], [2, rng.randint(0, 9)]]} if form == "cell" else rng.randint(0, 9), 0]
    var = ["loc", 0] if form == "loc" else ["shr", 0]
    side = rng.choice(["chan", "shr1"])
    Z, X, W, R = 0, 1, 2, 3
    archs = [{"locals": [{"init": rng.randint(0, 9)}], "labels": []} for _ in range(4)]
    # Z: the third archetype
    zop = ["W", "out", 0, [], ["c", uniq(rng, st)]] if side == "chan" else ["W", "shr", 1, [], ["c", uniq(rng, st)]]
    archs[Z]["labels"].append({"tries": [{"ops": [zop], "abort": False}]})
    wit = ["R", "in", 0, []] if side == "chan" else ["R", "shr", 1, []]
    sched = [Z, Z]
    # X: an earlier writer of the variable (sometimes absent: W rewrites the initial value)
    if form != "loc" and rng.random() < 0.6:
        archs[X]["labels"].append({"tries": [{"ops": [["W"] + var + [idx, ["c", uniq(rng, st)]]], "abort": False}]})
        sched += [X, X]
    # W: read the variable, write the same value back (or write it twice: change and restore), then witness Z
    rd = ["R"] + var + [idx]
    same = ["W"] + var + [idx, ["l", 0]]
    if rng.random() < 0.3:
        wops = [rd, ["W"] + var + [idx, ["c", uniq(rng, st)]], same, wit]          # change and restore
    else:
        wops = [rd, same, wit]
    if rng.random() < 0.25:
        wops = [rd, wit, same]                                                       # witness first: fine in any case
    tries = []
    if rng.random() < 0.25:
        tries.append({"ops": wops[:rng.randint(1, len(wops))], "abort": True})
    tries.append({"ops": wops, "abort": False})
    archs[W]["labels"].append({"tries": tries})
    sched += [W] * sum(len(t["ops"]) + 1 for t in tries)
    # reader: another archetype (for a local: the same archetype in its next attempt)
    if form == "loc":
        archs[W]["labels"].append({"tries": [{"ops": [rd, ["W", "shr", 0, [], ["l", 0]]], "abort": False}]})
        archs[R]["labels"].append({"tries": [{"ops": [["R", "shr", 0, []]], "abort": False}]})
        sched += [W, W, W, R, R]
    else:
        archs[R]["labels"].append({"tries": [{"ops": [rd, ["W", "loc", 0, [], ["l", 0]]], "abort": False}]})
        sched += [R, R, R]
    return {"kind": "rewrite", "archs": archs, "shared": shared, "nchans": 1, "mboxes": [], "sched": sched}


def sprinkle_rewrites(rng, case):
    """in a generated case: after some read of a variable, write the same value back (["l", 0])"""
    for ar in case["archs"]:
        for l in ar["labels"]:
            for t in l["tries"]:
                out = []
                for o in t["ops"]:
                    out.append(o)
                    if o[0] == "R" and o[1] in ("loc", "shr") and rng.random() < 0.25:
                        decl = (ar["locals"][o[2]] if o[1] == "loc" else case["shared"][o[2]])
                        if o[3] or not (isinstance(decl, dict) and decl.get("map")):      # not a whole function value
                            out.append(["W", o[1], o[2], list(o[3]), ["l", 0]])
                t["ops"] = out
    case["sched"] = random_sched(rng, case["archs"], slack=1.6)
    return case


def corpus():
    out = []
    d = os.path.join(vlib.VERIF, "corpus", "C18")
    if os.path.isdir(d):
        for f in sorted(os.listdir(d)):
            if f.endswith(".json"):
                c = json.load(open(os.path.join(d, f)))
                c.setdefault("kind", "corpus")
                c["_file"] = f
                out.append(c)
    return out

# ---------------------------------------------------------------------------------------------- projection of what the implementation logged

NAME_RE = re.compile(r"^A(\d+)\.(v|s|ci|co)(\d+)$")


class Bad(Exception):
    pass


def parse_val(s, case, a):
    """value string (tla.Value.String()) -> int | ('map', {k: v})"""
    s = s.strip()
    if re.fullmatch(r"-?\d+", s):
        return int(s)
    m = re.fullmatch(r'"A(\d+)\.(l(\d+)|Done)"', s)
    if m:
        return len(case["archs"][int(m.group(1))]["labels"]) if m.group(2) == "Done" else int(m.group(3))
    if s.startswith("("):
        pairs = re.findall(r"\((-?\d+)\) :> \((-?\d+)\)", s)
        return ("map", {int(k): int(v) for k, v in pairs})
    raise Bad("unparsable value %r" % s)


def proj_elem(e, case, a):
    """impl element -> (t, kind, id, idx, val, old)"""
    if e["t"] not in ("r", "w"):
        raise Bad("element tag %r" % e["t"])
    n = e["n"]
    idx = [parse_val(i, case, a) for i in e["idx"]]
    if n == "..pc":
        kind, rid = "pc", 0
    elif n == "A%d.net" % a:
        if not idx:
            raise Bad("mailbox element without index")
        kind, rid, idx = "box", idx[0], idx[1:]
    else:
        m = NAME_RE.match(n)
        if not m or int(m.group(1)) != a:
            raise Bad("element name %r in an event of A%d" % (n, a))
        kind = {"v": "loc", "s": "shr", "ci": "in", "co": "out"}[m.group(2)]
        rid = int(m.group(3))
    val = parse_val(e["val"], case, a)
    old = parse_val(e["old"], case, a) if e.get("old") is not None else None
    return (e["t"], kind, rid, idx, val, old)


def proj_clock(clock, case):
    na = len(case["archs"])
    vec = [0] * na
    for name, self_, n in clock:
        m = re.fullmatch(r"A(\d+)", name)
        if not m or int(m.group(1)) >= na or self_ != m.group(1):
            raise Bad("clock key (%s,%s) is no archetype of the case" % (name, self_))
        if vec[int(m.group(1))] != 0:
            raise Bad("clock key (%s,%s) twice" % (name, self_))
        vec[int(m.group(1))] = int(n)
    return vec


def parse_filelog(path, case, a):
    """events of the JSON log written by trace.localFileRecorder, projected like the in-memory ones"""
    out = []
    for line in open(path):
        line = line.strip()
        if not line:
            continue
        d = json.loads(line)
        els = []
        for ce in d["csElements"]:
            nm = ce["name"]
            els.append({"t": {"read": "r", "write": "w"}[ce["tag"]], "n": nm["prefix"] + "." + nm["name"], "idx": ce["indices"],
                        "val": ce["value"], "old": ce.get("oldValue")})
            if nm["self"] != str(a):
                raise Bad("file log: element self %r in the log of A%d" % (nm["self"], a))
        clock = [[k[0], k[1], n] for k, n in d["clock"]]
        if d["archetypeName"] != "A%d" % a or d["self"] != str(a):
            raise Bad("file log: event of %s/%s in the log of A%d" % (d["archetypeName"], d["self"], a))
        out.append({"a": a, "abort": d["isAbort"], "clock": clock, "elems": els})
    return out

# ---------------------------------------------------------------------------------------------- implementation-side oracle (independent of the model)

def dominates(c1, c2):
    return all(x >= y for x, y in zip(c1, c2))


def cell_get(v, idx):
    if not idx:
        return v
    if len(idx) == 1 and isinstance(v, tuple) and idx[0] in v[1]:
        return v[1][idx[0]]
    raise Bad("index %r into %r" % (idx, v))


def cell_set(v, idx, x):
    if not idx:
        return x
    if len(idx) == 1 and isinstance(v, tuple) and idx[0] in v[1]:
        d = dict(v[1]); d[idx[0]] = x
        return ("map", d)
    raise Bad("index %r into %r" % (idx, v))


def local_init(l):
    if not isinstance(l, dict):
        return l
    if "map" in l and l["map"] is not None:
        return ("map", {k: v for k, v in l["map"]})
    return l.get("init", 0) or 0


def oracle(case, res):
    """checks the property on what the real code logged. returns list of (signature, what)"""
    fails = []
    na = len(case["archs"])
    try:
        evs = [{"a": e["a"], "abort": e["abort"], "clock": proj_clock(e["clock"], case),
                "elems": [proj_elem(x, case, e["a"]) for x in e["elems"]]} for e in res["events"]]
    except Bad as b:
        return [("malformed-event", str(b))], None
    per = [[e for e in evs if e["a"] == a] for a in range(na)]
    # (1) one event per attempt, committed or aborted, in program order; (2) elements = performed ops
    for a in range(na):
        atts = [t for t in res["perf"][a] if t["end"] in ("commit", "forced", "abort")]
        if len(atts) != len(per[a]):
            fails.append(("event-count", "A%d: %d attempts ended by commit/abort, %d events logged" % (a, len(atts), len(per[a]))))
            continue
        nl = len(case["archs"][a]["labels"])
        for i, (t, e) in enumerate(zip(atts, per[a])):
            if e["abort"] != (t["end"] != "commit" or bool(t.get("refused"))) and not (e["abort"] and t["end"] == "commit" and any(res.get("flags") or [])):
                fails.append(("event-abort-flag", "A%d attempt %d ended by %s, logged isAbort=%s" % (a, i + 1, t["end"], e["abort"])))
            exp = [("r", "pc", 0, [], t["lbl"])]
            for o in t["ops"]:
                if o["outc"] == "ok":
                    exp.append((o["t"], o["k"], o["id"], list(o["idx"]), parse_val(o["val"], case, a)))
            if t["end"] == "commit":     # Goto was performed (also when a PreCommit was refused afterwards)
                exp.append(("w", "pc", 0, [], t["lbl"] + 1))
            got = [x[:5] for x in e["elems"]]
            if got != [tuple(x) for x in exp] and [list(g) for g in got] != [list(x) for x in exp]:
                fails.append(("elements-differ", "A%d attempt %d: performed %r, logged %r" % (a, i + 1, exp, got)))
    # (3)+(4) replay: hints = value overwritten; committed writes reproduce every logged read of local state
    shared = {j: local_init(v) for j, v in enumerate(case["shared"])}
    for a in range(na):
        pc = 0
        loc = {k: local_init(l) for k, l in enumerate(case["archs"][a]["locals"])}
        for i, e in enumerate(per[a]):
            tpc, tloc = pc, dict(loc)
            try:
                for (t, kind, rid, idx, val, old) in e["elems"]:
                    if kind == "pc":
                        if t == "r":
                            if cell_get(tpc, idx) != val:
                                fails.append(("replay-local-read", "A%d event %d: read of .pc logged %r, replay gives %r" % (a, i + 1, val, tpc)))
                        else:
                            if old is None or old != cell_get(tpc, idx):
                                fails.append(("hint-local", "A%d event %d: write of .pc overwrote %r, hint %r" % (a, i + 1, tpc, old)))
                            tpc = cell_set(tpc, idx, val)
                    elif kind == "loc":
                        if rid not in tloc:
                            continue
                        if t == "r":
                            if cell_get(tloc[rid], idx) != val:
                                fails.append(("replay-local-read", "A%d event %d: read of v%d%r logged %r, replay gives %r" % (a, i + 1, rid, idx, val, cell_get(tloc[rid], idx))))
                        else:
                            if old is None or old != cell_get(tloc[rid], idx):
                                fails.append(("hint-local", "A%d event %d: write of v%d%r overwrote %r, hint %r" % (a, i + 1, rid, idx, cell_get(tloc[rid], idx), old)))
                            tloc[rid] = cell_set(tloc[rid], idx, val)
            except Bad as b:
                fails.append(("replay-local-read", "A%d event %d: %s" % (a, i + 1, b)))
            if not e["abort"]:
                pc, loc = tpc, tloc
    for e in evs:   # shared variables: serial in commit order (strict 2PL), hint if present = value overwritten
        tsh = dict(shared)
        for (t, kind, rid, idx, val, old) in e["elems"]:
            if kind == "shr" and rid in tsh:
                try:
                    cur = cell_get(tsh[rid], idx)
                    if t == "w":
                        if old is not None and old != cur:
                            fails.append(("hint-shared", "A%d: write of s%d%r overwrote %r, hint %r" % (e["a"], rid, idx, cur, old)))
                        tsh[rid] = cell_set(tsh[rid], idx, val)
                    elif cur != val:
                        fails.append(("replay-shared-read", "A%d: read of s%d%r logged %r, the serial replay of the committed sections gives %r" % (e["a"], rid, idx, val, cur)))
                except Bad as b:
                    fails.append(("replay-shared-read", "A%d: %s" % (e["a"], b)))
        if not e["abort"]:
            shared = tsh
    # (5) own component grows by one per logged attempt
    for a in range(na):
        for i, e in enumerate(per[a]):
            if e["clock"][a] != i + 1:
                fails.append(("own-component", "A%d: event %d carries own component %d" % (a, i + 1, e["clock"][a])))
                break
    # (6) a reader's clock dominates the clock of the attempt that wrote/sent the value it read
    chk = amb = 0
    for ri, er in enumerate(evs):
        for (t, kind, rid, idx, val, old) in er["elems"]:
            if t != "r" or kind not in ("loc", "shr", "in", "box") or isinstance(val, tuple):
                continue
            wkind = {"loc": "loc", "shr": "shr", "in": "out", "box": "box"}[kind]
            cands = []
            if kind in ("loc", "shr"):
                # a variable (or one cell of a function-valued variable): the value read is the one of the LAST write
                # of that variable/cell, whatever the value (a write may store the value the variable already had).
                # Shared variables are accessed under a lock held until the end of the section, so the event order of
                # the recorder is the serial order; an own earlier write in the same attempt means no other writer.
                def hits(x):
                    return x[0] == "w" and x[1] == kind and x[2] == rid and (x[3] == idx or not x[3])
                me = er["elems"].index((t, kind, rid, idx, val, old))
                if any(hits(x) for x in er["elems"][:me]):
                    continue
                for ew in reversed(evs[:ri]):
                    if ew["abort"] or (kind == "loc" and ew["a"] != er["a"]):
                        continue
                    pos = [p for p, x in enumerate(ew["elems"]) if hits(x)]
                    if pos:
                        last = ew["elems"][pos[-1]]
                        got = last[4] if last[3] == idx else (last[4][1].get(idx[0]) if isinstance(last[4], tuple) and idx else None)
                        if got == val:
                            cands.append((ew, pos))
                        break
            else:
                for wi, ew in enumerate(evs[:ri]):
                    if ew["abort"]:
                        continue
                    pos = [p for p, x in enumerate(ew["elems"]) if x[0] == "w" and x[1] == wkind and x[2] == rid and x[3] == idx and x[4] == val]
                    if pos:
                        cands.append((ew, pos))
            if not cands:
                continue
            chk += 1
            if len(cands) > 1:
                amb += 1
            if any(dominates(er["clock"], ew["clock"]) for ew, _ in cands):
                continue
            ew, pos = cands[-1]
            # after the send the sender witnessed another clock in the same section: a read of a shared variable,
            # channel or mailbox, or a write of a shared variable (WriteValue witnesses the variable's clock)
            later = any((x[0] == "r" and x[1] in ("shr", "in", "box")) or (x[0] == "w" and x[1] == "shr") for x in ew["elems"][pos[-1] + 1:])
            if kind == "box" and later and er["clock"][ew["a"]] >= ew["clock"][ew["a"]]:
                fails.append((KNOWN_MAILBOX, "reader A%d (clock %r) read from mailbox %d the message %r sent by A%d, whose event clock is %r: the sender witnessed another clock after the send, in the same section"
                              % (er["a"], er["clock"], rid, val, ew["a"], ew["clock"])))
            else:
                fails.append(("reader-not-dominating:" + kind, "reader A%d clock %r read %s%d value %r written by A%d whose event clock is %r"
                              % (er["a"], er["clock"], kind, rid, val, ew["a"], ew["clock"])))
    return fails, {"evs": evs, "per": per, "dom_checked": chk, "dom_ambiguous": amb}


def nontrivial(info):
    return bool(info) and info["dom_checked"] > 0

# ---------------------------------------------------------------------------------------------- Coq terms

def cz(z):
    return "(%d)%%Z" % z


def coq_val(v):
    if isinstance(v, tuple):
        return "(VMap [%s])" % "; ".join("(%s, %s)" % (cz(k), cz(x)) for k, x in v[1])
    return "(VInt %s)" % cz(v)


def coq_rop(kind, rid):
    return coq_rname(kind, rid)


def coq_rname(kind, rid):
    if kind == "pc":
        return "NPc"
    return "(%s %d)" % ({"loc": "NLoc", "shr": "NShr", "in": "NIn", "out": "NOut", "box": "NBox"}[kind], rid)


def coq_op(o):
    idx = vlib.coq_list([cz(i) for i in o[3]])
    if o[0] == "R":
        return "ORead %s %s" % (coq_rop(o[1], o[2]), idx)
    e = o[4]
    return "OWrite %s %s (%s %s)" % (coq_rop(o[1], o[2]), idx, "EConst" if e[0] == "c" else "ELast", cz(e[1]))


def coq_cfg(case):
    archs = []
    for ar in case["archs"]:
        prog = vlib.coq_list([vlib.coq_list(["(%s, %s)" % (vlib.coq_list([coq_op(o) for o in t["ops"]]), vlib.coq_bool(t["abort"])) for t in l["tries"]])
                              for l in ar["labels"]])
        locs = vlib.coq_list([coq_val(("map", l["map"])) if l.get("map") is not None else coq_val(l.get("init", 0) or 0) for l in ar["locals"]])
        archs.append("mkACfg %s %s" % (prog, locs))
    sh = [coq_val(("map", v["map"])) if isinstance(v, dict) and v.get("map") is not None else coq_val(v.get("init", 0) or 0) if isinstance(v, dict) else coq_val(v)
          for v in case["shared"]]
    return "(mkCfg %s %s %s)" % (vlib.coq_list(archs), vlib.coq_list(sh), vlib.coq_list(["%d" % o for o in case["mboxes"]]))


def ordered_map(v, case, a, kind, rid):
    """function value in the order of the declaration of the local (the model keeps declaration order)"""
    if not isinstance(v, tuple):
        return v
    decl = None
    if kind == "loc" and rid < len(case["archs"][a]["locals"]):
        decl = case["archs"][a]["locals"][rid].get("map")
    if kind == "shr" and rid < len(case["shared"]) and isinstance(case["shared"][rid], dict):
        decl = case["shared"][rid].get("map")
    keys = [k for k, _ in decl] if decl else sorted(v[1])
    return ("map", [(k, v[1][k]) for k in keys if k in v[1]] + [(k, x) for k, x in sorted(v[1].items()) if k not in keys])


def coq_elem(x, case, a):
    t, kind, rid, idx, val, old = x
    val = ordered_map(val, case, a, kind, rid)
    if t == "r":
        return "ERead %s %s %s" % (coq_rname(kind, rid), vlib.coq_list([cz(i) for i in idx]), coq_val(val))
    o = "None" if old is None else "(Some %s)" % coq_val(ordered_map(old, case, a, kind, rid))
    return "EWrite %s %s %s %s" % (coq_rname(kind, rid), vlib.coq_list([cz(i) for i in idx]), coq_val(val), o)


def coq_case(case, res, info):
    obs = []
    for a in range(len(case["archs"])):
        evs = ["(%s, %s, %s)" % (vlib.coq_bool(e["abort"]), vlib.coq_list(["%d" % n for n in e["clock"]]),
                                 vlib.coq_list([coq_elem(x, case, a) for x in e["elems"]])) for e in info["per"][a]]
        f = res["finished"][a]
        status = 0 if f == "" else 1 if f == "done" else 2
        obs.append("(%s, %d)" % (vlib.coq_list(evs), status))
    return "(%s,\n  %s,\n  %s)" % (coq_cfg(case), coq_sched(case, res), vlib.coq_list(obs))


def coq_sched(case, res):
    fl = res.get("flags") or [False] * len(case["sched"])
    return vlib.coq_list(["(%d, %s)" % (a, vlib.coq_bool(f)) for a, f in zip(case["sched"], fl) if a >= 0])

# ---------------------------------------------------------------------------------------------- run

def strip(c):
    return {k: v for k, v in c.items() if not k.startswith("_")}


def run(ctx):
    rng = ctx.rng
    quick = ctx.tier == "quick"
    if ctx.replay:
        rp = json.load(open(ctx.replay))
        cases = [rp["case"] if "case" in rp and rp["case"] else rp]
    else:
        cases = corpus()
        n = ({"locals": 110, "shared": 120, "relay": 90, "mailbox": 40, "rewrite": 40} if quick else
             {"locals": 1400, "shared": 1500, "relay": 900, "mailbox": 300, "rewrite": 400})
        for _ in range(n["locals"]):
            cases.append(gen_locals_case(rng))
        for i in range(n["shared"]):
            c = gen_shared_case(rng)
            cases.append(sprinkle_rewrites(rng, c) if i % 3 == 0 else c)
        for _ in range(n["rewrite"]):
            cases.append(gen_rewrite_case(rng))
        for i in range(n["relay"]):
            cases.append(gen_relay_case(rng, with_box=(i % 3 == 0)))
        for _ in range(n["mailbox"]):
            cases.append(gen_mailbox_case(rng))
    for i, c in enumerate(cases):
        c["id"] = i
    scratch = "/var/tmp/verif-%d/c18-trace" % os.getpid()
    shutil.rmtree(os.path.dirname(scratch), ignore_errors=True)
    os.makedirs(scratch)
    try:
        _run(ctx, cases, scratch)
    finally:
        shutil.rmtree(os.path.dirname(scratch), ignore_errors=True)


def _run(ctx, cases, scratch):
    results = {}
    chunk = 400
    for s in range(0, len(cases), chunk):
        part = cases[s:s + chunk]
        rc, res, err = vlib.run_jsonl("c18", [strip(c) for c in part], timeout=900, env={"PGO_TRACE_DIR": scratch})
        for r in res:
            results[r["id"]] = r
        if rc != 0 or any(c["id"] not in results for c in part):
            ctx.breaks.append({"what": "harness c18 failed (rc=%d, %d/%d results)" % (rc, len(res), len(part)), "detail": err[-2000:]})
            return
    kinds, outcomes = {}, {"aborted_events": 0, "committed_events": 0, "crashed_archetypes": 0, "events": 0, "ops_ok": 0, "ops_abort": 0, "ops_crash": 0,
                          "precommit_refused_attempts": 0, "indexed_shared_ops_ok": 0, "indexed_local_ops_ok": 0}
    dom_checked = dom_amb = retained = retained_total = filelog_events = 0
    good = []
    for c in cases:
        r = results[c["id"]]
        kinds[c.get("kind", "corpus")] = kinds.get(c.get("kind", "corpus"), 0) + 1
        pub = strip(c)
        if not r.get("vclocks", False):
            ctx.breaks.append({"what": "vector clocks are not enabled in the harness process (PGO_TRACE_DIR not seen at init)", "case": pub})
            return
        if r["status"] != "ok":
            ctx.failures.append({"signature": "run-" + r["status"], "what": "the runtime did not finish a scheduled step (%s) %s" % (r["status"], r.get("errs")), "case": pub, "obs": r.get("events")})
            ctx.add_case(json.dumps(pub, sort_keys=True), False)
            continue
        for e in r.get("errs", []):
            ctx.breaks.append({"what": "harness reported: " + e, "case": pub})
        fails, info = oracle(c, r)
        # the JSON logs written through trace.localFileRecorder must say the same as the in-memory recorder
        if info is not None:
            for a, path in enumerate(r["files"]):
                try:
                    fl = parse_filelog(path, c, a)
                    got = [(e["abort"], proj_clock(e["clock"], c), [proj_elem(x, c, a) for x in e["elems"]]) for e in fl]
                    exp = [(e["abort"], e["clock"], e["elems"]) for e in info["per"][a]]
                    filelog_events += len(got)
                    if got != exp:
                        fails.append(("file-log-differs", "A%d: JSON log under PGO_TRACE_DIR differs from the events handed to the recorder: %r vs %r" % (a, got[:3], exp[:3])))
                except (Bad, OSError, ValueError, KeyError) as b:
                    fails.append(("file-log-differs", "A%d: JSON log unreadable: %s" % (a, b)))
        for sig, what in fails:
            ctx.failures.append({"signature": sig, "what": what, "case": pub, "obs": r["events"]})
        ctx.add_case(json.dumps(pub, sort_keys=True), nontrivial(info))
        retained += r["retained_differs"]; retained_total += r["retained_total"]
        if info is not None:
            dom_checked += info["dom_checked"]; dom_amb += info["dom_ambiguous"]
            outcomes["events"] += len(info["evs"])
            outcomes["aborted_events"] += sum(1 for e in info["evs"] if e["abort"])
            outcomes["committed_events"] += sum(1 for e in info["evs"] if not e["abort"])
            outcomes["crashed_archetypes"] += sum(1 for f in r["finished"] if f not in ("", "done"))
            for pa in r["perf"]:
                for t in pa:
                    outcomes["precommit_refused_attempts"] += 1 if t.get("refused") else 0
                    for o in t["ops"]:
                        outcomes["ops_" + o["outc"]] += 1
                        if o["outc"] == "ok" and o["idx"] and o["k"] in ("shr", "loc"):
                            outcomes["indexed_shared_ops_ok" if o["k"] == "shr" else "indexed_local_ops_ok"] += 1
            c["_info"], c["_res"] = info, r
            good.append(c)
    ctx.extra["input_distribution"] = kinds
    ctx.extra["outcomes"] = outcomes
    ctx.extra["dominance_pairs_checked"] = dom_checked
    ctx.extra["dominance_pairs_ambiguous_writer"] = dom_amb
    ctx.extra["file_log_events_compared"] = filelog_events
    ctx.extra["retaining_recorder"] = ("%d of %d events handed to a recorder that keeps the Event without copying no longer show their elements afterwards "
                                       "(CommitEvent clears the slice it handed over in place); observed, not judged - see notes/C18.md" % (retained, retained_total))
    ctx.samples = [{"kind": c.get("kind"), "archs": c["archs"][:2], "sched": c["sched"][:20],
                    "logged": [{"a": e["a"], "abort": e["abort"], "clock": e["clock"], "elems": [list(x) for x in e["elems"]][:6]} for e in c["_info"]["evs"][:4]]}
                   for c in good[:2] + good[len(good) // 2: len(good) // 2 + 2] + good[-2:]][:6]
    # tie B: the model evaluated inside Coq on the same cases
    if ctx.coq_ok:
        shard = 250
        for s in range(0, len(good), shard):
            part = good[s:s + shard]
            body = ("From PGV Require Import C18.Model.\n"
                    "Definition cases : list obs_case :=\n [" + ";\n ".join(coq_case(c, c["_res"], c["_info"]) for c in part) + "].\n"
                    "Definition M := Eval vm_compute in mismatches_from 0 cases.\nPrint M.\n")
            rc, out, err = vlib.coq_eval("C18_cases_%d_%d" % (os.getpid(), s), body)
            mm = vlib.parse_nat_list(out, "M") if rc == 0 else None
            if mm is None:
                ctx.breaks.append({"what": "correspondence evaluation C18_cases did not compile", "detail": (out + err)[-2000:]})
                break
            for k in mm[:5]:
                c = part[k]
                rc2, out2, _ = vlib.coq_eval("C18_one_%d" % os.getpid(), "From PGV Require Import C18.Model.\n"
                                             "(* per archetype: (first differing event: index, model's, implementation's), model status, observed status *)\n"
                                             "Eval vm_compute in diagnose %s.\n" % coq_case(c, c["_res"], c["_info"]))
                ctx.breaks.append({"what": "correspondence C18/Model.v vs the runtime differs on a case", "case": strip(c),
                                   "impl": [{"a": e["a"], "abort": e["abort"], "clock": e["clock"], "elems": [list(x) for x in e["elems"]]} for e in c["_info"]["evs"]]
                                           + [{"finished": c["_res"]["finished"]}],
                                   "model": out2.strip()[-3000:]})
    if ctx.replay:
        c = cases[0]
        r = results[c["id"]]
        print("replay: events logged by the runtime:")
        for e in r["events"]:
            print("  A%d abort=%s clock=%s elems=%s" % (e["a"], e["abort"], e["clock"], [(x["t"], x["n"], x["idx"], x["val"], x["old"]) for x in e["elems"]]))
        print("replay: oracle findings:", [(f["signature"], f["what"]) for f in ctx.failures])
        print("replay: correspondence breaks:", [b["what"] for b in ctx.breaks])


MANIFEST = {
    "category": "proof",
    "technique": ("Coq proof (invariants over every program, resource mix and interleaving of a multi-archetype transition system; "
                  "refutation witness for TCP mailboxes) + differential correspondence with real MPCalContexts driven op by op"),
    "text": ("Theorems in coq/Properties/C18.v, closed under the global context, over every configuration (any number of archetype instances, any scripted "
             "program of labels/retries/forced aborts over locals, LocalShared variables, Go-channel resources and TCP mailboxes, malformed ops included) and every "
             "schedule (any interleaving of single ops, any outcome of the implementation's timer/network choices): logged_exactly_once_in_order (attempt numbers 1,2,3,... "
             "without gap, abort flags as the Run loop ended the attempts), elements_faithful + read/write_element_faithful (elements = the successful Read/Write calls with "
             "indices and values, hint = value overwritten, failed ops record nothing), replay_reproduces_local_reads, own_component, reader_dominates_writer (+_relay) for local "
             "variables, shared variables and channels (after the repair of LocalArchetypeResource.Commit, /repo c36dcc47), reader_covers_writer_component for every kind. "
             "The full statement is refuted for TCP mailboxes (reader_dominates_writer_refuted, vm_compute witness; known finding 'mailbox-clock-at-write-time'). "
             "The model is run against the real runtime on every check (events incl. clocks, elements, hints, Run status compared), an implementation-side oracle checks the "
             "property directly on the logged events and on the JSON logs written under PGO_TRACE_DIR."),
    "level_note": ("Trusted: Coq kernel; the hand-written model (tie = differential testing: 372 quick / 4200 thorough cases, families locals/shared/relay/mailbox + corpus); "
                   "immutable.Map abstracted to a dense vector; values are integers / integer-keyed functions; procedures not modelled; mailbox network failures only as observed "
                   "failure flags; the ghost writer tags are the model's reading of 'written or sent by'. A Recorder that keeps the Event without copying sees its Elements "
                   "cleared in place afterwards: reported in notes/C18.md, not judged a violation of the statement."),
}
