"""C13 — the CRDT resource delivers every committed update and loses none (DESIGN §4 C13)."""
import json, os
import vlib

ID = "C13"
THEOREMS = "Properties/C13.v"
HARNESS = ["c13"]
LEVEL = "proof"
READY = True
TRUSTED_BASE = [
    "Coq 8.16.1 kernel (coqc, full .vo build); vm_compute used in the non-vacuity Examples and the correspondence evaluation",
    "no axioms: Print Assumptions reports 'Closed under the global context' for every theorem of Properties/C13.v",
    "hand-written model coq/C13/Model.v of distsys/resources/crdt.go (value/oldValue/hasOldValue/needBroadcastCount/mergeValues; "
    "events write, commit, abort, tick, receive, merge step), tied by differential execution: real resources.NewCRDT instances on "
    "127.0.0.1 driven by harness/cmd/c13 (ticks through the verif hook VerifCRDTBroadcast, ReceiveValue over net/rpc, state through "
    "VerifCRDTSnapshot) against the model evaluated by vm_compute on the same schedules",
    "the CRDT data type is a Section parameter of the proofs (any join-semilattice with inflationary writes); instantiated with the "
    "GCounter of C12 (laws proved there)",
    "net/rpc + gob deliver a call's argument and reply unchanged (C12 gob_preserves covers the data types' own codecs); Go mutexes/channels as specified",
]
ASSUMPTIONS = [
    "a broadcast round is one atomic event of the model (payload read, RPCs, replies counted). The finer interleaving 'local section inside "
    "a round in flight' is exercised on the real code (event gt: the round is held inside the payload's GobEncode) and tied to the model "
    "sequence tick; section events; merges - valid since fix 0c26be54 (replies of a round no longer pay off a commit that landed inside it)",
    "owed_after_commit and eventual_delivery: every broadcast round reaches every other node of the mesh ('for peers reachable from the time "
    "of the update'); the safety theorems hold for any subset of answering peers",
    "the correspondence check exercises eager merging, plus (event gm) a merge held inside Merge while a local section is attempted: on the "
    "correct code the section waits for the merger (merge step atomic, as in the model); the theorems cover any merge timing",
    "payload-level oracle (owed / received / committed-state-kept / final equality on the real states through the real Merge) for GCounter and "
    "LWWSet payloads; AWORSet payloads are checked through the tie and the section flag only, on two-node meshes (its Merge is not a "
    "semilattice - C12 known finding - so with 3+ nodes the order in which crdt.go merges the replies of a round changes the state)",
]
RULE = ("cases = schedules from one PRNG (VERIF_SEED): payload GCounter (1/2), LWWSet (1/3) or AWORSet (1/6); 2-4 nodes in a full mesh (peer lists "
        "with or without the node itself, optionally naming an unreachable peer), 6-36 events of write (sets: add/remove over 2 elements, so "
        "re-adds of present and removes of absent elements are frequent) / commit / abort / tick / external ReceiveValue / gm (merge held "
        "inside Merge while a local write-commit, write-abort, commit or abort is attempted) / gt (broadcast round held after the payload was "
        "read while a local section runs), at most 2 gated events per case, generated section-aware "
        "(ticks between a write and its commit, broadcasts and external values arriving during a section that then aborts or commits), "
        "then a finale closing all sections and ticking every node twice. Non-trivial = a tick or a receive falls inside an open section; "
        "distinct by canonical event text.")


# ------------------------------------------------------------------ generator

SUBS = [[["w"], ["c"]], [["w"], ["a"]], [["c"]], [["a"]], [["w"]], [["w"], ["w"], ["c"]]]


def gen_schedule(rng, nev=None, typ=None):
    typ = typ or rng.choice(["gcounter", "gcounter", "gcounter", "lww", "lww", "aworset"])
    n = rng.randint(2, 4)
    if typ == "aworset":
        # AWORSet.Merge is not associative (C12 known finding): with 3+ nodes the order in which the replies of a
        # round are merged (hashmap order in crdt.go) changes the state, which the model cannot predict; with two
        # nodes every round has one reply
        n = 2
    self_in = rng.random() < 0.4
    dead = rng.random() < 0.2
    elems = [1, 2]
    evs = []
    open_ = [False] * n
    nev = nev if nev is not None else rng.randint(6, 30)
    pw, pt = rng.choice([(0.35, 0.25), (0.25, 0.4), (0.45, 0.2)])
    gates = 0
    external = False
    # gcounter: increments of 0 are frequent and some node only ever increments by 0 (its entry stays 0: gob omits
    # zero fields, a decoder must not inherit the previous entry's count)
    zero_node = rng.randrange(n) if typ == "gcounter" and rng.random() < 0.3 else None
    # a node that is down at first (dials refused) and comes up later; delivery is owed to it only for updates
    # committed while it is up
    late = rng.randrange(n) if typ == "gcounter" and n >= 3 and rng.random() < 0.3 else None
    up_at = rng.randint(nev // 3, max(nev // 3, 2 * nev // 3)) if late is not None and nev is not None else None

    def wr(i):
        if typ == "gcounter":
            return ["w", i, 0 if (i == zero_node or rng.random() < 0.15) else rng.randint(1, 5)]
        return ["w", i, rng.choice([1, 1, 2]), rng.choice(elems)]

    def ext():
        if typ == "gcounter":
            return [[100 + rng.randint(0, 2), rng.randint(1, 4)]]
        return [[rng.choice([1, 2]), rng.choice(elems + [3])] for _ in range(rng.randint(1, 2))]

    def sub(i):
        out = []
        for e in rng.choice(SUBS):
            if e[0] == "w":
                out.append(wr(i)); open_[i] = True
            else:
                out.append([e[0], i]); open_[i] = False
        return out

    down = {late} if late is not None else set()
    for step in range(nev):
        if late is not None and step == up_at:
            evs.append(["up", late]); down = set()
            continue
        i = rng.choice([j for j in range(n) if j not in down])
        x = rng.random()
        if gates < 2 and x < 0.07:
            gates += 1
            if rng.random() < 0.55:
                evs.append(["gm", i, ext(), sub(i)]); external = True
            else:
                evs.append(["gt", i, sub(i)])
        elif x < 0.07 + pw:
            evs.append(wr(i)); open_[i] = True
        elif x < 0.07 + pw + pt:
            evs.append(["t", rng.choice([j for j in range(n) if j not in down])])
        elif x < 0.07 + pw + pt + 0.07:
            evs.append(["r", i, ext()]); external = True
        else:
            if open_[i] or rng.random() < 0.15:
                evs.append(["a", i] if rng.random() < 0.4 else ["c", i]); open_[i] = False
            else:
                evs.append(["t", i])
    if down:
        evs.append(["up", late])
    if late is not None and rng.random() < 0.7:
        # the last update of some node lands after the late node came up
        i = rng.choice([j for j in range(n) if j != late])
        evs.append(wr(i)); open_[i] = True
    for i in range(n):
        if open_[i]:
            evs.append(["c", i] if rng.random() < 0.6 or late is not None else ["a", i])
    fin = len(evs)
    for _ in range(2):
        order = list(range(n)); rng.shuffle(order)
        for i in order:
            evs.append(["t", i])
    # all stable states must be equivalent now (sets: only if nothing was injected from outside the mesh,
    # an external value is never re-broadcast; gcounter: compared on the mesh's own entries)
    if late is None and (typ == "gcounter" or (typ == "lww" and not external)):
        evs.append(["fin"])
    c = {"type": typ, "n": n, "self_in_peers": self_in, "dead_peer": dead, "events": evs, "finale_from": fin, "kind": "schedule"}
    if late is not None:
        c["late"] = [late]
    return c


# ------------------------------------------------------------------ implementation-side oracle

def emax(a, b):
    out = dict(a)
    for k, v in b.items():
        if v > out.get(k, 0):
            out[k] = v
    return out


def parts(ev):
    """a composite event as the sequence of simple steps the real (atomic-merge) code performs"""
    k = ev[0]
    if k == "gm":
        return [["r", ev[1], ev[2]]] + ev[3]
    if k == "gt":
        return [["t*", ev[1]]] + ev[2]
    return [ev]


def oracle(case, res):
    fails = []
    if res.get("err"):
        return [("crdt-error", "harness/Go error: %s" % res["err"][:200])]
    typ = case.get("type", "gcounter")
    def add(sig, what):
        if sig not in {s for s, _ in fails}:
            fails.append((sig, what))
    # payload-level oracle computed by the driver on the real states (gcounter, lww)
    for f in res.get("pfails", []):
        add(f["sig"], f["what"])
    n = case["n"]
    committed = [0] * n
    inflight = [0] * n
    open_ = [False] * n
    recvd = [dict() for _ in range(n)]
    up = [j not in case.get("late", []) for j in range(n)]
    owed = [[0] * n for _ in range(n)]   # owed[i][j]: i's committed total at its last WRITING commit made while j was up
    dirty = [False] * n                  # the open section of node i has written
    prev = [{"v": 0, "s": 0, "h": False, "need": 0, "ve": {}, "se": {}} for _ in range(n)]
    for t, (ev, snaps) in enumerate(zip(case["events"], res["snaps"])):
        ticked = None
        for pe in parts(ev):
            k = pe[0]
            if k == "fin":
                continue
            i = pe[1]
            if k == "up":
                up[i] = True
                continue
            if k == "w":
                inflight[i] += pe[2] if typ == "gcounter" else 0; open_[i] = True; dirty[i] = True
            elif k == "c":
                committed[i] += inflight[i]; inflight[i] = 0; open_[i] = False
                if dirty[i]:
                    # only a commit of a section that wrote publishes an update (and makes crdt.go owe a broadcast);
                    # an empty section commits nothing, whoever is reachable at that moment
                    for j in range(n):
                        if up[j]:
                            owed[i][j] = committed[i]
                dirty[i] = False
            elif k == "a":
                inflight[i] = 0; open_[i] = False; dirty[i] = False
            elif k in ("t", "t*"):
                if typ == "gcounter" and prev[i]["need"] > 0:
                    for j in range(n):
                        if j != i and up[j]:
                            recvd[j] = emax(recvd[j], prev[i]["se"])
                            recvd[i] = emax(recvd[i], prev[j]["se"])
                if k == "t":
                    ticked = (i, list(owed[i]))
            elif k == "r" and typ == "gcounter":
                recvd[i] = emax(recvd[i], {str(a): b for a, b in pe[2]})
                rep = res["replies"][t] if ev[0] == "r" else None
                if rep is not None and rep.get(str(i), 0) != committed[i]:
                    add("reply-not-committed-state", "event %d: ReceiveValue reply of node %d carries own entry %s, committed total is %d" % (t, i, rep.get(str(i), 0), committed[i]))
        for j in range(n):
            s = snaps[j]
            if s["h"] != open_[j]:
                add("section-flag", "event %d %s: node %d hasOldValue=%s, section open=%s" % (t, ev, j, s["h"], open_[j]))
            if typ != "gcounter":
                continue
            own = s["ve"].get(str(j), 0)
            if s["se"].get(str(j), 0) != committed[j]:
                add("stable-not-committed-state", "event %d %s: stable value of node %d has own entry %d, committed total is %d" % (t, ev, j, s["se"].get(str(j), 0), committed[j]))
            if own != committed[j] + inflight[j]:
                sig = "aborted-update-survives" if own > committed[j] + inflight[j] else "own-update-lost"
                add(sig, "event %d %s: node %d holds own entry %d, committed %d + in flight %d" % (t, ev, j, own, committed[j], inflight[j]))
            for i2 in range(n):
                if i2 != j and s["ve"].get(str(i2), 0) > committed[i2]:
                    add("inflight-broadcast", "event %d %s: node %d knows %d increments of node %d, only %d are committed" % (t, ev, j, s["ve"].get(str(i2), 0), i2, committed[i2]))
            for w, c in recvd[j].items():
                if s["ve"].get(w, 0) < c:
                    add("received-state-lost", "event %d %s: node %d received %s:%d earlier and now holds %d" % (t, ev, j, w, c, s["ve"].get(w, 0)))
        if ticked and typ == "gcounter":
            i, ow = ticked
            for j in range(n):
                if up[j] and snaps[j]["ve"].get(str(i), 0) < ow[j]:
                    add("owed-broadcast-consumed", "event %d: after a broadcast round of node %d, node %d (reachable since before that commit) holds %d of the %d increments committed" % (t, i, j, snaps[j]["ve"].get(str(i), 0), ow[j]))
        prev = snaps
    if typ == "gcounter" and len(res["snaps"]) == len(case["events"]) and case.get("finale_from") is not None and res["snaps"]:
        last = res["snaps"][-1]
        for j in range(n):
            for i in range(n):
                if owed[i][j] == committed[i] and last[j]["ve"].get(str(i), 0) != committed[i]:
                    add("no-convergence", "after the finale node %d holds %d increments of node %d, committed %d" % (j, last[j]["ve"].get(str(i), 0), i, committed[i]))
    return fails


def nontrivial(case):
    open_ = [False] * case["n"]
    for ev in case["events"]:
        if ev[0] in ("gm", "gt"):
            return True
        for pe in parts(ev):
            k = pe[0]
            if k in ("fin", "up"):
                continue
            i = pe[1]
            if k == "w":
                open_[i] = True
            elif k in ("c", "a"):
                open_[i] = False
            elif k == "t" and any(open_):
                return True
            elif k == "r" and open_[i]:
                return True
    return False


# ------------------------------------------------------------------ Coq terms

def coq_zl(xs):
    return vlib.coq_list([vlib.coq_Z(x) for x in xs])


def coq_obs(typ, s):
    rd = (lambda v: coq_zl([v])) if typ == "gcounter" else coq_zl
    return "(%s, %s, %s, %d%%nat)" % (rd(s["v"]), rd(s["s"]), vlib.coq_bool(s["h"]), s["need"])


def to_coq(case, res):
    typ = case.get("type", "gcounter")
    n = case["n"]
    evs = []
    prev_need = [0] * n
    up = [j not in case.get("late", []) for j in range(n)]
    for idx, (ev, snaps) in enumerate(zip(case["events"], res["snaps"])):
        if ev[0] == "fin":
            continue
        if ev[0] == "up":
            up[ev[1]] = True
            continue
        t0 = list(res["t0"][idx] or [])
        seq = []

        def ext_value(spec):
            if typ == "gcounter":
                return vlib.coq_list(["(%s, %s)" % (vlib.coq_Z(a), vlib.coq_Z(b)) for a, b in spec])
            v = "aw_init" if typ == "aworset" else "lww_init"
            for c, e in spec:
                if typ == "aworset":
                    v = "(aw_write 100 (%s, %s) %s)" % (vlib.coq_Z(c), vlib.coq_Z(e), v)
                else:
                    v = "(lww_write 100 (%s, %s, %s) %s)" % (vlib.coq_Z(c), vlib.coq_Z(e), vlib.coq_Z(t0.pop(0)), v)
            return v

        def simple(pe):
            k, i = pe[0], pe[1]
            if k == "w":
                if typ == "gcounter":
                    return "EWrite %s %s" % (vlib.coq_Z(i), vlib.coq_Z(pe[2]))
                if typ == "aworset":
                    return "EWrite %s (%s, %s)" % (vlib.coq_Z(i), vlib.coq_Z(pe[2]), vlib.coq_Z(pe[3]))
                return "EWrite %s (%s, %s, %s)" % (vlib.coq_Z(i), vlib.coq_Z(pe[2]), vlib.coq_Z(pe[3]), vlib.coq_Z(t0.pop(0)))
            if k == "c":
                return "ECommit %s" % vlib.coq_Z(i)
            return "EAbort %s" % vlib.coq_Z(i)

        k, i = ev[0], ev[1]
        if k in ("w", "c", "a"):
            seq.append(simple(ev))
        elif k in ("t", "gt"):
            rs = [j for j in range(n) if j != i and up[j]]
            seq.append("ETick %s %s" % (vlib.coq_Z(i), coq_zl(rs)))
            if k == "gt":
                seq += [simple(pe) for pe in ev[2]]
            if prev_need[i] > 0:
                for j in rs:
                    seq.append("EMerge %s" % vlib.coq_Z(j))
                    seq.append("EMerge %s" % vlib.coq_Z(i))
        elif k in ("r", "gm"):
            seq.append("ERecv %s %s" % (vlib.coq_Z(i), ext_value(ev[2])))
            seq.append("EMerge %s" % vlib.coq_Z(i))
            if k == "gm":
                seq += [simple(pe) for pe in ev[3]]
        for e in seq[:-1]:
            evs.append("(%s, None)" % e)
        evs.append("(%s, Some %s)" % (seq[-1], vlib.coq_list([coq_obs(typ, s) for s in snaps])))
        prev_need = [s["need"] for s in snaps]
    fn = {"gcounter": "gcr_check", "aworset": "awr_check", "lww": "lwwr_check"}[typ]
    return "%s %d%%nat %s %s %s" % (fn, n, vlib.coq_bool(case["self_in_peers"]), vlib.coq_bool(case.get("dead_peer", False)), vlib.coq_list(evs))


def to_coq_fine(case, res):
    """the same schedule as events of the finer-grained model C13/ModelFine.v (rounds and merger split up)"""
    typ = case.get("type", "gcounter")
    n = case["n"]
    evs = []
    prev_need = [0] * n
    up = [j not in case.get("late", []) for j in range(n)]
    for idx, (ev, snaps) in enumerate(zip(case["events"], res["snaps"])):
        if ev[0] == "fin":
            continue
        if ev[0] == "up":
            up[ev[1]] = True
            continue
        t0 = list(res["t0"][idx] or [])
        seq = []

        def ext_value(spec):
            if typ == "gcounter":
                return vlib.coq_list(["(%s, %s)" % (vlib.coq_Z(a), vlib.coq_Z(b)) for a, b in spec])
            v = "aw_init" if typ == "aworset" else "lww_init"
            for c, e in spec:
                if typ == "aworset":
                    v = "(aw_write 100 (%s, %s) %s)" % (vlib.coq_Z(c), vlib.coq_Z(e), v)
                else:
                    v = "(lww_write 100 (%s, %s, %s) %s)" % (vlib.coq_Z(c), vlib.coq_Z(e), vlib.coq_Z(t0.pop(0)), v)
            return v

        def simple(pe):
            k, i = pe[0], pe[1]
            if k == "w":
                if typ == "gcounter":
                    return "FWrite %s %s" % (vlib.coq_Z(i), vlib.coq_Z(pe[2]))
                if typ == "aworset":
                    return "FWrite %s (%s, %s)" % (vlib.coq_Z(i), vlib.coq_Z(pe[2]), vlib.coq_Z(pe[3]))
                return "FWrite %s (%s, %s, %s)" % (vlib.coq_Z(i), vlib.coq_Z(pe[2]), vlib.coq_Z(pe[3]), vlib.coq_Z(t0.pop(0)))
            if k == "c":
                return "FCommit %s" % vlib.coq_Z(i)
            return "FAbort %s" % vlib.coq_Z(i)

        def merge1(j):
            return ["FTake %s" % vlib.coq_Z(j), "FApply %s" % vlib.coq_Z(j)]

        k, i = ev[0], ev[1]
        if k in ("w", "c", "a"):
            seq.append(simple(ev))
        elif k in ("t", "gt"):
            rs = [j for j in range(n) if j != i and up[j]]
            seq.append("FBegin %s %s" % (vlib.coq_Z(i), coq_zl(rs)))
            if k == "gt":      # the local section runs after the payload was read, before any call is served
                seq += [simple(pe) for pe in ev[2]]
            if prev_need[i] > 0:
                seq += ["FServe %s %s" % (vlib.coq_Z(i), vlib.coq_Z(j)) for j in rs]
                seq += ["FReply %s" % vlib.coq_Z(i) for _ in rs]
                for j in rs:
                    seq += merge1(j) + merge1(i)
        elif k in ("r", "gm"):
            seq.append("FRecv %s %s" % (vlib.coq_Z(i), ext_value(ev[2])))
            seq += merge1(i)    # gm: the section waits for the merger, which holds the lock while it merges
            if k == "gm":
                seq += [simple(pe) for pe in ev[3]]
        for e in seq[:-1]:
            evs.append("(%s, None)" % e)
        evs.append("(%s, Some %s)" % (seq[-1], vlib.coq_list([coq_obs(typ, s) for s in snaps])))
        prev_need = [s["need"] for s in snaps]
    fn = {"gcounter": "fgcr_check", "aworset": "fawr_check", "lww": "flwwr_check"}[typ]
    return "%s %d%%nat %s %s %s" % (fn, n, vlib.coq_bool(case["self_in_peers"]), vlib.coq_bool(case.get("dead_peer", False)), vlib.coq_list(evs))


# ------------------------------------------------------------------ driver

def corpus():
    out = []
    d = os.path.join(vlib.VERIF, "corpus", "C13")
    if os.path.isdir(d):
        for f in sorted(os.listdir(d)):
            if f.endswith(".json"):
                c = json.load(open(os.path.join(d, f)))
                c["kind"] = c.get("kind", "corpus")
                c.setdefault("type", "gcounter")
                out.append(c)
    return out


def strip(c):
    return {k: v for k, v in c.items() if not k.startswith("_")}


def snap_brief(typ, sn):
    return [(s["v"], s["s"], s["h"], s["need"]) for s in sn]


def run(ctx):
    rng = ctx.rng
    n = 120 if ctx.tier == "quick" else 3000
    if ctx.replay:
        cases = [json.load(open(ctx.replay))["case"]]
    else:
        cases = corpus() + [gen_schedule(rng) for _ in range(n)]
    for i, c in enumerate(cases):
        c["id"] = i
    rc, res, err = vlib.run_jsonl("c13", [strip(c) for c in cases], timeout=1500)
    byid = {r["id"]: r for r in res}
    for _ in range(3):
        # NewCRDT calls log.Fatalf when its listen address was taken by another process in the meantime
        # (the address is reserved by bind-and-release): run the cases that are missing again
        if len(byid) == len(cases):
            break
        rc, res, err = vlib.run_jsonl("c13", [strip(c) for c in cases if c["id"] not in byid], timeout=1500)
        byid.update({r["id"]: r for r in res})
    if len(byid) != len(cases):
        ctx.breaks.append({"what": "harness c13 failed (rc=%d, %d/%d results)" % (rc, len(byid), len(cases)), "detail": err[-2000:]})
        return
    dist = {"events": {}, "n": {}, "type": {}, "self_in_peers": 0, "dead_peer": 0, "tick_or_receive_in_section_or_gated": 0,
            "gated_merge_blocked_local_section": 0}
    for c in cases:
        r = byid[c["id"]]
        c["_res"] = r
        ctx.add_case(json.dumps([c.get("type"), c["n"], c["self_in_peers"], c.get("dead_peer", False), c.get("late"), c["events"]]), nontrivial(c))
        for ev in c["events"]:
            dist["events"][ev[0]] = dist["events"].get(ev[0], 0) + 1
        dist["n"][str(c["n"])] = dist["n"].get(str(c["n"]), 0) + 1
        dist["type"][c.get("type", "gcounter")] = dist["type"].get(c.get("type", "gcounter"), 0) + 1
        dist["self_in_peers"] += int(c["self_in_peers"]); dist["dead_peer"] += int(c.get("dead_peer", False))
        dist["tick_or_receive_in_section_or_gated"] += int(nontrivial(c))
        dist["gated_merge_blocked_local_section"] += sum(1 for b in (r.get("blocked") or []) if b)
        for sig, what in oracle(c, r):
            ctx.failures.append({"signature": sig, "what": what, "case": strip(c), "obs": {"snaps": r.get("snaps"), "replies": r.get("replies"), "pfails": r.get("pfails"), "err": r.get("err")}})
    ctx.extra["input_distribution"] = dist
    ctx.samples = [{"type": c.get("type"), "n": c["n"], "self_in_peers": c["self_in_peers"], "events": c["events"][:10],
                    "go_snapshots": [snap_brief(c.get("type"), sn) for sn in c["_res"].get("snaps", [])[:10]]}
                   for c in cases[:5]]
    if ctx.coq_ok:
        good = [c for c in cases if not c["_res"].get("err") and len(c["_res"]["snaps"]) == len(c["events"])]
        # every schedule against the atomic model; schedules with gated events (and the corpus) also against the
        # finer-grained model (quick), all schedules against both (thorough)
        jobs = [(c, "atomic") for c in good]
        jobs += [(c, "fine") for c in good if ctx.tier != "quick" or c.get("kind") == "corpus"
                 or any(e[0] in ("gm", "gt") for e in c["events"])]
        ctx.extra["fine_model_evaluations"] = sum(1 for j in jobs if j[1] == "fine")
        shard = max(1, (len(jobs) + 1) // 2) if ctx.tier == "quick" else 300
        parts_ = [jobs[s:s + shard] for s in range(0, len(jobs), shard)]

        def ev(ix):
            part = parts_[ix]
            body = ("From PGV Require Import C13.Model C13.ModelFine.\n"
                    "Definition results : list bool :=\n [" +
                    ";\n  ".join((to_coq if w == "atomic" else to_coq_fine)(c, c["_res"]) for c, w in part) + "].\n"
                    "Definition M := Eval vm_compute in mismatches_from 0 results.\nPrint M.\n")
            return vlib.coq_eval("C13_cases_%d" % ix, body)

        from concurrent.futures import ThreadPoolExecutor
        with ThreadPoolExecutor(max_workers=2) as ex:
            outs = list(ex.map(ev, range(len(parts_))))
        for part, (rc, out, err) in zip(parts_, outs):
            mm = vlib.parse_nat_list(out, "M") if rc == 0 else None
            if mm is None:
                ctx.breaks.append({"what": "correspondence evaluation C13_cases did not compile", "detail": (out + err)[-2000:]})
                break
            for k in mm:
                c, w = part[k]
                ctx.breaks.append({"what": "correspondence C13/%s.v vs distsys/resources/crdt.go differs on a schedule (payload %s)" % ("Model" if w == "atomic" else "ModelFine", c.get("type")),
                                   "case": strip(c), "impl": [snap_brief(c.get("type"), sn) for sn in c["_res"]["snaps"]],
                                   "model": "%s model check = false (value/stable reads, hasOldValue or needBroadcastCount differ after some event)" % w})
    if ctx.replay:
        r = cases[0]["_res"]
        for ev, sn in zip(cases[0]["events"], r.get("snaps", [])):
            print("replay:", ev, [(s["v"], s["s"], s["h"], s["need"], s.get("ve")) for s in sn])
        print("replay: err", r.get("err"), "oracle", oracle(cases[0], r), "correspondence breaks", len(ctx.breaks))


MANIFEST = {
    "category": "proof",
    "technique": "Coq invariants over all event interleavings of the resource model, for any join-semilattice payload (Section hypotheses, "
                 "instantiated with the GCounter of C12) + differential correspondence against real NewCRDT instances on loopback with GCounter, "
                 "LWWSet and AWORSet payloads (ticks and snapshots through verif hooks, ReceiveValue over net/rpc, one Merge / one GobEncode "
                 "held by a gated payload wrapper to place local sections inside a merge or a broadcast round) + implementation-side oracle "
                 "at Read level and at payload level",
    "text": ("Theorems in coq/Properties/C13.v, closed under the global context, for every list of events write/commit/abort/tick(any subset of "
             "answering peers)/external ReceiveValue/merge step on any number of nodes: inflight_never_broadcast (every payload and reply is below "
             "the committed/injected states), aborted_disappears + abort_restores, received_never_lost (everything received stays covered by value "
             "and queue, also after an abort), owed_after_commit + commit_sets_owed (count 0 only if every other peer received a state above the "
             "last commit; broadcasts reaching all peers), eventual_delivery (bounded-round quiescent convergence in a full mesh) and its GCounter "
             "instance gcounter_resource_converges (all replicas read the same number). Section FineGrained: the same theorems proved directly for the "
             "finer-grained model C13/ModelFine.v (round = begin / per-peer serve / drop / per-reply handling with needBroadcastGen; merger = take / apply), "
             "plus commit_during_round_still_owed (after a writing commit the owed count stays len(peerIds) under every continuation in which the node "
             "does not begin a new round). The theorems are about crdt.go after three fix: commits "
             "(merge into oldValue during a section; owed count set at Commit; replies of a round do not pay off a commit that landed inside it); "
             "on the pinned code the check reports received-state-lost, "
             "owed-broadcast-consumed and no-convergence from the corpus seeds."),
    "level_note": ("Trusted: Coq kernel; the hand-written model (tie = differential testing on 150 quick / 3000 thorough schedules with eager merging: "
                   "the merger goroutine cannot be held back, the theorems cover any merge timing); a broadcast round is atomic in the model (a Commit "
                   "landing inside a round is not modelled); net/rpc, gob, goroutines, mutexes as specified; real-time (ticker, timeouts) not modelled."),
}
