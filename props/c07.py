"""C07 — variables shared between archetypes of a process are serializable; timed lock acquisition => no deadlock
(DESIGN §4 C07).  Model coq/C07/Model.v, theorems coq/Properties/C07.v, harness harness/cmd/c07."""
import json, os
import vlib

ID = "C07"
THEOREMS = "Properties/C07.v"
HARNESS = ["c07"]
LEVEL = "proof"
READY = True
TRUSTED_BASE = [
    "Coq 8.16.1 kernel (coqc, full .vo build); vm_compute only in the non-vacuity Examples and in the correspondence evaluation",
    "no axioms: Print Assumptions reports 'Closed under the global context' for every theorem of Properties/C07.v",
    "hand-written model coq/C07/Model.v of distsys/resources/localshared.go + LocalArchetypeResource + MPCalContext.commit/abort "
    "(per-variable releases in any order), tied by differential execution (harness/cmd/c07, single driver thread, api and ctx modes)",
    "Go's capacity-1 channel + select/time.After are trusted to behave as a lock with timed acquisition; time is abstracted: "
    "the model's timeout event may fire whenever the sharer does not hold the lock",
    "values are numbers and finite number->number functions (enough for ReadValue/WriteValue/Index); an access on which the Go code "
    "panics (index outside the domain) is not an event of the model (the process dies)",
]
ASSUMPTIONS = [
    "sections end by commit() or abort() of MPCalContext (a body returning another error kills the archetype while it holds its locks: outside the statement)",
    "each sharer binds its own MakeLocalShared() handle per variable (as systems/raftkvs/bootstrap/server.go does)",
]
RULE = ("(plus 3 / 25 genuinely concurrent stress runs as a search aid: ticket counter + unit transfers between accounts in random "
        "acquisition order, oracle: no lost update, sum preserved, termination) "
        "cases = scripted schedules from one PRNG (VERIF_SEED): 2-5 sharers, 1-4 LocalSharedManager variables (number or "
        "number->number function, some wrapped in resources.Persistent over in-memory badger), lock timeout 0 / 1 ns / 2-4 ms / 120 ms, 10-70 driver steps "
        "(begin / read / write / index read / index write / read-increment / commit / voluntary abort / per-variable releases in "
        "scripted order interleaved with other sharers (api mode) / GetState); mode api drives the "
        "ArchetypeResource API directly, mode ctx drives real MPCalContext.Run loops. Non-trivial = two sections overlap on a "
        "variable (an access found the lock held, or a variable was taken over while its previous holder was still releasing others); "
        "distinct by canonical op text.")

OBSERVER = 99  # sharer index used in the model for the harness' final snapshot handle


# ------------------------------------------------------------------ generator (own tiny simulation, only to stay well-formed)

def gen_case(rng, tier, forced_mode=None):
    mode = forced_mode or ("api" if rng.random() < 0.6 else "ctx")
    nsh = rng.randint(2, 5)
    nv = rng.randint(1, 4)
    vars_ = []
    for v in range(nv):
        if rng.random() < 0.35:
            dom = rng.randint(2, 3)
            init = {"m": [[k, rng.randint(0, 9)] for k in range(dom)]}
        else:
            init = rng.randint(0, 20)
        vars_.append({"init": init, "persist": rng.random() < 0.3})
    phase = ["idle"] * nsh
    dirty = [set() for _ in range(nsh)]
    has = [set() for _ in range(nsh)]
    holder = {}
    ops = []
    # "every lock timeout setting": mostly a few ms, but also 0, 1 ns and a long one (few steps: each blocked access waits it out)
    t = rng.random()
    timeout_ms = 0 if t < 0.10 else 1e-6 if t < 0.17 else 120 if t < 0.21 else rng.choice([2, 3, 4])
    nsteps = rng.randint(10, 70 if tier == "quick" else 120)
    if timeout_ms == 120:
        nsteps = rng.randint(8, 22)
    hot = rng.randrange(nv)

    def pick_var():
        return hot if rng.random() < 0.5 else rng.randrange(nv)

    def release(i, v):
        dirty[i].discard(v)
        if v in has[i]:
            has[i].discard(v)
            del holder[v]

    def gen_acc(i):
        v = pick_var()
        if isinstance(vars_[v]["init"], dict):
            dom = len(vars_[v]["init"]["m"])
            r = rng.random()
            if r < 0.3:
                op = ["acc", i, v, "ir", rng.randrange(dom)]
            elif r < 0.55:
                op = ["acc", i, v, "iw", rng.randrange(dom), rng.randint(0, 50)]
            elif r < 0.75:
                op = ["acc", i, v, "iinc", rng.randrange(dom)]
            elif r < 0.9:
                op = ["acc", i, v, "r"]
            else:
                op = ["acc", i, v, "w", {"m": [[k, rng.randint(0, 50)] for k in range(dom)]}]
        else:
            r = rng.random()
            if r < 0.35:
                op = ["acc", i, v, "r"]
            elif r < 0.6:
                op = ["acc", i, v, "w", rng.randint(0, 99)]
            else:
                op = ["acc", i, v, "inc"]
        ops.append(op)
        dirty[i].add(v)
        if v in holder and holder[v] != i:
            # will time out
            if mode == "api":
                phase[i] = "aborting"
            else:
                for x in list(dirty[i]):
                    release(i, x)
                phase[i] = "idle"
        else:
            holder[v] = i
            has[i].add(v)

    def finish(i, commit):
        if mode == "ctx":
            ops.append(["commit" if commit else "abort", i])
            for x in list(dirty[i]):
                release(i, x)
            phase[i] = "idle"
        else:
            ops.append(["cstart" if commit else "astart", i])
            phase[i] = "committing" if commit else "aborting"

    for _ in range(nsteps):
        i = rng.randrange(nsh)
        p = phase[i]
        if p == "idle":
            if rng.random() < 0.12:
                v = rng.randrange(nv)
                if v not in holder:
                    ops.append(["get", i, v])
                continue
            ops.append(["begin", i]); phase[i] = "active"; dirty[i] = set(); has[i] = set()
        elif p == "active":
            r = rng.random()
            if r < 0.68:
                gen_acc(i)
            elif r < 0.9:
                finish(i, True)
            elif r < 0.96:
                finish(i, False)
            else:
                v = rng.randrange(nv)
                if v not in holder or holder[v] == i:
                    ops.append(["get", i, v])
        else:  # api: committing / aborting
            if dirty[i]:
                v = rng.choice(sorted(dirty[i]))
                ops.append(["crel" if p == "committing" else "arel", i, v])
                release(i, v)
            else:
                ops.append(["end", i]); phase[i] = "idle"
    # wind down
    for i in range(nsh):
        if phase[i] == "active":
            finish(i, rng.random() < 0.7)
        if mode == "api" and phase[i] in ("committing", "aborting"):
            for v in rng.sample(sorted(dirty[i]), len(dirty[i])):
                ops.append(["crel" if phase[i] == "committing" else "arel", i, v]); release(i, v)
            ops.append(["end", i]); phase[i] = "idle"
    return {"mode": mode, "nsh": nsh, "timeout_ms": timeout_ms, "vars": vars_, "ops": ops}


def gen_stress(rng, tier, zero=None):
    nv = rng.choice([1, 3, 4, 5])
    vars_ = [{"init": rng.randint(0, 5), "persist": rng.random() < 0.3}] + \
            [{"init": 100, "persist": rng.random() < 0.3} for _ in range(nv - 1)]
    to = rng.choice([1, 2, 0]) if zero is None else (0 if zero else rng.choice([1, 2]))
    return {"mode": "stress", "nsh": rng.randint(2, 5) if to else rng.randint(2, 3), "timeout_ms": to, "vars": vars_,
            "iters": (50 if tier == "quick" else 400) if to else 25, "seed": rng.randrange(1 << 30), "ops": []}


def oracle_stress(case, out):
    fails = []
    if (out.get("err") or "").find("hang") >= 0:
        return [("blocked-forever:stress", "concurrent sharers did not finish: commits %s" % out.get("commits"))]
    if out.get("err"):
        return [("crash:stress", out["err"][:200])]
    commits = out.get("commits") or []
    final = out.get("final") or []
    if any(isinstance(x, str) for x in final):
        return [("blocked-forever:final-snapshot", "GetState after all sections ended did not return: %s" % final)]
    init = [v["init"] for v in case["vars"]]
    if final[0] != init[0] + sum(commits):
        fails.append(("not-serializable:lost-update-stress", "ticket counter %d after %d committed increments from %d" % (final[0], sum(commits), init[0])))
    if sum(final[1:]) != sum(init[1:]):
        fails.append(("not-serializable:invariant-stress", "accounts %s do not sum to %d" % (final[1:], sum(init[1:]))))
    return fails


def stop_abort_steps(case):
    """ctx mode: the LAST op of a sharer, when it is an abort of an open section, is performed as `Stop() requested, then the
    body returns ErrCriticalSectionAborted` (Run must roll the section back before it honours the exit request); to the model
    it is the same abort. Chosen without consuming the PRNG; a case may also list indices itself under "stop_abort"."""
    if "stop_abort" in case:
        return list(case["stop_abort"])
    last = {}
    for k, op in enumerate(case["ops"]):
        last[op[1]] = k
    return sorted(k for i, k in last.items() if case["ops"][k][0] == "abort")[:1]


def expand_for_harness(case):
    """inc / iinc are two accesses (read, then write of read+1): the harness is given them as one scripted pair"""
    d = {"id": case["id"], "mode": case["mode"], "nsh": case["nsh"], "timeout_ms": case["timeout_ms"],
         "vars": case["vars"], "ops": case["ops"]}
    if case["mode"] == "ctx":
        d["stop_abort"] = stop_abort_steps(case)
    if case["mode"] == "stress":
        d["iters"] = case["iters"]; d["seed"] = case["seed"]
    return d


# ------------------------------------------------------------------ python semantics of one access (for the oracle only)

def py_exec(kind, args, cur):
    """returns (new, out) ; raises on a Go panic case"""
    if kind == "r":
        return cur, cur
    if kind == "w":
        return args[0], None
    m = dict((k, x) for k, x in cur["m"])
    if kind == "ir":
        return cur, m[args[0]]
    if kind == "iw":
        assert args[0] in m
        m[args[0]] = args[1]
        return {"m": [[k, m[k]] for k in sorted(m)]}, None
    raise ValueError(kind)


def canon(v):
    if isinstance(v, dict):
        return {"m": sorted([list(p) for p in v["m"]])}
    return v


# ------------------------------------------------------------------ observation -> flat access list

def full_ops(case, res):
    """the script plus the wind-down steps the harness appended (each carries its own op)"""
    ops = list(case["ops"])
    for r in res[len(case["ops"]):]:
        ops.append(r["op"])
    return ops


def strict(case):
    """Only with a long lock timeout (>= 100 ms) is a timeout on a free lock taken as a disagreement.  With 0 / 1 ns `select`
    may see the timer and the free lock ready together; with a few ms a loaded machine can deschedule the goroutine between
    time.After and select for longer than the timeout: the code then legitimately aborts, and the model's ETimeout is
    enabled whenever the caller does not hold the lock."""
    return case["mode"] != "stress" and case["timeout_ms"] >= 100


def anomalies(case, out):
    """outcomes that depend on machine load rather than on the schedule: a timeout although nobody else held the
    lock (select saw the timer and the free lock ready together), a missed deadline, a step the script could not
    take after one of those.  Such a case is re-run once before anything is concluded from it."""
    res = out.get("res") or []
    holder = {}
    held = {}
    n = 0
    ctx = case["mode"] == "ctx"
    for op, r in zip(full_ops(case, res), res):
        name, i = op[0], op[1]
        if r["st"] == "hang" or (r["st"] == "skip" and strict(case)):
            n += 1
            continue
        if r["st"] == "skip":
            continue
        if name == "acc":
            v = op[2]
            if r["st"] == "ok":
                holder[v] = i; held.setdefault(i, set()).add(v)
            elif r["st"] == "timeout":
                if holder.get(v, i) == i and strict(case):
                    n += 1
                if ctx:
                    for x in held.pop(i, set()):
                        holder.pop(x, None)
        elif name in ("crel", "arel"):
            if holder.get(op[2]) == i:
                del holder[op[2]]; held[i].discard(op[2])
        elif name in ("commit", "abort"):
            for x in held.pop(i, set()):
                holder.pop(x, None)
    if any(isinstance(x, str) for x in (out.get("final") or [])):
        n += 1
    return n


def flatten(case, res):
    """list of steps: dict(op=name, i=, v=, kind=, args=, st=, out=) with inc/iinc split into read + write.
    Only uses what the implementation returned."""
    steps = []
    for op, r in zip(full_ops(case, res), res):
        name, i = op[0], op[1]
        st = r["st"]
        if name == "acc":
            v, kind = op[2], op[3]
            if kind in ("inc", "iinc"):
                # harness reports {"st":..,"v":[read value]} ; the write is of read+1
                if st == "ok":
                    rd = r["v"]
                    if kind == "inc":
                        steps.append(dict(op="acc", i=i, v=v, kind="r", args=[], st="ok", out=rd))
                        steps.append(dict(op="acc", i=i, v=v, kind="w", args=[rd + 1], st="ok", out=None))
                    else:
                        steps.append(dict(op="acc", i=i, v=v, kind="ir", args=[op[4]], st="ok", out=rd))
                        steps.append(dict(op="acc", i=i, v=v, kind="iw", args=[op[4], rd + 1], st="ok", out=None))
                else:
                    steps.append(dict(op="acc", i=i, v=v, kind="r" if kind == "inc" else "ir", args=op[4:], st=st, out=None))
            else:
                steps.append(dict(op="acc", i=i, v=v, kind=kind, args=op[4:], st=st, out=canon(r.get("v"))))
        elif name in ("crel", "arel", "get"):
            steps.append(dict(op=name, i=i, v=op[2], st=st, out=canon(r.get("v"))))
        else:
            steps.append(dict(op=name, i=i, st=st))
    return steps


# ------------------------------------------------------------------ implementation-side oracle (independent of the Coq model)

def oracle(case, out):
    """serializability of the committed history in an order consistent with real time; aborted sections without
    effect; nothing blocks forever.  Returns list of (signature, what)."""
    fails = []
    res = out.get("res") or []
    if len(res) < len(case["ops"]):
        return [("harness-output-length", "harness returned %d results for %d ops (%s)" % (len(res), len(case["ops"]), out.get("err")))]
    steps = flatten(case, res)
    init = [canon(v["init"]) for v in case["vars"]]
    nv = len(init)
    # -- nothing may block forever / crash
    for k, s in enumerate(steps):
        if s["st"] == "hang":
            fails.append(("blocked-forever:" + s["op"], "step %d (%s by sharer %d) did not return" % (k, s["op"], s["i"])))
            return fails
        if s["st"].startswith("panic") or s["st"].startswith("err"):
            fails.append(("crash:" + s["op"], "step %d (%s by sharer %d): %s" % (k, s["op"], s["i"], s["st"])))
            return fails
    # -- sections
    cur = {}          # sharer -> dict(begin=, log=[], open_vars=set())
    committed = []    # dict(i, begin, cp, end, log) in commit-point order
    closing = {}      # sharer -> section being released
    gets = []         # (time, v, value, set of vars touched by open sections at that time)
    t = 0
    for s in steps:
        t += 1
        i = s["i"]
        if s["st"] == "skip":
            continue
        if s["op"] == "begin":
            cur[i] = dict(i=i, begin=t, log=[], held=set())
        elif s["op"] == "acc":
            if i not in cur:
                continue
            if s["st"] == "ok":
                cur[i]["log"].append((s["v"], s["kind"], s["args"], s["out"]))
                cur[i]["held"].add(s["v"])
            else:  # timeout: the section aborts
                sec = cur.pop(i)
                sec["committed"] = False
                if case["mode"] == "api":
                    closing[i] = sec
        elif s["op"] in ("cstart", "commit"):
            if i in cur:
                sec = cur.pop(i); sec["cp"] = t; sec["committed"] = True; sec["end"] = None
                committed.append(sec)
                if case["mode"] == "api":
                    closing[i] = sec
                else:
                    sec["end"] = t; sec["held"] = set()
        elif s["op"] in ("astart", "abort"):
            if i in cur:
                sec = cur.pop(i); sec["committed"] = False
                if case["mode"] == "api":
                    closing[i] = sec
        elif s["op"] in ("crel", "arel"):
            if i in closing:
                closing[i]["held"].discard(s["v"])
        elif s["op"] == "end":
            if i in closing:
                sec = closing.pop(i)
                if sec.get("committed"):
                    sec["end"] = t
        elif s["op"] == "get":
            touched = set()
            for sec in list(cur.values()) + list(closing.values()):
                touched |= sec["held"]
            gets.append((t, s["v"], s["out"], touched, len(committed)))
    if cur or closing:
        # script left sections open (should not happen: generator winds down) - final snapshot not comparable
        return fails
    final = [canon(x) for x in (out.get("final") or [])]
    if any(isinstance(x, str) for x in final):
        fails.append(("blocked-forever:final-snapshot", "GetState after all sections ended did not return: %s" % final))
        return fails

    def replay(store, sec):
        st = list(store)
        for (v, kind, args, outv) in sec["log"]:
            try:
                new, o = py_exec(kind, args, st[v])
            except Exception:
                return None
            if canon(o) != canon(outv):
                return None
            st[v] = canon(new)
        return st

    def check_gets(order_prefix_stores):
        return True

    # fast path: commit-point order
    def run_order(order):
        st = list(init)
        stores = [list(st)]
        for sec in order:
            st = replay(st, sec)
            if st is None:
                return None
            stores.append(list(st))
        return stores

    stores = run_order(committed)
    ok = stores is not None and stores[-1] == final
    if ok:
        # observers between sections: a variable no open section has touched shows the committed value
        for (tg, v, val, touched, ncommitted) in gets:
            if v not in touched and val != stores[ncommitted][v]:
                fails.append(("observer-sees-uncommitted", "GetState of x%d at step %d returned %s, committed value is %s" % (v, tg, val, stores[ncommitted][v])))
                break
        return fails
    # slow path: any serial order consistent with real time (A ended before B began => A first)
    n = len(committed)
    found = [False]
    budget = [200000]

    def dfs(done, st):
        if found[0] or budget[0] <= 0:
            return
        budget[0] -= 1
        if len(done) == n:
            if st == final:
                found[0] = True
            return
        for k in range(n):
            if k in done:
                continue
            b = committed[k]
            if any(j not in done and j != k and committed[j]["end"] is not None and committed[j]["end"] < b["begin"] for j in range(n)):
                continue
            st2 = replay(st, b)
            if st2 is not None:
                dfs(done | {k}, st2)

    dfs(frozenset(), list(init))
    if not found[0]:
        # classify
        why = "final-store" if stores is not None else "read"
        detail = ""
        st = list(init)
        for sec in committed:
            st2 = replay(st, sec)
            if st2 is None:
                detail = "section of sharer %d committed at step %d observed %s, which no serial order explains" % (sec["i"], sec["cp"], sec["log"])
                break
            st = st2
        else:
            detail = "final store %s differs from serial store %s" % (final, st)
        fails.append(("not-serializable:" + why, detail))
    return fails


def nontrivial(case, out):
    res = out.get("res") or []
    if any(r["st"] == "timeout" for r in res):
        return True
    return False


# ------------------------------------------------------------------ correspondence with the Coq model

def coq_val(v):
    if isinstance(v, dict):
        return "(VMap [%s])" % "; ".join("((%d)%%Z, (%d)%%Z)" % (k, x) for k, x in v["m"])
    return "(VInt (%d)%%Z)" % v


def coq_oval(v):
    return "None" if v is None else "(Some %s)" % coq_val(v)


def coq_acc(kind, args):
    if kind == "r":
        return "ARead"
    if kind == "w":
        return "(AWrite %s)" % coq_val(args[0])
    if kind == "ir":
        return "(AIdxRead (%d)%%Z)" % args[0]
    if kind == "iw":
        return "(AIdxWrite (%d)%%Z (%d)%%Z)" % (args[0], args[1])
    raise ValueError(kind)


def to_events(case, out):
    """event list with the implementation's outputs; returns (list of coq pair strings, problem or None)"""
    res = out.get("res") or []
    steps = flatten(case, res)
    evs = []
    dirty = {}
    ctx = case["mode"] == "ctx"
    for s in steps:
        i = s["i"]
        if s["st"] == "skip" and not strict(case):
            continue   # after a legitimate timeout on a free lock the script could not take this step: it did nothing
        if s["st"] not in ("ok", "timeout"):
            return evs, "step %s returned %s" % (s, s["st"])
        if s["op"] == "begin":
            evs.append("(EBegin %d, None)" % i); dirty[i] = set()
        elif s["op"] == "acc":
            dirty.setdefault(i, set()).add(s["v"])
            if s["st"] == "ok":
                evs.append("(EAccess %d %d %s, %s)" % (i, s["v"], coq_acc(s["kind"], s["args"]), coq_oval(s["out"])))
            else:
                evs.append("(ETimeout %d %d, None)" % (i, s["v"]))
                if ctx:
                    for v in sorted(dirty[i]):
                        evs.append("(EAbortRelease %d %d, None)" % (i, v))
                    evs.append("(EEnd %d, None)" % i); dirty[i] = set()
        elif s["op"] == "cstart":
            evs.append("(ECommitStart %d, None)" % i)
        elif s["op"] == "astart":
            evs.append("(EAbortStart %d, None)" % i)
        elif s["op"] == "crel":
            evs.append("(ECommitRelease %d %d, None)" % (i, s["v"]))
        elif s["op"] == "arel":
            evs.append("(EAbortRelease %d %d, None)" % (i, s["v"]))
        elif s["op"] == "end":
            evs.append("(EEnd %d, None)" % i)
        elif s["op"] == "commit":
            evs.append("(ECommitStart %d, None)" % i)
            for v in sorted(dirty.get(i, ()), reverse=True):   # any order: the model is confluent here
                evs.append("(ECommitRelease %d %d, None)" % (i, v))
            evs.append("(EEnd %d, None)" % i); dirty[i] = set()
        elif s["op"] == "abort":
            evs.append("(EAbortStart %d, None)" % i)
            for v in sorted(dirty.get(i, ())):
                evs.append("(EAbortRelease %d %d, None)" % (i, v))
            evs.append("(EEnd %d, None)" % i); dirty[i] = set()
        elif s["op"] == "get":
            evs.append("(EGetState %d %d, %s)" % (i, s["v"], coq_oval(s["out"])))
    for v, x in enumerate(out.get("final") or []):
        if isinstance(x, str):
            return evs, "final snapshot of x%d: %s" % (v, x)
        evs.append("(EGetState %d %d, %s)" % (OBSERVER, v, coq_oval(canon(x))))
    return evs, None


def corpus():
    out = []
    d = os.path.join(vlib.VERIF, "corpus", "C07")
    if os.path.isdir(d):
        for f in sorted(os.listdir(d)):
            if f.endswith(".json"):
                c = json.load(open(os.path.join(d, f)))
                out.append(c.get("case", c))
    return out


def strip(c):
    return {k: v for k, v in c.items() if not k.startswith("_")}


def run(ctx):
    rng = ctx.rng
    n = 260 if ctx.tier == "quick" else 4000
    if ctx.replay:
        cases = [json.load(open(ctx.replay))["case"]]
    else:
        cases = corpus()
        for k in range(n):
            cases.append(gen_case(rng, ctx.tier))
        for k in range(3 if ctx.tier == "quick" else 25):
            cases.append(gen_stress(rng, ctx.tier, zero=(k == 0) if ctx.tier == "quick" else None))
    for k, c in enumerate(cases):
        c["id"] = k
    # run the harness in a few chunks (each case costs its timeouts)
    rc, res, err = vlib.run_jsonl("c07", [expand_for_harness(c) for c in cases], timeout=1500)
    byid = {r["id"]: r for r in res}
    if rc != 0 or len(byid) != len(cases):
        ctx.breaks.append({"what": "harness c07 failed (rc=%d, %d/%d results)" % (rc, len(byid), len(cases)), "detail": err[-2000:]})
        return
    # outcomes that depend on load (timeout on a free lock, missed deadline) : re-run those cases once, alone
    retry = [c for c in cases if c["mode"] != "stress" and not (byid[c["id"]].get("err") or "").startswith("not run")
             and anomalies(c, byid[c["id"]]) > 0]
    retried = 0
    if retry and len(retry) <= 40:
        rc2, res2, err2 = vlib.run_jsonl("c07", [expand_for_harness(c) for c in retry], timeout=900)
        for r in res2:
            byid[r["id"]] = r; retried += 1
    ctx.extra["retried_after_load_dependent_outcome"] = retried
    tdist = {}
    for c in cases:
        key = "0" if c["timeout_ms"] == 0 else "1ns" if c["timeout_ms"] < 1e-3 else "%gms" % c["timeout_ms"]
        tdist[key] = tdist.get(key, 0) + 1
    ctx.extra["lock_timeout_settings"] = tdist
    dist = {"api": 0, "ctx": 0, "stress": 0, "stress_commits": 0, "stress_attempts": 0, "timeouts": 0, "commits": 0, "aborts": 0, "persist_vars": 0, "steps": 0, "gets": 0}
    for c in cases:
        o = byid[c["id"]]
        c["_out"] = o
        if (o.get("err") or "").startswith("not run"):
            c["_skipped"] = True
            dist["not_run_after_hangs"] = dist.get("not_run_after_hangs", 0) + 1
            continue
        dist[c["mode"]] += 1
        if c["mode"] == "stress":
            c["_skipped"] = True   # no model comparison: concurrent run, search aid only
            dist["stress_commits"] += sum(o.get("commits") or [])
            dist["stress_attempts"] += sum(o.get("attempts") or [])
            ctx.add_case(json.dumps([c["mode"], c["nsh"], c["vars"], c["iters"], c["seed"]]), True)
            for sig, what in oracle_stress(c, o):
                ctx.failures.append({"signature": sig, "what": what, "case": strip(c), "obs": o})
            continue
        dist["steps"] += len(c["ops"])
        if anomalies(c, o) > 0:
            dist["load_dependent_after_retry"] = dist.get("load_dependent_after_retry", 0) + 1
        dist["timeouts"] += sum(1 for r in o.get("res") or [] if r["st"] == "timeout")
        dist["commits"] += sum(1 for op in c["ops"] if op[0] in ("cstart", "commit"))
        dist["aborts"] += sum(1 for op in c["ops"] if op[0] in ("astart", "abort"))
        dist["gets"] += sum(1 for op in c["ops"] if op[0] == "get")
        dist["persist_vars"] += sum(1 for v in c["vars"] if v.get("persist"))
        ctx.add_case(json.dumps([c["mode"], c["nsh"], c["vars"], c["ops"]]), nontrivial(c, o))
        if o.get("err") and o.get("err") != "hang":
            ctx.breaks.append({"what": "harness reported an error on a case: " + o["err"][:200], "case": strip(c), "impl": o})
        for sig, what in oracle(c, o):
            ctx.failures.append({"signature": sig, "what": what, "case": strip(c), "obs": o})
    ctx.extra["input_distribution"] = dist
    ctx.samples = [{"mode": c["mode"], "nsh": c["nsh"], "vars": c["vars"], "ops": c["ops"][:16],
                    "impl": [(r["st"], r.get("v")) for r in (c["_out"].get("res") or [])[:16]]}
                   for c in cases[:40] if c["mode"] != "stress" and not c.get("_skipped")][:4]
    if dist.get("not_run_after_hangs"):
        ctx.breaks.append({"what": "%d cases not run because earlier cases blocked forever" % dist["not_run_after_hangs"]})
    # tie B: the model, evaluated inside Coq, must accept the implementation's observations step by step
    if ctx.coq_ok:
        shard = 400
        for s0 in range(0, len(cases), shard):
            part = cases[s0:s0 + shard]
            items = []
            probs = {}
            for k, c in enumerate(part):
                if c.get("_skipped"):
                    items.append("(false, [], [])")
                    continue
                evs, prob = to_events(c, c["_out"])
                if prob:
                    probs[k] = prob
                items.append("(%s, %s,\n  [%s])" % ("true" if strict(c) else "false",
                                                   vlib.coq_list([coq_val(canon(v["init"])) for v in c["vars"]]), ";\n   ".join(evs)))
            body = ("From PGV Require Import C07.Model.\n"
                    "Definition cases : list (bool * list val * list (event * option val)) :=\n [" + ";\n ".join(items) + "].\n"
                    "Definition M := Eval vm_compute in mismatches_from 0 cases.\nPrint M.\n")
            rc, outc, errc = vlib.coq_eval("C07_cases_%d" % s0, body)
            mm = vlib.parse_nat_list(outc, "M") if rc == 0 else None
            if mm is None:
                ctx.breaks.append({"what": "correspondence evaluation C07_cases did not compile", "detail": (outc + errc)[-2000:]})
                break
            for k in sorted(set(mm) | set(probs)):
                c = part[k]
                ctx.breaks.append({"what": "correspondence C07/Model.v vs localshared.go differs on a schedule" +
                                   (": " + probs[k] if k in probs else ""),
                                   "case": strip(c), "impl": c["_out"],
                                   "model": "check_run rejected the implementation's observations (see events)"})
    if ctx.replay:
        c = cases[0]
        print("replay: impl results", json.dumps(c["_out"]))
        print("replay: oracle", (oracle_stress if c["mode"] == "stress" else oracle)(c, c["_out"]), "correspondence breaks", len(ctx.breaks))


MANIFEST = {
    "category": "proof",
    "technique": "Coq proof (inductive invariant over all event lists of a labelled transition system; refinement to the serial store in commit-point order) + differential correspondence model vs localshared.go",
    "text": "see notes/C07.md",
    "level_note": "Trusted: Coq kernel; hand-written model tied by differential testing (api and ctx modes, single driver thread); Go channel/select/time.After as a timed lock.",
}
