"""C19 — failure detector is complete and settles to accurate answers (DESIGN §4 C19)."""
import json, os
import vlib

ID = "C19"
THEOREMS = "Properties/C19.v"
HARNESS = ["c19"]
LEVEL = "proof"
READY = True
TRUSTED_BASE = [
    "Coq 8.16.1 kernel (coqc, full .vo build); vm_compute in the two Examples and in the correspondence evaluation",
    "no axioms: Print Assumptions reports 'Closed under the global context' for every theorem of Properties/C19.v",
    "hand-written model coq/C19/Model.v of distsys/resources/fd.go (RunArchetype, IsAlive, one tick of mainLoop, ReadValue) and of the environment "
    "(monitor process / listener / partition / the detector's connection), tied by differential execution on loopback (harness/cmd/c19)",
    "net/rpc, net.DialTimeout, time.Ticker, time.After behave as documented: a dial to a closed listener fails, a call on a cut connection fails "
    "(ErrShutdown once the client has noticed), a call that gets no answer times out; they are the oracle arguments of `poll`",
    "the harness's TCP forwarder (crash = cut + refuse, partition = freeze + refuse) stands for the network",
]
ASSUMPTIONS = [
    "a poll is atomic in the model (it sees the monitor's state at one instant); a poll in flight while the target goes down may still report the old state — 'the first poll started after that point' is what is proved",
    "TIMING IS ONLY SAMPLED: that a tick completes within timeout + one pull interval, and hence 'within a bounded number of polling intervals', is the runtime's behaviour; "
    "the check observes it on loopback with pull intervals of 20-50 ms and timeouts of 0.5-0.8 of the interval, the theorems count polls",
    "one monitored archetype id and one detector per execution (detectors do not interact; Monitor.states is keyed by id)",
    "a new monitor process starts with an empty state map (a restarted archetype must be registered again by RunArchetype)",
]
RULE = ("cases = event scripts from one PRNG (VERIF_SEED): monitor start / Monitor.Close / crash / restart, partition on/off, archetype start, archetype end by "
        "return, error, panic or Stop, detector start at a random position; after every change a wait of 5-6 pull intervals and a read, plus short waits (0-2 intervals) with reads "
        "for unsettled states. A wait of k intervals is k-2..k+2 polls in the model; a script agrees if some resolution explains all reads. "
        "Non-trivial = at least one state change of the monitored archetype or of its monitor's reachability after the detector started; distinct by canonical script text.")

INTERVAL, TIMEOUT = 30, 18
HOWS = ["normal", "error", "panic", "stop"]


def gen_case(rng, tier):
    ev = []
    mon, net_up, arch, det = "none", True, "none", False   # mon: none|listening|closed|crashed ; arch: none|running|ended
    n = rng.randint(5, 11)
    det_at = rng.randint(0, 3)
    def settle():
        if rng.random() < 0.25:
            ev.append({"e": "wait", "k": rng.randint(0, 2)}); ev.append({"e": "read"})
        ev.append({"e": "wait", "k": rng.randint(5, 6)}); ev.append({"e": "read"})
    for i in range(n):
        if i == det_at and not det:
            ev.append({"e": "det_start"}); det = True
            if rng.random() < 0.5:
                ev.append({"e": "read"})
            settle()
            continue
        opts = []
        if mon in ("none", "crashed"):
            opts += ["mon_start"] * 4
        if mon == "listening":
            opts += ["mon_close", "crash", "crash"]
        if mon == "closed":
            opts += ["crash"]
        if net_up and mon != "none":
            opts += ["net_down"]
        if not net_up:
            opts += ["net_up"] * 3
        if mon in ("listening", "closed") and arch != "running":
            opts += ["arch_start"] * 4
        if arch == "running" and mon in ("listening", "closed"):
            opts += ["arch_end"] * 3
        if not opts:
            opts = ["mon_start"]
        e = rng.choice(opts)
        if e == "mon_start":
            mon = "listening"; arch = "none"
        elif e == "mon_close":
            mon = "closed"
        elif e == "crash":
            mon = "crashed"; arch = "none"
        elif e == "net_down":
            net_up = False
        elif e == "net_up":
            net_up = True
        elif e == "arch_start":
            arch = "running"
        if e == "arch_end":
            ev.append({"e": "arch_end", "how": rng.choice(HOWS)}); arch = "ended"
        else:
            ev.append({"e": e})
        if det:
            settle()
    if not det:
        ev.append({"e": "det_start"}); ev.append({"e": "wait", "k": 5}); ev.append({"e": "read"})
    iv = rng.choice([20, 30, 30, 40, 50])
    return {"interval_ms": iv, "timeout_ms": max(10, int(iv * rng.choice([0.5, 0.6, 0.8]))), "events": ev}


def gen_hang_case(rng):
    """the detector is started against a monitor that accepts connections and answers nothing, with a timeout much larger
    than the pull interval, and is read at once: ReadValue may hold the critical section for ONE pull interval"""
    iv = rng.choice([30, 40])
    ev = [{"e": "mon_start"}]
    if rng.random() < 0.7:
        ev.append({"e": "arch_start"})
    ev += [{"e": "hang"}, {"e": "det_start"}, {"e": "read"}]
    if rng.random() < 0.5:
        ev.append({"e": "read"})
    ev += [{"e": "wait", "k": 66}, {"e": "read"}]
    if rng.random() < 0.5:
        ev += [{"e": "unhang"}, {"e": "wait", "k": 66}, {"e": "read"}]
    return {"interval_ms": iv, "timeout_ms": iv * 10, "events": ev}


def corpus():
    out = []
    d = os.path.join(vlib.VERIF, "corpus", "C19")
    if os.path.isdir(d):
        for f in sorted(os.listdir(d)):
            if f.endswith(".json"):
                c = json.load(open(os.path.join(d, f)))
                out.append(c.get("case", c))
    return out


# hang/unhang (the host accepts TCP but answers nothing) are ENetDown/ENetUp for the model: every call times out; that the
# dial itself succeeds changes only the detector's private connection bookkeeping, not what it reports
EV = {"mon_start": "EMonStart", "mon_close": "EMonClose", "crash": "ECrash", "net_down": "ENetDown", "net_up": "ENetUp",
      "hang": "ENetDown", "unhang": "ENetUp",
      "arch_start": "EArchStart", "det_start": "EDetStart"}
HOW = {"normal": "HNormal", "stop": "HNormal", "error": "HError", "panic": "HPanic"}
RV = {"T": "VTrue", "F": "VFalse", "abort": "VAbort"}


def script_to_coq(c, r):
    reads = {x["at"]: x for x in r["reads"]}
    out = []
    for i, e in enumerate(c["events"]):
        k = e["e"]
        if k in EV:
            out.append("SE %s" % EV[k])
        elif k == "arch_end":
            out.append("SE (EArchEnd %s)" % HOW[e["how"]])
        elif k == "wait":
            slow = c["timeout_ms"] > c["interval_ms"]   # a tick that times out then takes longer than an interval: fewer polls
            out.append("SWaitPolls %d %d" % (0 if slow else max(0, e["k"] - 2), e["k"] + 2))
        elif k == "read":
            if i in reads:
                out.append("SWaitPolls 0 1")   # a read is not instantaneous for the scheduler either
                out.append("SRead %s" % RV.get(reads[i]["v"], "VAbort"))
    return vlib.coq_list(out)


def oracle(c, r):
    """the property read directly: ground truth of the script vs what ReadValue said"""
    fails = []
    if r["err"]:
        return [("harness-" + r["err"].split(":")[0].replace(" ", "-")[:40], r["err"])]
    reads = {x["at"]: x for x in r["reads"]}
    iv = c["interval_ms"]
    mon, net_up, arch, det = "none", True, "none", False
    hung = False
    stable = 0             # pull intervals since the last change of the ground truth
    since_det = 0
    cause = "never-started"
    ends = []
    for i, e in enumerate(c["events"]):
        k = e["e"]
        if k == "wait":
            # with timeout > interval a tick that times out lasts interval + timeout: count waits in those units
            eff = e["k"] * iv // (iv + c["timeout_ms"]) if c["timeout_ms"] > iv else e["k"]
            stable += eff; since_det += eff if det else 0
            continue
        if k == "read":
            o = reads.get(i)
            if o is None:
                continue
            if o["ms"] > iv + 100:
                fails.append(("read-blocks-too-long", "ReadValue took %.1f ms with a pull interval of %d ms" % (o["ms"], iv)))
            if o["v"] not in ("T", "F", "abort"):
                fails.append(("read-error", "ReadValue returned %s" % o["v"]))
            if o["v"] == "abort":
                stable += 1; since_det += 1
                if since_det >= 5:
                    fails.append(("still-uninitialized", "ReadValue still aborts %d intervals after the detector started" % since_det))
                continue
            # listener closed while the archetype runs: alive is right if the detector connected earlier, failed if not;
            # the driver cannot tell which, so that situation is judged by the model only
            down = mon in ("none", "crashed") or not net_up or hung or arch != "running"
            if det and stable >= 5 and since_det >= 5:
                if down and o["v"] != "T":
                    fails.append(("not-failed-after-" + cause, "%d intervals after %s the detector reports alive" % (stable, cause)))
                if (not down) and mon == "listening" and o["v"] != "F":
                    fails.append(("not-alive-while-up", "%d intervals with the archetype running and its monitor reachable the detector reports failed" % stable))
            continue
        stable = 0
        if k == "det_start":
            det = True; since_det = 0
        elif k == "mon_start":
            mon = "listening"; arch = "none"; cause = "monitor-restart-without-archetype"
        elif k == "mon_close":
            mon = "closed"; cause = "monitor-close"
        elif k == "crash":
            mon = "crashed"; arch = "none"; cause = "monitor-crash"
        elif k == "net_down":
            net_up = False; cause = "partition"
        elif k == "net_up":
            net_up = True
        elif k == "hang":
            hung = True; cause = "monitor-hang"
        elif k == "unhang":
            hung = False
        elif k == "arch_start":
            if mon in ("listening", "closed"):
                arch = "running"
        elif k == "arch_end":
            if arch == "running":
                arch = "ended"; cause = "archetype-end-" + e["how"]; ends.append(e["how"])
    want = [{"normal": "nil", "stop": "nil", "error": "error", "panic": "panic"}[h] for h in ends]
    if r["arch_err"] != want:
        fails.append(("runarchetype-result", "RunArchetype returned %s for endings %s" % (r["arch_err"], ends)))
    if r.get("close_ms", 0) < 0:
        fails.append(("detector-close-hangs", "SingleFailureDetector.Close did not return"))
    return fails


def slowed(c):
    """the same script with three times the pull interval and timeout (used to confirm a suspected failure)"""
    d = dict(c)
    d["interval_ms"] = c["interval_ms"] * 3
    d["timeout_ms"] = c["timeout_ms"] * 3
    return d


def canon(c):
    return json.dumps(c["events"], sort_keys=True)


def nontrivial(c):
    det = False
    for e in c["events"]:
        if e["e"] == "det_start":
            det = True
        elif det and e["e"] in ("arch_start", "arch_end", "crash", "mon_close", "net_down", "net_up", "mon_start", "hang", "unhang"):
            return True
    return False


def run_harness(cases):
    rc, res, err = vlib.run_jsonl("c19", [dict(c) for c in cases], timeout=1500)
    return rc, {r["id"]: r for r in res}, err


def model_mismatches(cases, byid, name):
    body = ("From PGV Require Import C19.Model.\n"
            "Definition cases : list (list sev) :=\n " +
            vlib.coq_list([script_to_coq(c, byid[c["id"]]) for c in cases]).replace("]; [", "];\n [") + ".\n"
            "Definition M := Eval vm_compute in mismatches_from 0 cases.\nPrint M.\n")
    rc, out, err = vlib.coq_eval(name, body)
    if rc != 0:
        return None, out + err
    return vlib.parse_nat_list(out, "M"), out


def run(ctx):
    rng = ctx.rng
    n = 80 if ctx.tier == "quick" else 600
    if ctx.replay:
        rp = json.load(open(ctx.replay))
        cases = [rp["case"]]
    else:
        cases = corpus()
        for i in range(n):
            cases.append(gen_case(rng, ctx.tier))
        for i in range(2 if ctx.tier == "quick" else 12):
            cases.append(gen_hang_case(rng))
    for i, c in enumerate(cases):
        c["id"] = i
    # Monitor.Close racing with the accept loop (in a process of its own: a crash there takes the process down)
    if not ctx.replay or (ctx.replay and cases[0].get("closerace")):
        nrace = 200 if ctx.tier == "quick" else 1500
        rcr, outr, errr = vlib.sh([os.path.join(vlib.BIN, "c19"), "-closerace", str(nrace)], timeout=600)
        ctx.add_case("closerace-%d" % nrace, True)
        ctx.extra["closerace"] = {"iterations": nrace, "rc": rcr, "out": outr.strip()[-100:]}
        if rcr != 0 or '"ok"' not in outr:
            sig = "monitor-close-race-did-not-return" if "did-not-return" in outr else "monitor-close-race-crash"
            ctx.failures.append({"signature": sig, "what": "Monitor.Close while connections arrive: the accept loop %s" %
                                 ("did not return" if "did-not-return" in outr else "crashed the process: " + (errr.strip().split("\n") or [""])[0][:200]),
                                 "case": {"closerace": nrace, "interval_ms": INTERVAL, "timeout_ms": TIMEOUT, "events": []}, "obs": (outr + errr)[-1500:]})
    cases = [c for c in cases if not c.get("closerace")]
    if not cases:
        return
    rc, byid, err = run_harness(cases)
    if rc != 0 or len(byid) != len(cases):
        ctx.breaks.append({"what": "harness c19 failed (rc=%d, %d/%d results)" % (rc, len(byid), len(cases)), "detail": err[-2000:]})
        return
    dist = {"events": {}, "ends": {}, "reads": {"T": 0, "F": 0, "abort": 0}, "max_read_ms": 0.0}
    suspects = []
    for c in cases:
        r = byid[c["id"]]
        ctx.add_case(canon(c), nontrivial(c))
        fs = oracle(c, r)
        if fs:
            suspects.append((c, fs))
        for e in c["events"]:
            dist["events"][e["e"]] = dist["events"].get(e["e"], 0) + 1
            if e["e"] == "arch_end":
                dist["ends"][e["how"]] = dist["ends"].get(e["how"], 0) + 1
        for x in r["reads"]:
            dist["reads"][x["v"]] = dist["reads"].get(x["v"], 0) + 1
            dist["max_read_ms"] = max(dist["max_read_ms"], x["ms"])
    # a property failure on a timing-sensitive run is confirmed by running the script once more, alone
    for c, fs in suspects:
        # on an overloaded machine a loopback RPC can miss an 18 ms timeout; a logic error does not go away with slower settings
        c3 = slowed(c)
        rc2, by2, _ = vlib.run_jsonl("c19", [c3], timeout=600, env={"C19_WORKERS": "1"})
        r2 = by2[0] if by2 else None
        fs2 = oracle(c3, r2) if r2 else fs
        sigs2 = {s for s, _ in fs2}
        for sig, what in fs:
            if sig in sigs2:
                ctx.failures.append({"signature": sig, "what": what, "case": c, "obs": r2 or byid[c["id"]]})
        ctx.extra["oracle_rechecks"] = ctx.extra.get("oracle_rechecks", 0) + 1
    ctx.extra["input_distribution"] = dist
    ctx.extra["timing"] = {"interval_ms": sorted({c["interval_ms"] for c in cases}), "timeout_ms": sorted({c["timeout_ms"] for c in cases}),
                           "note": "timing only sampled"}
    ctx.samples = [{"events": c["events"][:14], "reads": byid[c["id"]]["reads"][:6]} for c in cases[:3]]
    if ctx.coq_ok:
        mm, out = model_mismatches(cases, byid, "C19_cases")
        if mm is None:
            ctx.breaks.append({"what": "correspondence evaluation C19_cases did not compile", "detail": out[-2000:]})
        elif mm:
            again = [slowed(cases[k]) for k in mm][:20]
            rc2, by2, _ = vlib.run_jsonl("c19", [dict(c) for c in again], timeout=900, env={"C19_WORKERS": "2"})
            by2 = {r["id"]: r for r in by2}
            if rc2 == 0 and len(by2) == len(again):
                mm2, out2 = model_mismatches(again, by2, "C19_retry")
                for k in (mm2 or []):
                    c = again[k]
                    ctx.breaks.append({"what": "correspondence C19/Model.v vs distsys/resources/fd.go differs on an event script (twice)",
                                       "case": c, "impl": by2[c["id"]], "model": script_to_coq(c, by2[c["id"]])})
            ctx.extra["retried_cases"] = len(again)
    if ctx.replay:
        r = byid[cases[0]["id"]]
        print("replay: go result", json.dumps(r))
        print("replay: oracle", oracle(cases[0], r), "correspondence breaks", len(ctx.breaks))


MANIFEST = {
    "category": "proof",
    "technique": "Coq proof over the poll state machine (every runtime outcome of a tick) and over every list of environment events + loopback differential correspondence",
    "text": ("Theorems in coq/Properties/C19.v, closed under the global context: poll_complete / poll_accurate / poll_initialises (one tick of mainLoop, for every dial and RPC outcome "
             "and every detector state: unless the dial succeeded and the monitor answered alive the state is failed/finished and ReadValue is TRUE); wrapper_records_end (RunArchetype: "
             "return, error and panic all leave a non-alive state); complete (for every event list — monitor start/Close/crash, partition, archetype start/end, detector start, polls in any order — "
             "in which the target is down throughout: TRUE after the first poll and at every later moment); accurate_when_up (target up and reachable throughout: FALSE from the first successful "
             "poll on); settles_within_three_polls (from any detector state, incl. a stale connection to a dead incarnation); read_pure (ReadValue is a function of the state, blocks at most one "
             "interval and only while uninitialized); no_delay_after_first_poll / uninit_until_first_poll (history level of the read-delay clause: after the first tick of a running loop no read ever aborts "
             "or blocks again, before it every read blocks exactly one interval); report_changes_only_at_polls / detector_off_is_frozen (frame: no environment event, only a tick of the detector's own running loop, "
             "changes the detector state or a read's result); alive_report_sound (a poll never yields 'alive' unless the monitor was serving, reachable and held AAlive at that instant). Tie: harness/cmd/c19 runs event scripts against real Monitor/SingleFailureDetector objects on 127.0.0.1 through a forwarder that can cut/freeze "
             "connections; the reads are compared with the model (a wait of k intervals = k-2..k+2 polls); an implementation-side oracle checks completeness, accuracy, read latency and RunArchetype's results "
             "against the script's ground truth."),
    "level_note": ("PARTIAL ON TIMING: theorems count polls; that a tick completes within timeout + interval (net/rpc, time.Ticker) is only sampled at 20-50 ms intervals on loopback, and a differing or failing "
                   "script is re-run once, alone, with three times the interval and timeout, before it counts. A poll is atomic in the model. Trusted: Coq kernel, the hand-written model, net/rpc and the forwarder as the network."),
}
