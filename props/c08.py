"""C08 — Generated Raft KV store keeps the Raft safety invariants (DESIGN §4 C08)."""
import json, os, time
import vlib
import c08_raft as R
import c08_walk as W

ID = "C08"
THEOREMS = "Properties/C08.v"
HARNESS = ["c08"]
LEVEL = "proof"
READY = True
TRUSTED_BASE = [
    "Coq 8.16.1 kernel (coqc, full .vo build); vm_compute in the non-vacuity example, the refutation witnesses and the correspondence evaluation",
    "no axioms: Print Assumptions reports 'Closed under the global context' for every theorem of Properties/C08.v",
    "hand-written typed model coq/C08/Model.v of raftkvs.tla/raftkvs.go, tied by running the REAL generated archetypes "
    "(harness/cmd/c08 + harness/steplib: real MPCalContext.Run loop, gate FairnessCounter, spec-state resources implementing the "
    "spec's mapping macros) on seeded random schedules and comparing outcome + complete spec state after every step",
    "network, failure detector, timers, channels are spec-state resources (that a label is atomic and a link FIFO is C01/C06/C07; per-link "
    "FIFO is an explicit hypothesis, cfg_fifo); the 12 shared variables are checked in two ways: as spec state, and in `wiring` mode as the "
    "very LocalShared/persistent resources systems/raftkvs/bootstrap wires for the five archetypes of a server (verif hooks "
    "bootstrap.VerifServerCtxs, distsys.VerifArchetypeResource)",
    "steplib, raftstep, the Python flattening/hash of the state and the walk generator are test infrastructure",
]
ASSUMPTIONS = [
    "network: per (sending archetype instance, destination) FIFO, arbitrary interleaving between links, loss allowed (Send's fd branch), "
    "bounded buffers; this is what the property statement quantifies over. Under the spec's own bag discipline the invariants fail "
    "(bag_network_refuted)",
    "crash-stop as the spec models it (netEnabled := FALSE; no restart)",
]
RULE = ("cases = corpus/C08/*.json (targeted scenarios: stale leader, old-term entry, Raft Figure 8, deposed leader, split vote, commit_regress = new leader with a lower leaderCommit, even_split = 4 servers in two halves, stepdown_midfanout, divergent_vote = longer log with older last term, stale_matchindex = re-elected leader (5 servers), overwrite_same_key, bag reorder; "
        "each FIFO scenario also in wiring mode = over the resources bootstrap/server.go wires), then seeded adaptive random walks over the real generated archetypes: 1-5 servers x 5 archetypes, "
        "1-3 clients, crashers for a random minority, buffer 2-10, profiles steady/elections/lossy/crash/retry/service/handover (= leader change right after a commit that reached only part of the followers)/stepdown (= an isolated leader "
        "steps down between two iterations of its AppendEntries fan-out, the fan-out then continues), "
        "every 5th walk has 4 servers and every 5th has 2 (half of them start with both halves holding an election), 100-2000 steps; "
        "the walker picks the next event from the observed Go state, ~5% of the events are chosen to abort (false await). "
        "Non-trivial = the walk saw >= 2 distinct (leader, term) pairs, or a crash, or non-empty queues at >= 2 nodes; distinct by schedule text.")


def corpus():
    out = []
    d = os.path.join(vlib.VERIF, "corpus", "C08")
    if os.path.isdir(d):
        for f in sorted(os.listdir(d)):
            if f.endswith(".json"):
                c = json.load(open(os.path.join(d, f)))
                c["file"] = f
                out.append(c)
    return out


def run_fixed(h, case):
    """a corpus/replay case: fixed list of intended events (+ optional pick indices)"""
    params = case["params"]
    events = [W.tuple_event(e) for e in case["events"]]
    picks = case.get("picks")
    w = h.new(params)
    tracker = R.CommitTracker(w)
    pm = R.pick_map(h, params["n"]) if (picks is None and any(e[0] == "EClientSnd" for e in events)) else {}
    if pm:
        w = h.new(params)
        tracker = R.CommitTracker(w)
    steps, failures, spec_lc = [], [], 0
    for k, ev in enumerate(events):
        pick = picks[k] if picks is not None else (pm.get(ev[2], 0) if ev[0] == "EClientSnd" else 0)
        oev, outcome, out = R.do_event(h, w, ev, pickidx=pick)
        code = R.OUTCOME_CODE.get(outcome, 9)
        d = w.digest()
        steps.append((oev, code, R.hash_digest(d), d))
        for wv in out.get("wiring") or []:
            failures.append({"signature": "shared-variable-not-shared:" + wv.split("[")[0],
                             "what": "deployment wiring (bootstrap/server.go): " + wv, "step": k})
        if outcome in ("error:assert", "error:tlatype", "error:other", "hang"):
            failures.append({"signature": "generated-code-" + outcome.replace(":", "-") + ":" + out["label"],
                             "what": "%s in %s: %s" % (outcome, out["label"], out.get("err", "")[:200]), "step": k})
        for sig, what in R.invariants(w) + tracker.check(w):
            failures.append({"signature": sig, "what": what, "step": k})
        if R.spec_leader_completeness(w) is not None:
            spec_lc += 1
        # a wiring violation alone does not stop the scenario: its consequence (e.g. two leaders) is looked for as well
        if code >= 2 or any(not f["signature"].startswith("shared-variable-not-shared") for f in failures):
            break
    return w, steps, failures, spec_lc


def check_in_coq(ctx, name, cases, what):
    """cases: list of (case_payload, params, steps); adds breaks for mismatches"""
    if not ctx.coq_ok or not cases:
        return
    shard = 12
    for s in range(0, len(cases), shard):
        part = cases[s:s + shard]
        mm, out = R.coq_check_cases("%s_%d" % (name, s), [(p, st) for _, p, st in part])
        if mm is None:
            ctx.breaks.append({"what": "correspondence evaluation %s did not compile" % name, "detail": out[-2000:]})
            return
        for k in mm:
            payload, p, st = part[k]
            where = R.coq_first_mismatch("%s_one" % name, p, st)
            ctx.breaks.append({"what": "correspondence C08/Model.v vs generated raftkvs.go differs (%s)" % what,
                               "case": payload, "impl": "first disagreeing step: " + where[-200:],
                               "model": where})


def run(ctx):
    rng = ctx.rng
    t0 = time.time()
    h = R.Harness("c08")
    coq_cases = []
    cover = {}
    profiles = {}
    sizes = {}
    total_steps = 0
    spec_lc_total = 0
    try:
        if ctx.replay:
            rp = json.load(open(ctx.replay))
            fixed = [rp["case"]]
        else:
            fixed = corpus()
        fixed2 = []
        for c in fixed:
            fixed2.append(c)
            if not ctx.replay and c["params"].get("fifo") and not c["params"].get("wiring"):
                # the same scenario over the shared-variable resources wired by systems/raftkvs/bootstrap (deployment wiring)
                cw = dict(c, params=dict(c["params"], wiring=True), name=str(c.get("name")) + "+wiring")
                cw.pop("expect", None)
                fixed2.append(cw)
                if ctx.tier != "quick":
                    # ... and with the persistence wrappers bootstrap puts around currentTerm / votedFor / plog (badger, scratch directory)
                    cp = dict(cw, params=dict(cw["params"], persist=True), name=str(c.get("name")) + "+wiring+persist")
                    fixed2.append(cp)
        for c in fixed2:
            w, steps, failures, spec_lc = run_fixed(h, c)
            spec_lc_total += spec_lc
            total_steps += len(steps)
            payload = {k: v for k, v in c.items() if k in ("params", "events", "picks", "name")}
            ctx.add_case(json.dumps(payload, sort_keys=True), True)
            exp = c.get("expect", {})
            if not c["params"]["fifo"]:
                # bag delivery is outside the property's quantifier: what the oracle sees here is information, and the
                # witness must keep showing the violation (otherwise the model of the network discipline is wrong)
                ctx.extra.setdefault("bag_mode_findings", []).extend(sorted(set(f["signature"] for f in failures)))
                if exp.get("bag_violation") and not failures:
                    ctx.breaks.append({"what": "corpus case %s (bag delivery) no longer violates leader completeness" % c.get("name"), "case": payload})
                failures = []
                steps = steps[:-1] if steps and steps[-1][1] >= 2 else steps
            for f in failures:
                ctx.failures.append({"signature": f["signature"], "what": f["what"], "case": payload, "obs": {"step": f["step"]}})
            if exp.get("spec_lc_as_written_violated") and spec_lc == 0:
                ctx.breaks.append({"what": "corpus case %s no longer shows the spec's LeaderCompleteness-as-written failing" % c.get("name"),
                                   "case": payload})
            coq_cases.append((payload, c["params"], steps))
            if ctx.replay:
                print("replay: %d steps, outcomes %s" % (len(steps), [s[1] for s in steps][-10:]))
                print("replay: oracle failures", failures, "spec-LC-as-written violated in %d states" % spec_lc)
        if not ctx.replay:
            nwalks, lo, hi = (10, 80, 220) if ctx.tier == "quick" else (90, 200, 2000)
            budget = 40 if ctx.tier == "quick" else 1500
            for k in range(nwalks):
                if time.time() - t0 > budget:
                    ctx.notes.append("walk budget reached after %d walks" % k)
                    break
                # even cluster sizes routinely (exactly half of the servers is not a quorum): every 5th walk has 4 servers, every 5th has 2
                params = W.gen_params(rng, ctx.tier, force_n=4 if k % 5 == 1 else 2 if k % 5 == 3 else None)
                if k % 3 == 2:
                    params["wiring"] = True          # shared variables = the resources bootstrap/server.go wires up
                    if ctx.tier != "quick" and k % 6 == 5:
                        params["persist"] = True     # with the persistence wrappers (badger in a scratch directory)
                profile = rng.choice(sorted(p_ for p_ in W.PROFILES if p_ not in ("handover", "stepdown")))
                nsteps = rng.randint(lo, hi)
                r = rng.random()
                prefix = W.scripted_election(params["n"], rng.randint(1, params["n"])) if r < 0.4 else W.scripted_duel(params["n"]) if r < 0.55 else ()
                if params["n"] % 2 == 0 and rng.random() < 0.5:
                    prefix = W.scripted_split(params["n"])      # both halves hold an election in the same term
                if k % 5 in (4, 0):
                    # k % 5 == 4: leader change right after a commit that reached only part of the followers (profile `handover` of the walker);
                    # k % 5 == 0: an isolated leader steps down between two iterations of its AppendEntries fan-out (profile `stepdown`)
                    n_ = rng.choice([3, 3, 5])
                    lead = rng.randint(1, n_)
                    keep = {kk: params[kk] for kk in ("wiring", "persist") if kk in params}
                    hand = k % 5 == 4
                    params = dict(W.gen_params(rng, ctx.tier, force_n=n_), crashers=[lead] if (hand and rng.random() < 0.6) else [],
                                  nc=rng.choice([2, 3]), buf=10, **keep)
                    profile, prefix = ("handover" if hand else "stepdown"), W.scripted_election(n_, lead)
                    nsteps = max(nsteps, rng.randint(160, 260) if hand else rng.randint(250, 400))
                res = W.walk(h, rng, params, nsteps, profile, prefix=prefix)
                payload = {"params": params, "events": res.intended, "picks": res.picks, "profile": profile}
                ctx.add_case(json.dumps(payload, sort_keys=True), res.nontrivial)
                total_steps += len(res.steps)
                spec_lc_total += res.spec_lc_violations
                profiles[profile] = profiles.get(profile, 0) + 1
                sizes["n=%d" % params["n"]] = sizes.get("n=%d" % params["n"], 0) + 1
                for kk, v in res.cover.items():
                    cover[kk] = cover.get(kk, 0) + v
                for f in res.failures:
                    ctx.failures.append({"signature": f["signature"], "what": f["what"], "case": payload, "obs": {"step": f["step"]}})
                coq_cases.append((payload, params, res.steps))
                if len(ctx.samples) < 3:
                    ctx.samples.append({"params": params, "profile": profile, "steps": len(res.steps),
                                        "leaders_seen": sorted(res.leaders), "first_events": res.intended[:8]})
    finally:
        h.close()
    t_walk = time.time() - t0
    ctx.extra["input_distribution"] = {"profiles": profiles, "cluster_sizes": sizes, "steps_total": total_steps}
    ctx.extra["label_outcome_coverage"] = dict(sorted(cover.items()))
    ctx.extra["states_where_spec_LeaderCompleteness_as_written_is_false"] = spec_lc_total
    t1c = time.time()
    check_in_coq(ctx, "C08_cases", coq_cases, "random walk / corpus")
    ctx.extra["phase_seconds"] = {"go_walks_and_corpus": round(t_walk, 1), "coq_correspondence": round(time.time() - t1c, 1)}
    # the tie broke but the oracle saw no violation yet: spend a fixed budget searching for a failing schedule (DESIGN section 5)
    if ctx.breaks and not ctx.failures and not ctx.replay:
        budget = 30 if ctx.tier == "quick" else 400
        t1 = time.time()
        h = R.Harness("c08")
        tried = 0
        try:
            while time.time() - t1 < budget and not ctx.failures:
                n = rng.choice([2, 3, 3, 3, 5])
                params = {"n": n, "nc": rng.choice([1, 2]), "buf": rng.choice([3, 6, 10]), "fifo": True, "explorefail": True,
                          "crashers": [], "keys": 1, "vals": 2}
                profile = rng.choice(["elections", "elections", "lossy", "steady"])
                r = rng.random()
                prefix = W.scripted_election(n, rng.randint(1, n)) if r < 0.4 else W.scripted_duel(n) if r < 0.8 else ()
                res = W.walk(h, rng, params, rng.randint(300, 1500), profile, prefix=prefix, full_every=0)
                tried += 1
                payload = {"params": params, "events": res.intended, "picks": res.picks, "profile": profile}
                for f in res.failures:
                    ctx.failures.append({"signature": f["signature"], "what": f["what"], "case": payload, "obs": {"step": f["step"]}})
        finally:
            h.close()
        ctx.extra["search_after_break"] = {"walks": tried, "seconds": round(time.time() - t1, 1), "found": bool(ctx.failures)}


MANIFEST = {
    "category": "proof",
    "technique": "Coq invariants by induction over all executions of a typed model of raftkvs (any number of servers, unbounded terms/logs) "
                 "+ step-level differential correspondence against the real generated archetypes + implementation-side invariant oracle",
    "text": ("Theorems in coq/Properties/C08.v, all closed under the global context and none partial: election_safety, log_matching, "
             "leader_append_only, term_monotone, commit_monotone, plog_eq_log (any network discipline); leader_completeness (the property's "
             "form, along executions), state_machine_safety and apply_log_ok (spec's invariants verbatim) under per-link FIFO delivery. "
             "Refutations with witnesses replayed on the generated Go: the spec's LeaderCompleteness as written is false "
             "(spec_leader_completeness_as_written_refuted), and under the spec's bag network leader completeness fails (bag_network_refuted). "
             "The model (coq/C08/Model.v, every label of the 7 archetypes and every mapping macro) is tied to systems/raftkvs/raftkvs.go by running "
             "the real generated archetypes step by step (harness/cmd/c08 on harness/steplib) on seeded adaptive random schedules and comparing "
             "outcome and complete spec state after every step with the model evaluated by vm_compute; the Raft invariants are evaluated on every visited Go state."),
    "level_note": ("Trusted: Coq kernel; the hand-written model (tie = differential execution: a change of raftkvs.go is caught when a walk or corpus "
                   "schedule reaches it; 9 seeded mutants were all caught, one only after a scenario was added to the corpus); steplib/raftstep and the "
                   "Python flattening as test infrastructure. Deployment resources (relaxed TCP mailboxes, LocalShared, timers, failure detector, "
                   "persistent log) are replaced by spec-state resources; per-link FIFO is a hypothesis of leader_completeness, state_machine_safety, apply_log_ok."),
}
