"""C03 — TLA+ operators evaluate as TLA+ defines them, or fail loudly (DESIGN §4 C03)."""
import json, os
import vlib
import c05_values as V
import c03_sem as S

ID = "C03"
THEOREMS = "Properties/C03.v"
HARNESS = ["c03"]
LEVEL = "proof"
READY = True
TRUSTED_BASE = [
    "Coq 8.16.1 kernel (coqc, full .vo build); vm_compute in Examples, refutation witnesses and the correspondence evaluation",
    "no axioms: Print Assumptions reports 'Closed under the global context' for every theorem of Properties/C03.v",
    "spec semantics coq/Base/Ops.v written from Specifying Systems / the standard modules, edge cases probed with TLC (notes/C03.md); "
    "an independent Python reference (lib/c03_sem.py) is the implementation-side oracle",
    "hand-written model coq/C03/Impl.v of distsys/tla/{symbols,builtins,value}.go, one Gallina function per Go function, tied by differential "
    "execution on every run; immutable.Map/List abstracted as in C05 (lists in iteration order, Get = first Equal key)",
    "math.Pow on int32 arguments is exact whenever the result is below 2^53 and monotone above (the model of ^ is exact integer power)",
]
ASSUMPTIONS = [
    "arguments are proper representations (rep_ok, int32 numbers); theorems about operators that compare members are stated for arguments "
    "containing no function with domain 1..n (TLA+ identifies it with a tuple, the runtime does not: known finding)",
]
RULE = ("one case = one call of an exported operator function: operator-directed arguments (right kinds 80 %, one argument of another kind 20 %), "
        "nested to depth <= 3, boundary integers (0, +-1, +-2^31-1, divisors <= 0, negative exponents), closures from a named library shared by "
        "harness, model and reference. Non-trivial = argument depth >= 2 or an error/boundary class; distinct per (operator, result class, argument shape).")

# ---------------------------------------------------------------- generators
def g_int(rng):
    r = rng.random()
    if r < 0.3:
        return ["n", rng.choice(V.BOUNDARY_INTS)]
    return ["n", rng.randint(-12, 12)]


def g_small(rng):
    return ["n", rng.randint(-3, 6)]


def g_bool(rng):
    return ["b", rng.random() < 0.5]


def g_str(rng):
    return ["s", rng.choice(["", "a", "b", "ab", "key", "x y", "TRUE", "q\"uote"])]


def no_seqfun(rng, gen, tries=6):
    for _ in range(tries):
        v = gen()
        if not S.has_seq_function(v):
            return v
    return g_int(rng)


def g_any(rng, depth=2, twins=False):
    if twins:
        return V.gen_value(rng, depth, True, 3)
    return no_seqfun(rng, lambda: V.gen_value(rng, depth, True, 3))


def g_set(rng, depth=2, twins=False, elem=None):
    n = rng.randint(0, 4)
    if elem is None:
        mode = rng.random()
        if mode < 0.45:
            elem = g_small
        elif mode < 0.6:
            elem = g_str
        else:
            elem = lambda r: g_any(r, depth - 1, twins)
    return ["S", [elem(rng) for _ in range(n)]]


def g_record(rng):
    ks = rng.sample(["a", "b", "key", "mtype", "value", "x y"], rng.randint(2, 4))
    return ["F", [[["s", k], g_small(rng) if rng.random() < 0.7 else g_str(rng)] for k in ks]]


def g_bigmembers(rng, twins=False):
    """more than 8 members (the immutable.Map array-node -> bitmap-node threshold): records and sets that will also
    be offered in another construction order, full 32-bit hash collisions, shared low hash bits"""
    ms = [g_record(rng) for _ in range(rng.randint(2, 4))] + [["S", [g_small(rng) for _ in range(rng.randint(2, 4))]] for _ in range(2)]
    ms += V.collision_members(rng, 5, 9)
    if not twins:
        ms = [m for m in ms if not S.has_seq_function(m) and "d" not in json.dumps(m)]
    seen, out = set(), []
    for m in ms:
        k = V.sem(m)
        if k not in seen:
            seen.add(k); out.append(m)
    while len(out) < 9:
        x = ["n", rng.randint(100, 100000)]
        if V.sem(x) not in seen:
            seen.add(V.sem(x)); out.append(x)
    rng.shuffle(out)
    return out


def g_bigset(rng, twins=False):
    ms = g_bigmembers(rng, twins)
    # some members inserted a second time, built in another order
    extra = [V.variant(rng, m, False, False) for m in rng.sample(ms, rng.randint(0, 3))]
    out = ms + extra
    rng.shuffle(out)
    return ["S", out]


def g_bigfun(rng, twins=False):
    ks = g_bigmembers(rng, twins)
    return ["F", [[k, g_small(rng) if rng.random() < 0.6 else g_record(rng)] for k in ks]]


def g_intset(rng):
    return ["S", [g_small(rng) for _ in range(rng.randint(0, 5))]]


def g_setofsets(rng):
    return ["S", [g_set(rng, 1) if rng.random() < 0.9 else g_any(rng, 1) for _ in range(rng.randint(0, 4))]]


def g_seq(rng, depth=2, twins=False):
    return ["T", [g_any(rng, depth - 1, twins) if rng.random() < 0.5 else g_small(rng) for _ in range(rng.randint(0, 4))]]


def g_fun(rng, depth=2, twins=False):
    n = rng.randint(1, 4)
    m = rng.random()
    if m < 0.5:
        keys = [["s", s] for s in rng.sample(["a", "b", "key", "value", "mtype", "x y"], n)]
    elif m < 0.8:
        start = rng.choice([0, 2, 5, -1]) if not twins else 1
        keys = [["n", start + i] for i in range(n)]
    else:
        keys = [g_any(rng, depth - 1, twins) for _ in range(n)]
    f = ["F", [[k, g_any(rng, depth - 1, twins) if rng.random() < 0.5 else g_small(rng)] for k in keys]]
    if not twins and S.has_seq_function(f):
        f[1].append([["s", "extra"], g_small(rng)])
    return f


def g_funlike(rng, depth=2, twins=False):
    return g_fun(rng, depth, twins) if rng.random() < 0.6 else g_seq(rng, depth, twins)


def g_other_kind(rng, v):
    """a value of a kind different from v's"""
    for _ in range(10):
        w = rng.choice([g_int, g_bool, g_str, lambda r: g_set(r, 1), lambda r: g_seq(r, 1), lambda r: g_fun(r, 1), lambda r: ["d"]])(rng)
        if w[0] != v[0]:
            return w
    return ["d"]


POW_BASES = [0, 1, -1, 2, -2, 3, -3, 4, 7, 10, 16, 46340, 46341, -46341, 2**15, 2**16, 65535, 2**31 - 1, -2**31, -2**31 + 1]
POW_EXPONENTS = [0, 1, 2, 3, 15, 16, 29, 30, 31, 32, 33, 53, 54, 61, 62, 63, 64, 65, 66, 127, 128, 255, 256, 1000, 65536, 2**31 - 2, 2**31 - 1, -1, -2**31]
MUL_OPERANDS = [0, 1, -1, 2, -2, 3, 46340, 46341, -46341, 2**15, -2**15, 2**16, -2**16, 65535, 65537, 2**30, -2**30, 2**31 - 1, -2**31, -2**31 + 1, 715827883]
ADD_OPERANDS = [0, 1, -1, 2, -2, 7, 2**30, -2**30, 2**31 - 2, 2**31 - 1, -2**31, -2**31 + 1]
RANGE_ENDS = [V.INT_MIN, V.INT_MIN + 1, V.INT_MIN + 2, -1, 0, 1, V.INT_MAX - 2, V.INT_MAX - 1, V.INT_MAX]

IDENTITY_OPS = ["Concat", "Append", "Union", "Intersect", "SetMinus", "SubsetEq", "In", "NotIn", "Plus", "Minus", "Times", "Div", "Mod", "Pow",
                "Le", "Lt", "Ge", "Gt", "DotDot", "And", "Or", "Implies", "Equiv", "Eq", "Neq", "AtAt", "ColonGt", "Apply", "CrossProduct",
                "MakeFunctionSet", "Assert"]
IDENTITY_ELEMENTS = [["n", 0], ["n", 1], ["n", -1], ["b", True], ["b", False], ["T", []], ["S", []], ["s", ""]]
_SEQ, _SET, _INT, _BOOL = [["T", []], ["s", ""]], [["S", []]], [["n", 0], ["n", 1], ["n", -1]], [["b", True], ["b", False]]
OP_IDENTITIES = {"Concat": _SEQ, "Append": _SEQ, "Union": _SET, "Intersect": _SET, "SetMinus": _SET, "SubsetEq": _SET, "In": _SET, "NotIn": _SET,
                 "CrossProduct": _SET, "MakeFunctionSet": _SET, "Plus": _INT, "Minus": _INT, "Times": _INT, "Div": _INT, "Mod": _INT, "Pow": _INT,
                 "Le": _INT, "Lt": _INT, "Ge": _INT, "Gt": _INT, "DotDot": _INT, "And": _BOOL, "Or": _BOOL, "Implies": _BOOL, "Equiv": _BOOL,
                 "Assert": _BOOL, "AtAt": _SEQ + _SET, "Apply": _SEQ + _SET, "ColonGt": _SEQ}
ONE_OF_EVERY_KIND = [["b", True], ["b", False], ["n", 0], ["n", 1], ["n", 5], ["s", ""], ["s", "a"], ["S", []], ["S", [["n", 1], ["n", 2]]],
                     ["T", []], ["T", [["n", 1]]], ["F", [[["s", "a"], ["n", 1]]]], ["d"]]

PREDS1 = [["true"], ["false"], ["isnum"], ["gt", ["n", 0]], ["gt", ["n", 2]], ["eq", ["n", 1]], ["neq", ["n", 1]], ["in", ["S", [["n", 1], ["n", 2], ["s", "a"]]]], ["asbool"]]
PREDS2 = [["true"], ["false"], ["lt2"], ["eq2"], ["isnum"]]
BODIES1 = [["id"], ["const", ["n", 7]], ["tuple"], ["plus", ["n", 1]], ["plus", ["n", 2147483647]], ["single"], ["isnum"], ["mod", ["n", 2]], ["last"]]
BODIES2 = [["tuple"], ["last"], ["id"], ["const", ["s", "c"]]]

# operator -> list of argument generators
def sig(rng, op, twins):
    A = lambda d=2: g_any(rng, d, twins)
    st = lambda: g_set(rng, 2, twins)
    sq = lambda: g_seq(rng, 2, twins)
    fn = lambda: g_fun(rng, 2, twins)
    I, B = lambda: g_int(rng), lambda: g_bool(rng)
    if op == "Assert":
        return [B(), g_str(rng) if rng.random() < 0.8 else A(1)]
    if op == "ToString":
        return [A()]
    if op in ("Eq", "Neq"):
        a = A()
        r = rng.random()
        if r < 0.4:
            return [a, V.variant(rng, a)]
        if r < 0.7:
            return [a, V.near_miss(rng, a)]
        if r < 0.85:
            return [a, g_other_kind(rng, a)]
        return [a, A()]
    if op == "Not":
        return [B()]
    if op in ("Equiv", "And", "Or", "Implies"):
        return [B(), B()]
    if op == "If":
        return [B(), A(1), A(1)]
    if op in ("Plus", "Minus", "Times", "Le", "Ge", "Lt", "Gt", "Div", "Mod"):
        if rng.random() < 0.3:
            # results exactly at / just beyond the int32 boundary
            k = rng.randint(-3, 40)
            edge = rng.choice([V.INT_MAX, V.INT_MIN, V.INT_MAX + 1, V.INT_MIN - 1])
            if op == "Plus":
                x = rng.choice([k, edge // 2, V.INT_MAX, V.INT_MIN]); y = edge - x
            elif op == "Minus":
                x = rng.choice([k, edge // 2, -1, 0]); y = x - edge
            elif op == "Times":
                if rng.random() < 0.5:
                    x, y = rng.choice(MUL_OPERANDS), rng.choice(MUL_OPERANDS)
                else:
                    y = rng.choice([1, -1, 2, -2, 3, 46341, 65536, -65536, 46340]); x = edge // y + rng.choice([0, 0, 1, -1])
            elif op == "Div":
                x = rng.choice([V.INT_MIN, V.INT_MAX, V.INT_MIN + 1]); y = rng.choice([-1, 1, 2, -2, V.INT_MIN, V.INT_MAX])
            elif op == "Mod":
                x = rng.choice([V.INT_MIN, V.INT_MAX, -1, 0]); y = rng.choice([1, 2, V.INT_MAX, 3])
            else:
                x = rng.choice([V.INT_MIN, V.INT_MAX]); y = x + rng.choice([-1, 0, 1])
            clamp = lambda z: max(V.INT_MIN, min(V.INT_MAX, z))
            return [["n", clamp(x)], ["n", clamp(y)]]
        return [I(), I()]
    if op == "Pow":
        if rng.random() < 0.6:
            # boundary grid: every base of interest against every exponent of interest
            return [["n", rng.choice(POW_BASES)], ["n", rng.choice(POW_EXPONENTS)]]
        return [rng.choice([I(), g_small(rng)]), rng.choice([g_small(rng), ["n", rng.randint(0, 70)], I()])]
    if op == "Neg":
        return [I()]
    if op == "DotDot":
        if rng.random() < 0.25:
            # both ends at the int32 boundary / empty ranges between extreme ends (never a wide enumeration)
            a = rng.choice(RANGE_ENDS)
            b = rng.choice([a - 2, a - 1, a, a + 1, a + 2, a + 3, V.INT_MIN, V.INT_MIN + 1] if a > 100 else [a - 2, a - 1, a, a + 1, a + 2, a + 3])
            clamp = lambda z: max(V.INT_MIN, min(V.INT_MAX, z))
            a, b = clamp(a), clamp(b)
            if b - a > 5000:
                a, b = b, a
            return [["n", a], ["n", b]]
        r = rng.random()
        if r < 0.6:
            a = rng.randint(-5, 5); return [["n", a], ["n", a + rng.randint(-2, 8)]]
        if r < 0.8:
            b = rng.choice([V.INT_MAX, V.INT_MAX - 1, V.INT_MIN + 3]); return [["n", b - rng.randint(0, 3)], ["n", b]]
        if rng.random() < 0.5:
            # one boundary operand, but never an enumeration of more than a few thousand integers
            b = I()
            a = ["n", max(V.INT_MIN, min(V.INT_MAX, b[1] + rng.choice([-2000, -5, -1, 0, 1, 3, 2000])))]
            return [a, b] if rng.random() < 0.7 else [b, a]
        return [g_small(rng), g_small(rng)]
    if op in ("In", "NotIn") and rng.random() < 0.3:
        s = g_bigset(rng, twins)
        r = rng.random()
        x = V.variant(rng, rng.choice(s[1]), False, False) if r < 0.6 else (V.collider(rng.choice(s[1])) or A(1)) if r < 0.8 else V.near_miss(rng, rng.choice(s[1]))
        return [x, s]
    if op in ("Cardinality", "IsFiniteSet", "SUBSET") and rng.random() < 0.3:
        s = g_bigset(rng, twins)
        return [s if op != "SUBSET" else ["S", s[1][:4]]]
    if op in ("Intersect", "Union", "SubsetEq", "SetMinus") and rng.random() < 0.25:
        s = g_bigset(rng, twins)
        t = ["S", [V.variant(rng, x, False, False) for x in s[1] if rng.random() < 0.6] + [V.collider(x) for x in s[1][:3] if V.collider(x) is not None]]
        rng.shuffle(t[1])
        return [s, t] if rng.random() < 0.5 else [t, s]
    if op in ("Apply", "Domain") and rng.random() < 0.3:
        f = g_bigfun(rng, twins)
        if op == "Domain":
            return [f]
        r = rng.random()
        k = rng.choice(f[1])[0]
        return [f, V.variant(rng, k, False, False) if r < 0.7 else (V.collider(k) or A(1))]
    if op == "AtAt" and rng.random() < 0.25:
        f, g = g_bigfun(rng, twins), g_bigfun(rng, twins)
        g[1] += [[V.variant(rng, k, False, False), g_small(rng)] for k, _ in f[1][:4]]
        return [f, g] if rng.random() < 0.5 else [g, f]
    if op in ("In", "NotIn"):
        s = st()
        if s[1] and rng.random() < 0.6:
            x = V.variant(rng, rng.choice(s[1]))
        elif s[1] and rng.random() < 0.5:
            x = V.near_miss(rng, rng.choice(s[1]))
        else:
            x = A(1)
        return [x, s]
    if op in ("Intersect", "Union", "SubsetEq", "SetMinus"):
        s = st()
        t = ["S", [V.variant(rng, x) for x in s[1] if rng.random() < 0.6] + [A(1) for _ in range(rng.randint(0, 2))]]
        rng.shuffle(t[1])
        return [s, t] if rng.random() < 0.5 else [t, s]
    if op == "SUBSET":
        return [["S", st()[1][:4]]]
    if op == "UNION":
        return [g_setofsets(rng)]
    if op in ("IsFiniteSet", "Cardinality", "Seq"):
        s = st()
        return [["S", s[1][:3]] if op == "Seq" else s]
    if op in ("Len", "Head", "Tail", "Append", "SubSeq", "Concat") and rng.random() < 0.08:
        # strings where sequences are expected (TLC: sequences for Len, \\o, Tail, SubSeq; errors for Head, Append)
        st_ = g_str(rng)
        if op == "Concat":
            return [st_, g_str(rng) if rng.random() < 0.7 else sq()]
        if op == "Append":
            return [st_, g_str(rng)]
        if op == "SubSeq":
            return [st_, ["n", rng.randint(0, len(st_[1]) + 1)], ["n", rng.randint(-1, len(st_[1]) + 1)]]
        return [st_]
    if op in ("Len", "Head", "Tail"):
        return [sq()]
    if op == "Concat":
        return [sq(), sq()]
    if op == "Append":
        return [sq(), A(1)]
    if op == "SubSeq":
        s = sq()
        return [s, ["n", rng.randint(-1, len(s[1]) + 1)], ["n", rng.randint(-1, len(s[1]) + 2)]]
    if op == "SelectSeq":
        return [sq(), A(1)]
    if op == "ColonGt":
        return [A(1), A(1)]
    if op == "AtAt":
        f = fn()
        g = fn()
        if rng.random() < 0.5 and f[1]:
            g[1].append([V.variant(rng, f[1][0][0]), A(1)])      # overlapping key: the left operand wins
        return [f, g]
    if op == "Domain":
        return [fn()]
    if op == "Apply":
        f = g_funlike(rng, 2, twins)
        if f[0] == "T":
            return [f, ["n", rng.randint(0, len(f[1]) + 1)]]
        if f[1] and rng.random() < 0.75:
            return [f, V.variant(rng, rng.choice(f[1])[0])]
        return [f, A(1)]
    if op == "SelectElement":
        s = st()
        return [s, ["n", rng.randint(0, len(s[1]) + 1)]]
    if op in ("MakeSet", "MakeTuple"):
        xs = [A(1) for _ in range(rng.randint(0, 4))]
        if xs and rng.random() < 0.5:
            xs.append(V.variant(rng, xs[0]))
        return xs
    if op == "MakeRecord":
        out = []
        for k in rng.sample(["a", "b", "c", "mtype"], rng.randint(0, 3)):
            out += [["s", k], A(1)]
        return out
    if op == "MakeRecordSet":
        out = []
        for k in rng.sample(["a", "b", "c"], rng.randint(0, 3)):
            out += [["s", k], g_set(rng, 1, twins, elem=g_small) if rng.random() < 0.9 else A(1)]
        return out
    if op == "MakeFunctionSet":
        return [["S", [g_small(rng) for _ in range(rng.randint(0, 3))]], ["S", [g_small(rng) for _ in range(rng.randint(0, 3))]]]
    if op == "CrossProduct":
        return [["S", g_set(rng, 1, twins)[1][:3]] for _ in range(rng.randint(2, 3))]
    if op in ("Forall", "Exists"):
        n = rng.randint(1, 2)
        return [g_intset(rng) if rng.random() < 0.7 else st() for _ in range(n)]
    if op in ("SetRefinement", "Choose"):
        return [g_intset(rng) if rng.random() < 0.6 else st()]
    if op in ("SetComprehension", "MakeFunction"):
        n = rng.randint(1, 2)
        return [g_intset(rng) if rng.random() < 0.7 else ["S", st()[1][:3]] for _ in range(n)]
    if op == "Except":
        return [g_funlike(rng, 3, twins)]
    raise ValueError(op)


OPS = ["Assert", "ToString", "Eq", "Neq", "Not", "Equiv", "And", "Or", "Implies", "If", "Plus", "Minus", "Times", "Pow", "Le", "Ge", "Lt", "Gt",
       "DotDot", "Div", "Mod", "Neg", "In", "NotIn", "Intersect", "Union", "SubsetEq", "SetMinus", "SUBSET", "UNION", "IsFiniteSet", "Cardinality",
       "Seq", "Len", "Concat", "Append", "Head", "Tail", "SubSeq", "SelectSeq", "ColonGt", "AtAt", "Domain", "Apply", "SelectElement", "MakeSet",
       "MakeTuple", "MakeRecord", "MakeRecordSet", "MakeFunctionSet", "CrossProduct", "Forall", "Exists", "SetRefinement", "SetComprehension",
       "MakeFunction", "Choose", "Except"]


def gen_case(rng, op, twins=False):
    args = sig(rng, op, twins)
    c = {"op": op, "args": args, "kind": "twins" if twins else "typed"}
    if rng.random() < 0.2 and args and op not in ("MakeSet", "MakeTuple", "ToString", "ColonGt", "Eq", "Neq"):
        i = rng.randrange(len(args))
        args[i] = g_other_kind(rng, args[i])
        c["kind"] = "illtyped"
    if op in ("Forall", "Exists", "SetRefinement", "Choose", "SetComprehension") and c["kind"] == "typed" and rng.random() < 0.15:
        # a tuple-typed bound  <<x, y>> \\in S : the closure takes the components with ApplyFunction
        pairs = [["T", [g_small(rng), g_small(rng)]] for _ in range(rng.randint(0, 4))]
        if rng.random() < 0.2:
            pairs.append(rng.choice([["T", [g_small(rng)]], g_small(rng), ["T", [g_str(rng), g_small(rng)]], ["F", [[["n", 1], g_small(rng)], [["n", 2], g_small(rng)]]]]))
        c["args"] = args = [["S", pairs]]
        c["fn"] = ["tupswap"] if op == "SetComprehension" else ["tuplt"]
        c["kind"] = "tuplebound"
        return c
    if op in ("Forall", "Exists"):
        c["fn"] = rng.choice(PREDS1 if len(args) == 1 else PREDS2)
    elif op in ("SetRefinement", "Choose"):
        c["fn"] = rng.choice(PREDS1)
    elif op in ("SetComprehension", "MakeFunction"):
        c["fn"] = rng.choice(BODIES1 if len(args) == 1 else BODIES2)
    elif op == "Except" and c["kind"] == "typed" and rng.random() < 0.45:
        # several clauses of ONE EXCEPT through the same top-level key: each clause must see the result of the
        # previous one ([r EXCEPT !.n = @ + 1, !.n = @ + 2]; [f EXCEPT ![1].a = 10, ![1].b = 20])
        rec = lambda: ["F", [[["s", k], g_small(rng)] for k in rng.sample(["a", "b", "key"], rng.randint(2, 3))]]
        entry = lambda: rng.choice([g_small, lambda r: rec(), lambda r: ["T", [g_small(r), g_small(r)]]])(rng)
        if rng.random() < 0.5:
            src = ["F", [[k, entry()] for k in rng.sample([["s", "n"], ["s", "m"], ["n", 0], ["n", 5], ["S", [["n", 1], ["n", 2]]]], rng.randint(1, 3))]]
            top, cur = rng.choice(src[1])
        else:
            src = ["T", [entry() for _ in range(rng.randint(1, 3))]]
            i = rng.randrange(len(src[1]))
            top, cur = ["n", i + 1], src[1][i]
        args[:] = [src]
        subs = []
        for _ in range(rng.randint(2, 3)):
            keys = [V.variant(rng, top)]
            if cur[0] == "F" and rng.random() < 0.7:
                keys.append(rng.choice(cur[1])[0])
                val = rng.choice([["plus", ["n", rng.randint(1, 9)]], ["const", ["n", rng.randint(10, 20)]], ["tuple"], ["id"]])
            elif cur[0] == "T" and rng.random() < 0.7:
                keys.append(["n", rng.randint(1, len(cur[1]))])
                val = rng.choice([["plus", ["n", rng.randint(1, 9)]], ["const", ["n", rng.randint(10, 20)]], ["tuple"]])
            elif cur[0] == "n":
                val = rng.choice([["plus", ["n", rng.randint(1, 9)]], ["mod", ["n", rng.randint(2, 5)]], ["plus", ["n", rng.randint(1, 9)]]])
            else:
                val = rng.choice([["tuple"], ["single"], ["id"]])
            subs.append({"keys": keys, "val": val})
        if rng.random() < 0.3:      # and one clause through another key, if there is one
            others = [k for k, _ in src[1]] if src[0] == "F" else [["n", j + 1] for j in range(len(src[1]))]
            subs.insert(rng.randint(0, len(subs)), {"keys": [rng.choice(others)], "val": ["tuple"]})
        c["subs"] = subs
        c["kind"] = "multiclause"
    elif op == "Except":
        subs = []
        for _ in range(rng.randint(1, 2)):
            keys, cur = [], args[0]
            for _ in range(rng.randint(1, 2)):
                if cur[0] == "T":
                    i = rng.randint(0, len(cur[1]) + 1) if rng.random() < 0.25 else (rng.randint(1, len(cur[1])) if cur[1] else 1)
                    keys.append(["n", i])
                    cur = cur[1][i - 1] if 1 <= i <= len(cur[1]) else ["d"]
                elif cur[0] == "F" and cur[1]:
                    if rng.random() < 0.8:
                        k, x = rng.choice(cur[1]); keys.append(V.variant(rng, k)); cur = x
                    else:
                        keys.append(g_any(rng, 1)); cur = ["d"]
                else:
                    if rng.random() < 0.3:
                        keys.append(g_small(rng))
                    break
            if not keys:
                keys = [g_small(rng)]
            subs.append({"keys": keys, "val": rng.choice([["const", ["n", 9]], ["id"], ["plus", ["n", 1]], ["tuple"]])})
        c["subs"] = subs
    return c


def boundary_grids():
    """deterministic, exhaustive over the operands of interest (a defect that needs one particular pair, such as a
    fast path for base 2 with exponent >= 63, must not depend on the luck of the draw)"""
    out = []
    for b in POW_BASES:
        for e in POW_EXPONENTS:
            out.append({"op": "Pow", "args": [["n", b], ["n", e]], "kind": "grid"})
    for op in ("Times", "Plus", "Minus", "Div", "Mod"):
        operands = MUL_OPERANDS if op == "Times" else ADD_OPERANDS
        for x in operands:
            for y in operands:
                out.append({"op": op, "args": [["n", x], ["n", y]], "kind": "grid"})
    for a in RANGE_ENDS:
        for d in (-2, -1, 0, 1, 2, 3):
            b = a + d
            if V.INT_MIN <= b <= V.INT_MAX:
                out.append({"op": "DotDot", "args": [["n", a], ["n", b]], "kind": "grid"})
        for b in RANGE_ENDS:
            if b < a:
                out.append({"op": "DotDot", "args": [["n", a], ["n", b]], "kind": "grid"})
    for x in MUL_OPERANDS:
        out.append({"op": "Neg", "args": [["n", x]], "kind": "grid"})
    # identity / absorbing element of SOME kind x one value of EVERY kind, in both positions, for every binary
    # operator: fast paths around identities (<<>> \\o s = s, {} \\cup s = s, 0 + x, x * 1, x ^ 0, TRUE /\\ x ...) are where a
    # type check gets skipped
    seen = set()
    for op in IDENTITY_OPS:
        for e in OP_IDENTITIES.get(op, IDENTITY_ELEMENTS):
            for x in ONE_OF_EVERY_KIND:
                for args in ([e, x], [x, e]):
                    key = json.dumps([op, args])
                    if key not in seen:
                        seen.add(key)
                        out.append({"op": op, "args": json.loads(json.dumps(args)), "kind": "grid"})
    for e in [["T", []], ["s", ""], ["S", []], ["n", 0]]:
        for x in ONE_OF_EVERY_KIND:
            out.append({"op": "SubSeq", "args": [e, x, ["n", 1]], "kind": "grid"})
            out.append({"op": "SubSeq", "args": [["T", []], ["n", 1], x], "kind": "grid"})
            out.append({"op": "If", "args": [x, e, e], "kind": "grid"})
            out.append({"op": "CrossProduct", "args": [e, x, ["S", []]], "kind": "grid"})
    return out


def wrap_some(rng, v, p=0.3):
    """the same value with causal (vector-clock) wrappers around some nodes; sets get a wrapped second copy of a
    member, functions a wrapped second copy of a binding (same value), so that the builders must recognise them"""
    t = v[0]
    if t == "S":
        ms = [wrap_some(rng, x, p) for x in v[1]]
        if v[1] and rng.random() < 0.4:
            # (builder.Set keeps the LAST of two Equal members: mostly put the wrapped copy after the plain one)
            ms.insert(len(ms) if rng.random() < 0.7 else rng.randint(0, len(ms)), ["W", rng.choice(v[1])])
        out = ["S", ms]
    elif t == "T":
        out = ["T", [wrap_some(rng, x, p) for x in v[1]]]
    elif t == "F":
        ps = [[wrap_some(rng, k, p), wrap_some(rng, x, p)] for k, x in v[1]]
        if v[1] and rng.random() < 0.4:
            eff = {}
            for k, x in v[1]:
                eff[V.sem(k)] = (k, x)          # the binding in force (a later binding of a key overrides earlier ones)
            k, x = rng.choice(list(eff.values()))
            ps.append([["W", k], x])
        out = ["F", ps]
    else:
        out = list(v)
    if rng.random() < p:
        out = ["W", out]
    return out


def count_w(v):
    t = v[0]
    if t == "W":
        return 1 + count_w(v[1])
    if t in ("S", "T"):
        return sum(count_w(x) for x in v[1])
    if t == "F":
        return sum(count_w(k) + count_w(x) for k, x in v[1])
    return 0


def add_wrapped(rng, c):
    if not c["args"] or c["op"] in ("SelectSeq",):
        return
    w = [wrap_some(rng, a) for a in c["args"]]
    if sum(count_w(x) for x in w) == 0:
        i = rng.randrange(len(w))
        w[i] = ["W", w[i]]
    c["wargs"] = w


def corpus():
    out = []
    d = os.path.join(vlib.VERIF, "corpus", "C03")
    if os.path.isdir(d):
        for f in sorted(os.listdir(d)):
            if f.endswith(".json"):
                c = json.load(open(os.path.join(d, f)))
                c["kind"] = "corpus"; c["corpus_file"] = f
                out.append(c)
    return out


# ---------------------------------------------------------------- implementation-side oracle
REF = S.Sem(ident=True, strict_eq=True, strings_are_seqs=True, assert_checks_msg=False)
REF_GOISH_TWINS = S.Sem(ident=False, strict_eq=True, strings_are_seqs=True, assert_checks_msg=False)
REF_LAX_EQ = S.Sem(ident=True, strict_eq=False)


def infeasible(case):
    a = case["args"]
    if case["op"] == "DotDot" and len(a) == 2 and a[0][0] == "n" and a[1][0] == "n" and a[1][1] - a[0][1] > 2000000:
        return True
    return False


def kinds(args):
    return "/".join(a[0] for a in args)


def accepts(spec, op, args, out, val, ident):
    """does the observed outcome satisfy the reference outcome `spec` (computed with/without the tuple = 1..n-function
    identification)?"""
    if spec[0] == "unknown":
        return True
    if spec[0] == "err":
        return out == "tlatype"
    if spec[0] == "infinite":
        return False
    if out == "tlatype":
        return bool(S.restricted(op, args) or (spec[0] == "ok" and len(spec) > 2 and spec[2]) or spec[0] == "member_or_err"
                    or (spec[0] == "oneof" and ("err",) in spec[1]))
    if out != "ok":
        return False
    got = S.norm(val, ident)
    if spec[0] == "ok":
        return got == spec[1]
    if spec[0] == "okstr":
        return got[0] == "s"
    if spec[0] in ("member", "member_or_err"):
        return got in spec[1]
    if spec[0] == "oneof":
        return ("ok", got) in spec[1]
    return False


def classify(case, res):
    """returns (verdict, signature, what, result_class); verdict in ok | fail | skip"""
    op, args = case["op"], case["args"]
    out = res["out"]
    spec = reference_outcome(case)
    rc = spec[0] + ">" + out
    if infeasible(case):
        # a result with millions of members cannot be enumerated within the harness deadline / heap cap:
        # running out of time or memory on it is not the non-termination the property forbids
        return "skip", None, None, "infeasible>" + out
    if out == "hang":
        return "fail", "hang:%s" % op, "%s did not return (%s)" % (op, res.get("detail")), rc
    if out == "panic":
        if op == "SelectSeq":
            return "fail", "selectseq-unimplemented", "ModuleSelectSeq panics with a non-TLA+ error: %s" % res.get("detail"), rc
        return "fail", "panic-not-a-tla-type-error:%s" % op, "%s panicked with %s" % (op, res.get("detail")), rc
    if spec[0] == "unknown":
        return "skip", None, None, rc
    val = res.get("val")
    if spec[0] == "infinite":
        if out == "ok":
            return "fail", "seq-enumerated", "Seq(S) for a non-empty S returned a finite set (the permutations of S)", rc
        return "fail", "seq-not-representable", "Seq(S) failed: %s" % out, rc
    if accepts(spec, op, args, out, val, True):
        return "ok", None, None, rc + (">restricted" if out == "tlatype" and spec[0] != "err" else "")
    # --- a disagreement: which class?
    # (1) exactly the tuple / 1..n-function distinction: the observation satisfies the reference semantics that
    #     differs ONLY in keeping them apart, and such a function is involved
    involved = any(S.has_seq_function(a) for a in args) or (val is not None and S.has_seq_function(val)) or \
        op in ("ColonGt", "MakeFunction", "MakeRecord", "AtAt", "MakeFunctionSet", "MakeRecordSet", "Except")
    if involved:
        try:
            alt = REF_GOISH_TWINS.apply(op, args, case.get("fn"), case.get("subs"))
            if alt[0] != "infinite" and accepts(alt, op, args, out, val, False):
                return "fail", "tuple-function-identity", "%s: the runtime keeps a function with domain 1..n apart from the tuple TLA+ identifies it with" % op, rc
        except (S.Unknown, S.SpecErr, RecursionError):
            pass
    if spec[0] == "err":
        if op in ("Eq", "Neq") and out == "ok":
            lax = REF_LAX_EQ.apply(op, args)
            if lax == ("ok", S.norm(val, True)):
                return "fail", "equality-of-incomparable-kinds", "%s of %s returned %s silently; TLC reports a type error" % (op, kinds(args), val), rc
        return "fail", "silent-value-where-tlc-errors:%s" % op, "%s(%s) returned %s; TLA+/TLC: error (%s)" % (op, kinds(args), json.dumps(val)[:120], spec[1]), rc
    if out == "tlatype":
        if op in ("Len", "Concat", "Tail", "SubSeq") and args and args[0][0] == "s" and (op != "Concat" or args[1][0] == "s"):
            return "fail", "strings-are-not-sequences:%s" % op, "%s on strings fails loudly; TLC treats strings as sequences" % op, rc
        return "fail", "loud-failure-where-tlc-succeeds:%s" % op, "%s(%s) failed with %s; TLA+/TLC give a value" % (op, kinds(args), res.get("detail")), rc
    return "fail", "wrong-value:%s" % op, "%s(%s) = %s; TLA+/TLC: %s" % (op, json.dumps(args)[:160], json.dumps(val)[:160], str(spec[1])[:160]), rc


def shape(v):
    t = v[0]
    if t in ("S", "T"):
        return t + str(min(len(v[1]), 3))
    if t == "F":
        return "F" + str(min(len(v[1]), 3))
    if t == "n":
        return "n!" if abs(v[1]) >= 2**31 - 2 else "n0" if v[1] == 0 else "n-" if v[1] < 0 else "n"
    return t


def run(ctx):
    rng = ctx.rng
    per_op = 32 if ctx.tier == "quick" else 1200
    if ctx.replay:
        rp = json.load(open(ctx.replay))
        cases = [rp["case"]] if rp.get("case") else corpus()
    else:
        cases = corpus()
        for op in OPS:
            for i in range(per_op):
                cases.append(gen_case(rng, op, twins=(i % 20 == 19)))
        cases += boundary_grids()
        # a share of the calls is repeated on causally wrapped arguments: the wrapper must be invisible to every operator
        wr = __import__("random").Random(ctx.seed + 7)
        for i, c in enumerate(cases):
            if c.get("kind") != "grid" and i % 3 == 0:
                add_wrapped(wr, c)
    for i, c in enumerate(cases):
        c["id"] = i
    scratch = "/var/tmp/verif-%d-c03" % os.getpid()      # PGO_TRACE_DIR must be set at process start for WrapCausal to wrap
    os.makedirs(scratch, exist_ok=True)
    rc, res, err = vlib.run_jsonl("c03", [{k: c[k] for k in ("id", "op", "args", "wargs", "fn", "subs") if k in c} for c in cases], timeout=3000,
                                  env={"PGO_TRACE_DIR": scratch})
    import shutil as _sh
    _sh.rmtree(scratch, ignore_errors=True)
    byid = {r["id"]: r for r in res}
    if rc != 0 or len(byid) != len(cases):
        ctx.breaks.append({"what": "harness c03 failed (rc=%d, %d/%d results)" % (rc, len(byid), len(cases)), "detail": err[-2000:]})
        return
    dist, classes, skipped = {}, {}, 0
    wrapped_cases = 0
    wrappers_seen = 0
    for c in cases:
        r = byid[c["id"]]
        c["_res"] = r
        verdict, sig_, what, rcl = classify(c, r)
        c["_verdict"] = verdict
        dist[c.get("kind", "?")] = dist.get(c.get("kind", "?"), 0) + 1
        key = "%s|%s" % (c["op"], rcl)
        classes[key] = classes.get(key, 0) + 1
        nontriv = max([V.depth(a) for a in c["args"]] or [0]) >= 2 or not rcl.startswith("ok>ok") or any(shape(a) in ("n!", "n0") for a in c["args"])
        ctx.add_case("%s|%s|%s" % (c["op"], rcl, ",".join(shape(a) for a in c["args"])), nontriv)
        if verdict == "skip":
            skipped += 1
        if verdict == "fail":
            ctx.failures.append({"signature": sig_, "what": what, "case": {k: v for k, v in c.items() if not k.startswith("_")}, "obs": r})
        # the same call on causally wrapped arguments must behave identically
        if "wargs" in c and not infeasible(c):
            wrapped_cases += 1
            wsig = None
            wrappers_seen += r.get("wrapped", 0)
            if r.get("wrapped", 0) == 0:
                pass        # every wrapped copy was replaced by a later plain duplicate: nothing wrapped reached the call
            elif c["op"] in ("Choose", "SelectElement", "ToString"):
                # results that legitimately depend on the iteration order (which a wrapped duplicate inserted elsewhere
                # may change): the wrapped run must satisfy the reference semantics as the plain run does
                spec_ = reference_outcome(c)
                plain_ok = accepts(spec_, c["op"], c["args"], r["out"], r.get("val"), True)
                if plain_ok and not accepts(spec_, c["op"], c["args"], r.get("wout"), r.get("wval"), True):
                    wsig, wwhat = "causal-wrapper-changes-result:%s" % c["op"], "%s under causal wrappers: %s %s, not what TLA+ allows" % (
                        c["op"], r.get("wout"), json.dumps(r.get("wval"))[:120])
            elif r.get("wout") != r["out"]:
                wsig, wwhat = "causal-wrapper-changes-result:%s" % c["op"], "%s: %s on plain arguments, %s (%s) on the same arguments under causal wrappers" % (
                    c["op"], r["out"], r.get("wout"), r.get("wdetail"))
            elif r["out"] == "ok" and V.sem(r["wval"]) != V.sem(r["val"]):
                wsig, wwhat = "causal-wrapper-changes-result:%s" % c["op"], "%s = %s on plain arguments, %s on the same arguments under causal wrappers" % (
                    c["op"], json.dumps(r["val"])[:120], json.dumps(r["wval"])[:120])
            if wsig:
                ctx.failures.append({"signature": wsig, "what": wwhat, "case": {k: v for k, v in c.items() if not k.startswith("_")}, "obs": r})
    ctx.extra["input_distribution"] = dist
    ctx.extra["operators"] = len(set(c["op"] for c in cases))
    ctx.extra["result_classes"] = len(classes)
    ctx.extra["per_operator_result_classes"] = {op: sorted(k.split("|")[1] for k in classes if k.startswith(op + "|")) for op in OPS}
    ctx.extra["oracle_skipped"] = skipped
    ctx.extra["calls_repeated_under_causal_wrappers"] = wrapped_cases
    ctx.extra["causal_wrappers_in_arguments"] = wrappers_seen
    if wrapped_cases > 20 and wrappers_seen == 0:
        ctx.breaks.append({"what": "tla.WrapCausal did not wrap anything: PGO_TRACE_DIR missing in the harness environment?"})
    ctx.samples = [{"op": c["op"], "args": c["args"], "fn": c.get("fn"), "go": c["_res"]} for c in cases[18:18 + 5]]
    tie(ctx, cases)
    spec_tie(ctx, cases)
    if ctx.tier == "thorough" and not ctx.replay:
        tlc_crosscheck(ctx, cases)
    else:
        try:
            ctx.extra["tlc_crosscheck_last_thorough_run"] = json.load(open(os.path.join(vlib.VERIF, "evidence", "C03_tlc.json")))
        except Exception:
            pass
    if ctx.replay:
        print("replay:", [(c["op"], c["_res"], classify(c, c["_res"])[:3]) for c in cases][:3], [b["what"] for b in ctx.breaks])


CALLS = {"Assert": "CAssert", "ToString": "CToString", "Eq": "CEq", "Neq": "CNeq", "Not": "CNot", "Equiv": "CEquiv", "And": "CAnd", "Or": "COr",
         "Implies": "CImplies", "If": "CIf", "Plus": "CPlus", "Minus": "CMinus", "Times": "CTimes", "Pow": "CPow", "Le": "CLe", "Ge": "CGe", "Lt": "CLt",
         "Gt": "CGt", "DotDot": "CDotDot", "Div": "CDiv", "Mod": "CMod", "Neg": "CNeg", "In": "CIn", "NotIn": "CNotIn", "Intersect": "CIntersect",
         "Union": "CUnion", "SubsetEq": "CSubsetEq", "SetMinus": "CSetMinus", "SUBSET": "CSUBSET", "UNION": "CUNION", "IsFiniteSet": "CIsFiniteSet",
         "Cardinality": "CCardinality", "Len": "CLen", "Concat": "CConcat", "Append": "CAppend", "Head": "CHead", "Tail": "CTail", "SubSeq": "CSubSeq",
         "ColonGt": "CColonGt", "AtAt": "CAtAt", "Domain": "CDomain", "Apply": "CApply", "SelectElement": "CSelectElement", "MakeSet": "CMakeSet",
         "MakeTuple": "CMakeTuple", "MakeRecord": "CMakeRecord", "MakeRecordSet": "CMakeRecordSet", "MakeFunctionSet": "CMakeFunctionSet",
         "CrossProduct": "CCrossProduct", "Seq": "CSeq", "SelectSeq": "CSelectSeq"}
PCL = {"true": "PTrue", "false": "PFalse", "isnum": "PIsNum", "gt": "PGt", "eq": "PEq", "neq": "PNeq", "in": "PIn", "lt2": "PLt2", "eq2": "PEq2", "asbool": "PAsBool", "tuplt": "PTupLt"}
BCL = {"id": "BId", "const": "BConst", "tuple": "BTuple", "plus": "BPlus", "single": "BSingle", "isnum": "BIsNum", "mod": "BMod", "last": "BLast", "tupswap": "BTupSwap"}
UNMODELLED = set()


def coq_cl(table, cl):
    # constants and EXCEPT keys are sent as written (possibly with repeated members): the model builds them
    # with the constructors (C05 `build`), as the harness does
    return "(%s (build %s))" % (table[cl[0]], V.coq_value(cl[1])) if len(cl) > 1 else table[cl[0]]


def coq_call(c):
    op = c["op"]
    if op in CALLS:
        return CALLS[op]
    if op in ("Forall", "Exists", "SetRefinement", "Choose"):
        return "(C%s %s)" % (op, coq_cl(PCL, c["fn"]))
    if op in ("SetComprehension", "MakeFunction"):
        return "(C%s %s)" % (op, coq_cl(BCL, c["fn"]))
    if op == "Except":
        return "(CExcept %s)" % vlib.coq_list(["(%s, %s)" % (vlib.coq_list(["(build %s)" % V.coq_value(k) for k in s["keys"]]), coq_cl(BCL, s["val"])) for s in c["subs"]])
    raise ValueError(op)


def coq_observed(r):
    return {"ok": lambda: "(OVal %s)" % V.coq_value(r["val"]), "tlatype": lambda: "OTypeErr", "panic": lambda: "OPanic", "hang": lambda: "OHang"}[r["out"]]()


def too_big(c):
    """calls whose model evaluation would enumerate a huge range"""
    if c["op"] == "DotDot" and all(a[0] == "n" for a in c["args"][:2]) and c["args"][1][1] - c["args"][0][1] > 5000:
        return True
    return False


def tie(ctx, cases):
    """tie B: C03/Impl.v evaluated by vm_compute on the arguments as the runtime holds them"""
    if not ctx.coq_ok:
        return
    from concurrent.futures import ThreadPoolExecutor
    todo = [c for c in cases if c["op"] not in UNMODELLED and not too_big(c) and c["_res"].get("args_rep") is not None
            and len(c["_res"]["args_rep"]) == len(c["args"])]
    shard = 400
    parts = [todo[s:s + shard] for s in range(0, len(todo), shard)]

    def ev(k):
        body = ("From PGV Require Import C03.Impl.\nDefinition M := Eval vm_compute in mismatches_from 0\n [" +
                ";\n ".join("(%s, %s, %s)" % (coq_call(c), vlib.coq_list([V.coq_value(a) for a in c["_res"]["args_rep"]]), coq_observed(c["_res"]))
                            for c in parts[k]) + "].\nPrint M.\n")
        return (k,) + vlib.coq_eval("C03_cases_%d" % k, body)

    with ThreadPoolExecutor(max_workers=4) as ex:
        results = list(ex.map(ev, range(len(parts))))
    for k, rc, out, err in results:
        mm = vlib.parse_nat_list(out, "M") if rc == 0 else None
        if mm is None:
            ctx.breaks.append({"what": "correspondence evaluation C03_cases did not compile", "detail": (out + err)[-2000:]})
            break
        for i in mm:
            c = parts[k][i]
            rc2, out2, _ = vlib.coq_eval("C03_one_%d" % k, "From PGV Require Import C03.Impl.\nEval vm_compute in run_call %s %s.\n" % (
                coq_call(c), vlib.coq_list([V.coq_value(a) for a in c["_res"]["args_rep"]])))
            ctx.breaks.append({"what": "correspondence C03/Impl.v vs distsys/tla differs on %s" % c["op"],
                               "case": {k2: v for k2, v in c.items() if not k2.startswith("_")}, "impl": c["_res"], "model": out2.strip()[-800:]})
    ctx.extra["model_evaluated_cases"] = len(todo)


def tlc_crosscheck(ctx, cases):
    """thorough tier: the reference semantics (hence, through spec_tie, Base/Ops.v) against TLC itself"""
    import c03_tlc, shutil
    work = "/var/tmp/verif-%d-tlc" % os.getpid()
    try:
        pairs = [(c, c.get("_ref") or reference_outcome(c)) for c in cases if not too_big(c) and not infeasible(c)]
        stats, bad = c03_tlc.crosscheck(pairs, work, max_values=4500, max_errors=240, workers=6)
    finally:
        shutil.rmtree(work, ignore_errors=True)
    ctx.extra["tlc_crosscheck"] = stats
    try:   # kept beside the evidence so that a later quick run can still report the last cross-check
        json.dump({"seed": ctx.seed, "stats": stats, "disagreements": len(bad)},
                  open(os.path.join(vlib.VERIF, "evidence", "C03_tlc.json"), "w"), indent=1)
    except Exception:
        pass
    for b in bad[:20]:
        ctx.breaks.append({"what": "TLC disagrees with the reference semantics on %s" % b["case"]["op"],
                           "case": {k: v for k, v in b["case"].items() if not k.startswith("_")},
                           "model": "reference: %s | TLA+: %s" % (b["reference"], b["tla"]), "impl": "TLC: " + b["tlc"]})


def sem_to_wire(x):
    """semantic value of lib/c03_sem.py -> wire value"""
    t = x[0]
    if t == "d":
        return ["d"]
    if t in ("b", "n", "s"):
        return [t, x[1]]
    if t == "S":
        return ["S", [sem_to_wire(e) for e in x[1]]]
    if t == "T":
        return ["T", [sem_to_wire(e) for e in x[1]]]
    if t == "F":
        return ["F", [[sem_to_wire(k), sem_to_wire(v)] for k, v in x[1]]]
    raise ValueError(x)


def reference_outcome(c):
    try:
        return REF.apply(c["op"], c["args"], c.get("fn"), c.get("subs"))
    except (S.Unknown, RecursionError) as e:
        return ("unknown", str(e))


def coq_pexp(spec):
    k = spec[0]
    if k == "ok":
        return "(PVal %s %s)" % (V.coq_value(sem_to_wire(spec[1])), "true" if len(spec) > 2 and spec[2] else "false")
    if k == "err":
        return "PErr"
    if k == "okstr":
        return "PStr"
    if k == "member":
        return "(PMem %s)" % vlib.coq_list([V.coq_value(sem_to_wire(e)) for e in spec[1]])
    if k == "infinite":
        return "PInf"
    return "PSkip"


def spec_tie(ctx, cases):
    """Base/Ops.v (through C03/SpecRun.v) evaluated by vm_compute on the cases and compared with the Python
    reference: the spec side of the theorems is checked against an independent implementation of TLA+'s
    semantics (which the thorough tier in turn checks against TLC itself)."""
    if not ctx.coq_ok:
        return
    ok, log = vlib.coq_build_closure("C03/SpecRun.v")
    if not ok:
        ctx.breaks.append({"what": "C03/SpecRun.v does not compile", "detail": log[-1500:]})
        return
    from concurrent.futures import ThreadPoolExecutor
    step = 1 if ctx.tier != "quick" or ctx.replay else 2
    todo = [c for c in cases if not too_big(c) and not infeasible(c)][::step]
    for c in todo:
        c["_ref"] = reference_outcome(c)
    shard = 400
    parts = [todo[s:s + shard] for s in range(0, len(todo), shard)]

    def ev(k):
        body = ("From PGV Require Import C03.SpecRun.\nDefinition M := Eval vm_compute in spec_mismatches 0\n [" +
                ";\n ".join("(%s, %s, %s)" % (coq_call(c), vlib.coq_list(["(build %s)" % V.coq_value(a) for a in c["args"]]), coq_pexp(c["_ref"]))
                            for c in parts[k]) + "].\nPrint M.\n")
        return (k,) + vlib.coq_eval("C03_spec_%d" % k, body)

    with ThreadPoolExecutor(max_workers=4) as ex:
        results = list(ex.map(ev, range(len(parts))))
    for k, rc, out, err in results:
        mm = vlib.parse_nat_list(out, "M") if rc == 0 else None
        if mm is None:
            ctx.breaks.append({"what": "spec evaluation C03_spec did not compile", "detail": (out + err)[-2000:]})
            break
        for i in mm:
            c = parts[k][i]
            ctx.breaks.append({"what": "Base/Ops.v and the Python reference semantics disagree on %s" % c["op"],
                               "case": {k2: v for k2, v in c.items() if not k2.startswith("_")},
                               "impl": c["_res"], "model": "reference: %s" % (str(c["_ref"])[:600])})
    ctx.extra["spec_vs_reference_cases"] = len(todo)


MANIFEST = {
    "category": "proof",
    "technique": "Coq proof per operator (implementation model vs TLA+/TLC spec over all representation values, any depth, well- or ill-typed) + differential correspondence of the model with distsys/tla + independent Python reference oracle",
    "text": ("66 theorems in coq/Properties/C03.v, closed under the global context, of the shape allowed R (spec_op (norm args)) (ModuleOp args): proved outright for "
             "+ - * ^ \\div % unary- .. <= < >= >, ~ <=> /\\ \\/ => IF Assert, \\in \\notin \\cap \\cup \\ \\subseteq IsFiniteSet Cardinality SUBSET UNION MakeSet \\X, "
             "Head Tail Append SubSeq MakeTuple, :> @@ DOMAIN application MakeRecord record sets [S -> T] [x \\in S |-> e] EXCEPT (nested paths), \\A \\E set refinement/comprehension CHOOSE, "
             "ToString, SelectElement; partial with refutation witnesses for = # (incomparable kinds; tuple vs 1..n-function), Len and \\o on strings, Seq, SelectSeq (known findings). "
             "Base/Ops.v is itself compared with an independent Python reference on every case and, in the thorough tier, with TLC on thousands of constant expressions."),
    "level_note": ("11 defects of the pinned tree repaired by fix: commits (overflow of + - * unary-, ^ with bad exponents, .. at MaxInt32, \\div, %, SUBSET, UNION, Assert); "
                   "6 known findings with mechanically classified signatures. The tie is differential testing (1900 quick / 70000 thorough calls, 13 seeded mutations all caught)."),
}
