"""C16 — the other generated systems keep their specs' safety invariants (DESIGN §4 C16).
One typed model + proofs per system under coq/C16/, one harness (cmd/c16, `system` field per case),
per-system generation / oracle / projection in lib/c16_<system>.py."""
import json, os, re, time
from concurrent.futures import ThreadPoolExecutor
import vlib
import c16_dqueue, c16_shcounter, c16_loadbalancer, c16_gcounter, c16_proxy, c16_shopcart, c16_nested, c16_replicatedkv, c16_gotests, c16_shopnode, c16_live

ID = "C16"
THEOREMS = "Properties/C16.v"
HARNESS = ["c16"]
LEVEL = "proof"
READY = True
SYSTEMS = [c16_dqueue, c16_shcounter, c16_loadbalancer, c16_gcounter, c16_proxy, c16_shopcart, c16_shopnode, c16_nested, c16_replicatedkv] + c16_gotests.PROGRAMS
# walks per system: quick, thorough
BUDGET = {"dqueue": (10, 1200), "shcounter": (5, 400), "loadbalancer": (8, 1000), "gcounter": (7, 800), "proxy": (8, 800), "shopcart": (7, 600), "shopnode": (7, 600), "nestedcrdtimpl": (7, 700), "replicatedkv": (4, 100)}
BUDGET.update(c16_gotests.BUDGET)

TRUSTED_BASE = [
    "Coq 8.16.1 kernel (coqc, full .vo build); vm_compute used in the non-vacuity Examples and in the correspondence evaluation",
    "no axioms: Print Assumptions reports 'Closed under the global context' for every theorem of Properties/C16.v",
    "hand-written typed models coq/C16/<System>.v of each system's PlusCal translation (label by label), tied to the generated Go by step-level "
    "differential execution: harness/cmd/c16 + harness/steplib run the real archetype bodies under the real MPCalContext.Run loop, one attempt at a "
    "time, and every post-state is compared with the model's",
    "spec-state resources of harness/steplib (the specs' mapping macros over the specs' global variables) stand for the deployment resources "
    "(TCP mailboxes, channels, failure detector, 2PC / CRDT resources); that those give atomic labels over reliable FIFO links is C01/C06/C07/C11/C13",
    "choices resolved inside the implementation (either / with) are dictated by index and the chosen element is observed and handed to the model",
    "live runs (lib/c16_live.py, cmd/c16/live.go): real deployment resources, schedules chosen by the Go scheduler, judged only on channel outputs, 2PC snapshots "
    "(hook verif_hooks_c11.go) and how each archetype ended; they add no proof obligation and no coverage claim",
]
ASSUMPTIONS = [
    "labels are atomic steps (C01) over the specs' network models (C06)",
    "dqueue: consumers are self in 1..NUM_CONSUMERS, PRODUCER = 0",
    "shcounter: cntr is one atomic variable (C11); proxy: PerfectFD mapping (the property's clause; proxy.tla itself instantiates PracticalFD and says ProxyOK 'only holds if PerfectFD is used') and NUM_SERVERS < 100, which is the spec's own encoding (FAIL == 100 is the answer body that means failure; a server answers with its id); loadbalancer: NUM_SERVERS > 0 for assertion freedom",
    "shopcart ANode: the input queue only names elements of ElemSet (type safety); replicatedkv: none beyond the spec's constants",
    "gcounter / shopcart / nestedcrdtimpl: the spec processes that are not archetypes (UpdateGCntr, UpdateCRDT, Node) are Go transcriptions driven as environment actions",
]
RULE = ("cases = schedules per system from one PRNG (VERIF_SEED): seeded online random walks of the harness (steplib.Walker) and blind explicit "
        "schedules, over the instance sizes listed in input_distribution; corpus first. Non-trivial: dqueue = the producer's mailbox held >= 2 requests or >= 3 items "
        "were produced; shcounter = >= 2 nodes and a node had to wait; loadbalancer = >= 2 pages received through >= min(2, NUM_SERVERS) servers; gcounter / shopcart = "
        ">= 2 nodes and >= 2 merges; proxy = a request answered and (a server failed or >= 2 answers); nestedcrdtimpl = a committed section and (1 node or a peer merge); shopnode = an Add and a Remove applied and (1 node or a merge); replicatedkv = a client operation completed; "
        "a *.gotests program = it ran to completion (echo server: >= 2 echoes; PBFail4: a client finished); "
        "distinct by the schedule actually taken. Live runs: 4 shcounter (RPC x 4, 6 nodes; in-process x 3, 5), 2 dqueue, 2 loadbalancer, 3 proxy scenarios per quick run + live corpus cases; "
        "non-trivial = finished clean; distinct by what was observed.")


def corpus():
    out = []
    d = os.path.join(vlib.VERIF, "corpus", "C16")
    if os.path.isdir(d):
        for f in sorted(os.listdir(d)):
            if f.endswith(".json"):
                c = json.load(open(os.path.join(d, f)))
                c.setdefault("kind", "corpus")
                out.append(c)
    return out


def run_live(ctx, live_cases):
    """deployment smoke runs (lib/c16_live.py): one harness process per case, three at a time"""
    if not live_cases:
        return
    t0 = time.time()

    def one(c):
        return c16_live.run_one("c16", {"id": 0, "system": c["system"], "cfg": c["cfg"]}, c["cfg"].get("DEADLINE_MS", 10000))
    with ThreadPoolExecutor(max_workers=3) as ex:
        results = list(ex.map(one, live_cases))
    per = {}
    for c, (live, err) in zip(live_cases, results):
        a = c16_live.analyse(c, live, err)
        ctx.add_case(json.dumps([c["system"], c["cfg"], a["observed"]]), a["nontrivial"])
        d = per.setdefault(c["system"], {"runs": 0, "clean": 0})
        d["runs"] += 1
        d["clean"] += 0 if a["fails"] else 1
        for k, v in a["stats"].items():
            d[k] = d.get(k, 0) + v
        for sig, what in a["fails"]:
            ctx.failures.append({"signature": sig, "what": "%s %s: %s" % (c["system"], json.dumps(c["cfg"], sort_keys=True), what),
                                 "case": {"system": c["system"], "kind": "live", "cfg": c["cfg"]}, "obs": a["observed"][:1500]})
        if ctx.replay:
            print("replay: live", c["system"], c["cfg"], "failures", a["fails"], "observed", a["observed"][:600])
    ctx.extra["live_runs"] = per
    ctx.extra["seconds_live_runs"] = round(time.time() - t0, 1)


def run(ctx):
    rng = ctx.rng
    bysys = {m.NAME: m for m in SYSTEMS}
    if ctx.replay:
        cases = [json.load(open(ctx.replay))["case"]]
    else:
        cases = [c for c in corpus() if c.get("system") in bysys or c.get("system", "").startswith("live_")]
        for m in SYSTEMS:
            n = BUDGET[m.NAME][0 if ctx.tier == "quick" else 1]
            for _ in range(n):
                cases.append(m.gen(rng))
    live_cases = [c for c in cases if c.get("system", "").startswith("live_")]
    cases = [c for c in cases if not c.get("system", "").startswith("live_")]
    if not ctx.replay:
        live_cases += c16_live.gen(rng, ctx.tier)
    for i, c in enumerate(cases):
        c["id"] = i
    run_live(ctx, live_cases)
    dist, outcomes, labels = {}, {}, {}
    steps_total = 0
    walks = {m.NAME: [] for m in SYSTEMS}
    # the harness is run in batches so that a thorough run does not hold every observation in memory
    byid = {}
    BATCH = 300
    payload = [{k: v for k, v in c.items() if k in ("id", "system", "cfg", "sched", "auto")} for c in cases]
    t_h = time.time()
    for b0 in range(0, len(cases), BATCH):
        rc, res, err = vlib.run_jsonl("c16", payload[b0:b0 + BATCH], timeout=1800)
        got = {r["id"]: r for r in res}
        if rc != 0 or len(got) != len(payload[b0:b0 + BATCH]):
            ctx.breaks.append({"what": "harness c16 failed (rc=%d, %d/%d results)" % (rc, len(got), len(payload[b0:b0 + BATCH])), "detail": err[-2000:]})
            return
        for c in cases[b0:b0 + BATCH]:
            m = bysys[c["system"]]
            r = got[c["id"]]
            a = m.analyse(c, r)
            key = "%s/%s/%s" % (c["system"], c.get("kind", "corpus"), ",".join("%s=%s" % kv for kv in sorted(c["cfg"].items())))
            dist[key] = dist.get(key, 0) + 1
            for ob in r["steps"]:
                k2 = c["system"] + ":" + ob["outcome"]
                outcomes[k2] = outcomes.get(k2, 0) + 1
                if ob["outcome"] == "commit":
                    labels[ob["label"]] = labels.get(ob["label"], 0) + 1
            steps_total += len(r["steps"])
            ctx.add_case(json.dumps([c["system"], c["cfg"], a["explicit"]["sched"]]), a["nontrivial"])
            # keep only a compact trace of the observations
            r = {"steps": [{"proc": o["proc"], "label": o["label"], "outcome": o["outcome"], "picks": o["picks"], "pc": o["pc"],
                            "choices": o["choices"], "err": o.get("err", "")} for o in r["steps"]]}
            if ctx.replay:
                byid[c["id"]] = got[c["id"]]
            for sig, what in a["fails"]:
                ctx.failures.append({"signature": sig, "what": "%s: %s" % (c["system"], what), "case": a["explicit"],
                                     "obs": [(o["proc"], o["label"], o["outcome"], o["picks"]) for o in r["steps"]][-40:]})
            for b in a["breaks"]:
                ctx.breaks.append({"what": "%s step harness: %s" % (c["system"], b), "case": a["explicit"]})
            for k3, v3 in a.get("stats", {}).items():
                stats = ctx.extra.setdefault("stats_" + c["system"], {})
                stats[k3] = stats.get(k3, 0) + v3
            if a["coq"] is not None:
                walks[c["system"]].append((a, r))
            elif len(walks[c["system"]]) < 2:
                walks[c["system"]].append((a, r))
            if len(ctx.failures) > 200 or len(ctx.breaks) > 200:
                break
    ctx.extra["seconds_harness_and_oracles"] = round(time.time() - t_h, 1)
    ctx.extra["input_distribution"] = dist
    ctx.extra["steps_total"] = steps_total
    ctx.extra["step_outcomes"] = outcomes
    ctx.extra["committed_labels"] = labels
    ctx.samples = []
    for m in SYSTEMS:
        for (a, r) in walks[m.NAME][:2]:
            ctx.samples.append({"system": m.NAME, "cfg": a["explicit"]["cfg"], "schedule": a["explicit"]["sched"][:10],
                                "go_steps": [(o["proc"], o["label"], o["outcome"], o["picks"]) for o in r["steps"][:10]]})
    # tie B: each system's model runs the same schedules inside Coq; every post-state compared
    if ctx.coq_ok:
        shard = 60
        jobs = []
        for m in SYSTEMS:
            if m.COQ_MODULE is None:
                continue
            ws = walks[m.NAME]
            for s in range(0, len(ws), shard):
                jobs.append((m, s, ws[s:s + shard]))

        def eval_shard(job):
            m, s, part = job
            body = ("From PGV Require Import %s.\nDefinition walks : list walk :=\n [" % m.COQ_MODULE +
                    ";\n ".join(a["coq"] for (a, _) in part) + "].\n"
                    "Definition M := Eval vm_compute in mismatches_from 0 walks.\nPrint M.\n")
            t0 = time.time()
            r = vlib.coq_eval("C16_%s_%d" % (m.NAME, s), body, timeout=420)
            ctx.extra.setdefault("seconds_coq_tie", {})["%s_%d" % (m.NAME, s)] = round(time.time() - t0, 1)
            return r
        with ThreadPoolExecutor(max_workers=5) as ex:
            results = list(ex.map(eval_shard, jobs))
        detailed = 0
        for (m, s, part), (rc, out, err) in zip(jobs, results):
            mm = vlib.parse_nat_list(out, "M") if rc == 0 else None
            if mm is None:
                ctx.breaks.append({"what": "correspondence evaluation C16_%s did not compile" % m.NAME, "detail": (out + err)[-2000:]})
                continue
            for k in mm:
                a, r = part[k]
                if detailed >= 3:
                    ctx.extra["further_mismatching_walks"] = ctx.extra.get("further_mismatching_walks", 0) + 1
                    continue
                detailed += 1
                rc2, out2, _ = vlib.coq_eval("C16_one", "From PGV Require Import %s.\nEval vm_compute in first_mismatch_walk %s.\n" % (m.COQ_MODULE, a["coq"]))
                mt = re.search(r"Some (\d+)", out2)
                idx = int(mt.group(1)) if mt else None
                ctx.breaks.append({"what": "correspondence coq/%s.v vs generated %s Go differs (first differing step %s)" % (m.COQ_MODULE.replace(".", "/"), m.NAME, idx),
                                   "case": a["explicit"],
                                   "impl": r["steps"][idx] if idx is not None and idx < len(r["steps"]) else None,
                                   "model": out2.strip()[-600:]})
    if ctx.replay and byid:
        r = byid[0]
        for o in r["steps"]:
            print("replay:", o["proc"], o["label"], o["outcome"], o["picks"], json.dumps(o["state"]))
        print("replay: failures", [(f["signature"], f["what"]) for f in ctx.failures], "correspondence breaks", [b["what"] for b in ctx.breaks])


MANIFEST = {
    "category": "proof",
    "technique": "Coq proofs (inductive invariants over one typed transition system per generated system, any instance size) + step-level differential "
                 "correspondence of each model with the generated Go archetypes (steplib)",
    "text": ("Every system the property names has a typed model, proofs and a differential tie; oracle-only remain replicatedkv's TLA+ type errors and six of the "
             "eight *.gotests programs (two spec-level assertion failures among them are known findings). Theorems in coq/Properties/C16.v, all closed under the global context, for every instance size and every event list (= every "
             "interleaving and either/with resolution). dqueue (complete): buffer bound; per consumer production indices sent = consumed ++ in flight, indices "
             "distinct, consumed only by the requester and never by two consumers; k-th item goes to the k-th received request; an item is in flight only to a "
             "consumer waiting at c2; type safety. shcounter (complete, cntr atomic by assumption = C11): cntr counts the nodes past update, never decreases, never "
             "exceeds NUM_NODES, equals NUM_NODES once a node finished and stays, bounded progress. gcounter (complete): StrongConvergence, equal knowledge => equal "
             "reads, every counter component and the read value monotone, read <= NUM_NODES, assertion free. loadbalancer (complete): BuffersOk, assertion/type freedom, "
             "message well-formedness, and 'every request is answered by exactly one server' (ghost history of pages sent: request keys pairwise distinct, every issued "
             "request except a not-yet-answered current one has exactly one answering server; location invariant: a waiting client's request sits in exactly one place). "
             "shopcart (complete for the instance the spec declares, ANodeBench + AWORSet): StrongConvergence, QueryOK, equal knowledge => equal query, add clocks monotone, "
             "remove maps stay Null, no ill-typed step. "
             "proxy (complete): ProxyOK under the perfect failure detector and NUM_SERVERS < 100, FAIL reported only if all servers stopped, FD accuracy; "
             "assertion/type freedom incl. the client's resp.id = reqId (one-outstanding-request token invariant). nestedcrdtimpl: MonotonicState (no component of any replica state decreases in any step), view never decreases; StateSanity as written in the spec is refuted (it sums over SETS; known finding, witness replayed on the generated code) and the bound it intends (no replica shows more than the writes issued) is proved, with the handshake / write-accounting invariants and the Node's assertion freedom; and type safety (the with-chosen send target is always a resource id). shopcart ANode (the interactive archetype, whole AWORSet with removes, shared input queue; own model ShopNode.v): clocks live on NodeSet, an element never has both an add and a remove clock, the answer is exactly the elements with an add clock, Merge's assertions hold, type safety for inputs over ElemSet; monotonicity of the raw clocks is refuted once removes exist (it is an ANodeBench statement). replicatedkv (28 labels, typed model Rkv.v, tie): no assertion written in the spec fails (all four: msg.client \\in liveClients, firstPending.op, getResp.type, putResp.type), via message typing + 'no Get of c is queued or held at a replica that has disconnected c'; type errors oracle-only. The *.gotests programs (hello, IndexingLocals, NonDetExploration, bug2_124, PBFail4_bug125, bug_119, ProcedureSpaghetti, ExprTests) run under the same walks with the assertion / type-error / crash oracle and each program's expected values; models + theorems for IndexingLocals (type safe, final log and p) and NonDetExploration (AComplex's assertion fails EXACTLY when the with chose the same element all 20 times: refuted as the spec itself announces; known finding with witness). PBFail4 with >= 3 replicas fails its own `assert rep.from = idx` (acks out of order; known finding with witness; walks use <= 2 replicas). shopnode additionally keeps one REAL resources.AWORSet value per node in step with the spec-state crdt (same committed commands, same merges) and checks it against a reference add-wins observed-remove set and against 'what a replica reads is a function of the updates it incorporated'; this exposed two known findings on the pinned tree: shopcart.tla's AWORSet macro copies only the writer's own clock component where the deployed type copies the whole observed clock (the spec's set and the deployed set are different CRDTs; the shopcart theorems are about the spec's), and the deployed type's Merge drops the losing clock so that equal knowledge can read different values in a corner (owner C12). Live (deployment smoke) runs, oracle-only: the same generated archetypes over the REAL deployment resources their tests wire up, free-running goroutines in one process, a deadline on everything, every port taken from 127.0.0.1:0 — shcounter x 3-6 over real resources.NewTwoPC replicas (RPCReplicaHandle over loopback, and LocalReplicaHandle through the C11 hook): every node finishes, every replica's committed value is NUM_NODES, committed value and version never decrease in 2 ms samples, no archetype error; dqueue over TCP mailboxes + Input/OutputChan: every produced item is output exactly once, each consumer in production order; loadbalancer over TCP mailboxes + the real FileSystem: every client receives, in order, the content of the pages it requested and nothing more; proxy over TCP mailboxes + the real FailureDetector and Monitor (all servers up / none / one stopped mid-way): reply count, ids, from/to, a non-FAIL body names a server that was running when the request was sent, FAIL when none was started (FAIL while a server runs is only counted: the deployment's detector is timeout-based, not perfect). These runs tie the properties to the wiring code steplib bypasses; they establish that no violation was OBSERVED on the schedules the Go scheduler happened to produce (a handful per quick run) — no coverage claim, no atomicity or interleaving control, and what is not observable from outside (e.g. in-flight messages) is not judged. They found the twopc.go defect fixed by /repo 2512b762 (known_findings: fixed). Tie: the generated archetypes "
             "run under the real Run loop one attempt at a time over spec-state resources (the specs' mapping macros); each model runs the same schedule in Coq; every "
             "post-state and outcome compared; implementation-side oracles per system on the Go observations."),
    "level_note": ("Per system as stated in the text. Trusted: Coq kernel; hand-written models (differential tie: 81 quick / 7400 thorough "
                   "walks + corpus); replicatedkv's TLA+ type errors and the gotests programs other than IndexingLocals / NonDetExploration are oracle-only; spec-state resources replacing the deployment resources; gcounter's merge process is a Go transcription of the spec process."),
}
