"""C11 — the two-phase-commit variable behaves as one copy and does not livelock (DESIGN §4 C11)."""
import json, os, time, concurrent.futures
import vlib, c11_lib

ID = "C11"
THEOREMS = "Properties/C11.v"
HARNESS = ["c11"]
LEVEL = "proof"
READY = True
TRUSTED_BASE = [
    "Coq 8.16.1 kernel (coqc, full .vo build); vm_compute in the non-vacuity examples and the correspondence evaluation",
    "no axioms: Print Assumptions reports 'Closed under the global context' for every theorem of Properties/C11.v",
    "hand-written model coq/C11/Model.v of distsys/resources/twopc.go: every mutex-protected region is one atomic transition; "
    "tied to the code by differential execution (harness/cmd/c11 drives real NewTwoPC resources through driver-controlled "
    "ReplicaHandles; the model replays the same concrete events and must predict every node snapshot, reply and request)",
    "time.Now().UnixNano() of makePreCommit/makeAbort/makeCommit is an event argument; the theorems assume it increases per node "
    "(the model rejects a non-increasing reading; the harness feeds the observed readings, renamed order-preservingly)",
    "network = set of all requests ever sent / replies ever produced: delivery any time, any number of times, or never; "
    "Go channels, sync.RWMutex, gob round trip of TwoPCRequest/TwoPCResponse, net/rpc (smoke only) as specified",
    "verif hook distsys/resources/verif_hooks_c11.go (read-only snapshot + LocalReplicaHandle constructor), commit cdf0285c",
]
ASSUMPTIONS = [
    "per-node request timestamps strictly increase (wall clock does not step backwards between two requests of one node)",
    "atomicity: Commit() reads res.version twice without the mutex while the state is hasPreCommitted; modelled as one atomic "
    "step, sound because no install can happen at the proposer in that state (stale_read_aborts/no_panic). The third unlocked read "
    "(broadcastAbortOrCommit after rollback) was a real race and is repaired (84372a69); free-running stress cases cover such races",
    "application contract of distsys.MPCalContext: Read/Write only outside PreCommit/Commit, Commit only after PreCommit returned nil",
    "contenders_progress is proved from released states (no operation in flight, no accepted pre-commit held at any replica) for "
    "a proposer at the highest version and any reachable majority; aborts_drain / aborted_proposals_then_progress: from every state in "
    "which each accepted pre-commit belongs to a proposer that is rolling back (`draining`), delivering the Aborts reaches a released "
    "state and a contender then commits. Not covered: pre-commits whose Abort was lost for good (released by the next Commit or a "
    "higher pre-commit, checked by the epilogue only) and a pre-commit held for a crashed proposer (2PC blocks)",
]
RULE = ("cases = schedules for the driver-controlled network from one PRNG (VERIF_SEED): 2-7 replicas, 1-4 writers, 20-60 random "
        "events picked among the enabled ones (application call / first delivery / answer / duplicate delivery / answer with an "
        "older reply / time-out of a pre-commit send; thorough: also time-outs of abort/commit sends) with per-case weights, then "
        "a fault-free epilogue; every schedule is run over the local and the gob transport (some also by-reference through "
        "TwoPCReceiver.Receive); plus free-running RPC smoke and in-process stress runs. Corpus = minimised witnesses of the four defects found. Non-trivial = at least two proposers sent "
        "a pre-commit; distinct by the concrete event trace.")

RULES = "(mkRules true true true)"


def corpus():
    out = []
    d = os.path.join(vlib.VERIF, "corpus", "C11")
    if os.path.isdir(d):
        for f in sorted(os.listdir(d)):
            if f.endswith(".json"):
                c = json.load(open(os.path.join(d, f)))
                c["_corpus"] = f
                out.append(c)
    return out


def gen_schedule(rng, tier):
    n = rng.choice([2, 3, 3, 3, 4, 5, 5, 6, 7])
    w = rng.randint(1, min(n, 4))
    writers = sorted(rng.sample(range(n), w))
    k = rng.randint(20, 60)
    ev = [["?", rng.randrange(10 ** 6), rng.randrange(10 ** 6)] for _ in range(k)] + [["E"]]
    wt = {"app": rng.choice([30, 45, 60]), "deliver": rng.choice([20, 30, 40]), "answer": rng.choice([20, 30, 40]),
          "redeliver": rng.choice([0, 4, 15, 30]), "answer_old": rng.choice([0, 2, 8]),
          "timeout_pre": rng.choice([0, 4, 10, 25]), "timeout_slow": 0}
    if tier == "thorough" and rng.random() < 0.02:
        wt["timeout_slow"] = 3
    return {"n": n, "writers": writers, "init": rng.randint(0, 9), "events": ev, "weights": wt}


def run_harness(cases):
    """run the cases; survive a crash of the harness process (a panic inside a library goroutine)"""
    results, crashes = {}, []
    todo = list(cases)
    while todo:
        rc, res, err = vlib.run_jsonl("c11", [{k: v for k, v in c.items() if not k.startswith("_")} for c in todo], timeout=3000)
        for r in res:
            results[r["id"]] = r
        done = len(res)
        if done >= len(todo):
            break
        bad = todo[done]
        crashes.append((bad, (err or "")[-1500:], rc))
        results[bad["id"]] = {"id": bad["id"], "err": "crash", "steps": [], "crash": (err or "")[-1500:]}
        todo = todo[done + 1:]
    return results, crashes


def coq_shard(name, terms):
    body = ("From PGV Require Import C11.Model.\nDefinition cases : list (config * nat * Z * list hstep) :=\n [" +
            ";\n ".join(terms) + "].\nDefinition M := Eval vm_compute in mismatches_from 0 cases.\nPrint M.\n")
    rc, out, err = vlib.coq_eval(name, body, timeout=900)
    try:
        os.remove(os.path.join(vlib.RUN, name + ".v"))   # per-process scratch name: do not litter coq/_run
    except OSError:
        pass
    if rc != 0:
        return None, (out + err)[-2000:]
    import re
    m = re.search(r"M\s*=\s*(\[.*?\]|nil)\s*:\s*list", out, re.S)
    if not m:
        return None, out[-2000:]
    pairs = re.findall(r"\((\d+),\s*(\d+)\)", m.group(1))
    return [(int(a), int(b)) for a, b in pairs], ""


def smoke_cases(tier, base):
    sizes = [3, 5] if tier == "quick" else [3, 5, 7, 7]
    out = []
    for i, n in enumerate(sizes):
        out.append({"id": base + i, "kind": "smoke", "n": n, "init": 0, "writers": list(range(n)),
                    "rounds": 2 if tier == "quick" else 3, "deadline_ms": 15000})
    return out


def stress_cases(tier, base):
    """free-running in-process replicas under contention: goroutine-level races of twopc.go (the driver-stepped
    cases cannot interleave inside a function); an assertion failure kills the harness and is reported as a crash"""
    spec = [(3, 1200), (4, 600), (6, 600), (3, 300), (5, 300)] if tier == "quick" else \
        [(3, 15000), (5, 15000), (2, 8000)] + [(n, 400) for n in (3, 4, 5, 6, 3, 4, 5, 6, 7, 3)]
    return [{"id": base + i, "kind": "stress", "n": n, "init": 0, "writers": list(range(n)), "deadline_ms": ms}
            for i, (n, ms) in enumerate(spec)]


def stress_oracle(c, r):
    f = r.get("final") or {}
    if not f:
        return [("stress-no-result", "stress run produced no result: %s" % r.get("err"))]
    fails = []
    if not f["finished"]:
        fails.append(("stress-hang", "writers did not return after the deadline: done %s" % f["done"]))
    total = sum(f["done"])
    bad = [(i, s["ver"], s["old"]) for i, s in enumerate(f["snaps"]) if s["old"] != c["init"] + s["ver"]]
    if bad:
        fails.append(("stress-lost-update", "every commit adds one to the value it read, so version k must hold init+k; (replica, version, value) = %s" % bad[:4]))
    if f["finished"] and not f.get("settled", True):
        stuck = [(i, s["ver"], s["tpc"]) for i, s in enumerate(f["snaps"]) if s["tpc"] != "initial" or s["ver"] < f.get("total", 0)]
        fails.append(("replica-never-released", "all proposers returned (%d commits) but 5 s later not every replica is at the final version "
                      "with no pre-commit held: (replica, version, 2PC state) = %s" % (f.get("total", 0), stuck[:5])))
    top = max(s["ver"] for s in f["snaps"])
    if top != total and not fails:
        fails.append(("stress-version-count", "%d commits returned but the highest version is %d" % (total, top)))
    return fails


def smoke_oracle(c, r):
    f = r.get("final") or {}
    fails = []
    if not f:
        return [("rpc-smoke-crash", "smoke run produced no result: %s" % r.get("err"))]
    want = c["rounds"]
    if any(d < want for i, d in enumerate(f["done"]) if i in c["writers"]):
        fails.append(("rpc-smoke-no-progress", "over real RPC handles %d writers committed %s of %d rounds each in %d ms (attempts %s)" % (
            len(c["writers"]), f["done"], want, f["elapsed_ms"], f["attempts"])))
    vs = set((s["ver"], s["old"]) for s in f["snaps"])
    total = sum(f["done"])
    if not fails:
        if len(vs) != 1:
            fails.append(("rpc-smoke-disagree", "replicas end with different (version, value): %s" % sorted(vs)))
        elif list(vs)[0] != (total, c["init"] + total):
            fails.append(("rpc-smoke-lost-update", "%d increments committed but replicas hold (version, value) = %s" % (total, list(vs)[0])))
    return fails


def run(ctx):
    rng = ctx.rng
    tier = ctx.tier
    cases = []
    if ctx.replay:
        rp = json.load(open(ctx.replay))
        c = rp["case"]
        if isinstance(c, dict) and "pair" in c:
            cases = c["pair"]
        else:
            cases = [c]
    else:
        for c in corpus():
            for t in (["local", "ref", "gob"] if "transport" not in c else [c["transport"]]):
                cc = dict(c); cc["transport"] = t
                cases.append(cc)
        nsched = 60 if tier == "quick" else 2000
        for i in range(nsched):
            sch = gen_schedule(rng, tier)
            ts = ["local", "gob"] + (["ref"] if i % 10 == 0 else [])
            for t in ts:
                cc = dict(sch); cc["transport"] = t; cc["_sched"] = i
                cases.append(cc)
    for i, c in enumerate(cases):
        c["id"] = i
    stepped = [c for c in cases if c.get("kind") not in ("smoke", "stress")]
    smokes = [c for c in cases if c.get("kind") == "smoke"]
    stresses = [c for c in cases if c.get("kind") == "stress"]
    if not ctx.replay:
        smokes = smoke_cases(tier, len(cases))
        stresses = stress_cases(tier, len(cases) + len(smokes))
    t0 = time.time()
    results, crashes = run_harness(stepped + smokes + stresses)
    t_harness = time.time() - t0
    for bad, err, rc in crashes:
        ctx.failures.append({"signature": "harness-crash-%s" % bad.get("transport", bad.get("kind")),
                             "what": "the process died while running a case (panic in a goroutine of twopc.go?): %s" % err[-300:],
                             "case": {k: v for k, v in bad.items() if not k.startswith("_")}, "obs": err})
    # implementation-side oracle, every case
    stats = {"n": {}, "transport": {}, "commits": 0, "contended": 0, "duplicate_deliveries": 0, "timeouts": 0,
             "epilogue_rounds": {}, "steps": 0, "smoke": []}
    proj = {}
    for c in stepped:
        r = results.get(c["id"])
        if r is None:
            ctx.breaks.append({"what": "harness returned no result for a case", "case": c})
            continue
        pub = {k: v for k, v in c.items() if not k.startswith("_")}
        steps = c11_lib.real_steps(r)
        np_, ncommit, ndup, ntmo = c11_lib.contention(r)
        ctx.add_case(json.dumps([s["ev"] for s in steps]) + c["transport"], np_ >= 2)
        stats["n"][c["n"]] = stats["n"].get(c["n"], 0) + 1
        stats["transport"][c["transport"]] = stats["transport"].get(c["transport"], 0) + 1
        stats["commits"] += ncommit; stats["contended"] += (np_ >= 2); stats["duplicate_deliveries"] += ndup
        stats["timeouts"] += ntmo; stats["steps"] += len(steps)
        for st in r.get("steps", []):
            if st["ev"][0] == "E":
                k = st["obs"].get("rounds", 0)
                stats["epilogue_rounds"][k] = stats["epilogue_rounds"].get(k, 0) + 1
        for sig, what in c11_lib.oracle(c, r):
            ctx.failures.append({"signature": sig, "what": what, "case": pub, "obs": [(s["ev"], s["obs"]) for s in steps][-40:]})
        if "_sched" in c:
            proj.setdefault(c["_sched"], []).append((c, c11_lib.project(r)))
    # transport independence on the implementation: same schedule, same projected behaviour
    for k, lst in proj.items():
        base_c, base_p = lst[0]
        for c2, p2 in lst[1:]:
            if p2 != base_p:
                d = [i for i in range(min(len(base_p), len(p2))) if base_p[i] != p2[i]]
                at = d[0] if d else min(len(base_p), len(p2))
                ctx.failures.append({"signature": "transport-dependent-%s-vs-%s" % (base_c["transport"], c2["transport"]),
                                     "what": "the same schedule behaves differently over %s and %s from step %d on" % (base_c["transport"], c2["transport"], at),
                                     "case": {"pair": [{k2: v for k2, v in base_c.items() if not k2.startswith("_")},
                                                       {k2: v for k2, v in c2.items() if not k2.startswith("_")}]},
                                     "obs": {"first": base_p[at:at + 2] if at < len(base_p) else None, "second": p2[at:at + 2] if at < len(p2) else None}})
    for c in smokes:
        r = results.get(c["id"], {})
        f = r.get("final") or {}
        stats["smoke"].append({"n": c["n"], "done": f.get("done"), "elapsed_ms": f.get("elapsed_ms")})
        ctx.add_case("smoke %d %s" % (c["n"], f.get("done")), True)
        for sig, what in smoke_oracle(c, r):
            ctx.failures.append({"signature": sig, "what": what, "case": c, "obs": f})
    for c in stresses:
        r = results.get(c["id"], {})
        f = r.get("final") or {}
        stats.setdefault("stress", []).append({"n": c["n"], "ms": c["deadline_ms"], "commits": sum(f.get("done") or [0])})
        ctx.add_case("stress %d %s" % (c["n"], f.get("done")), True)
        for sig, what in stress_oracle(c, r):
            ctx.failures.append({"signature": sig, "what": what, "case": c, "obs": f})
    ctx.extra["input_distribution"] = stats
    ctx.extra["harness_seconds"] = round(t_harness, 1)
    t1 = time.time()
    ctx.samples = []
    for c in stepped[:200]:
        r = results.get(c["id"])
        if r and len(ctx.samples) < 4 and c11_lib.contention(r)[0] >= 2:
            ctx.samples.append({"n": c["n"], "transport": c["transport"], "writers": c["writers"],
                                "trace": [(s["ev"], s["obs"].get("then") or s["obs"].get("reply")) for s in c11_lib.real_steps(r)][:25]})
    # tie B: the model replays every concrete trace
    if ctx.coq_ok:
        terms = []
        for c in stepped:
            r = results.get(c["id"])
            if r is None or r.get("err") == "crash":
                continue
            t, k = c11_lib.case_coq(c, r, RULES)
            terms.append((c, t))
        shard = 50 if ctx.tier == "quick" else 100
        jobs = []
        with concurrent.futures.ThreadPoolExecutor(max_workers=6) as ex:
            for sidx in range(0, len(terms), shard):
                part = terms[sidx:sidx + shard]
                jobs.append((part, ex.submit(coq_shard, "C11_cases_%d_%d" % (os.getpid(), sidx), [t for _, t in part])))
            for part, fut in jobs:
                mm, err = fut.result()
                if mm is None:
                    ctx.breaks.append({"what": "correspondence evaluation C11_cases did not compile", "detail": err})
                    continue
                for (ci, step) in mm:
                    c = part[ci][0]
                    r = results[c["id"]]
                    steps = c11_lib.real_steps(r)
                    ctx.breaks.append({"what": "correspondence C11/Model.v vs distsys/resources/twopc.go differs at step %d of a case" % step,
                                       "case": {k: v for k, v in c.items() if not k.startswith("_")},
                                       "impl": steps[step] if step < len(steps) else None,
                                       "model": "model (rules %s) disagrees or is not enabled at this step; previous step: %s" % (
                                           RULES, json.dumps(steps[step - 1]["ev"]) if step > 0 else "init")})
    ctx.extra["correspondence_seconds"] = round(time.time() - t1, 1)
    if ctx.replay:
        for c in stepped:
            r = results.get(c["id"], {})
            print("replay:", c.get("transport"), "err=", r.get("err"))
            for st in c11_lib.real_steps(r):
                print("  ", st["ev"], {k: v for k, v in st["obs"].items()},
                      [(s["ver"], s["old"], s["tpc"][:4], s["cs"][:6]) for s in st["snaps"]])
            print("replay: oracle", c11_lib.oracle(c, r), "breaks", len(ctx.breaks))


MANIFEST = {
    "category": "proof",
    "technique": ("Coq proof of an inductive invariant of the 2PC protocol over all interleavings with delay/loss/duplication, any number "
                  "of replicas; differential correspondence model vs twopc.go under a driver-controlled network; implementation-side "
                  "oracle (agreement, one winner, stale sections, release, progress epilogue, transport independence, RPC smoke)"),
    "text": ("Theorems in coq/Properties/C11.v, closed under the global context, about the repaired code (four fix commits): "
             "version_monotone, agreement, agreement_state, one_winner_per_version, one_pending_winner, stale_read_aborts, no_panic, "
             "abort_releases, aborts_drain, aborted_proposals_then_progress, contenders_progress (from released states, any reachable majority), contenders_progress_all, transport_independent. The invariant (coq/C11/Proofs1.v) is "
             "proved inductive for every event list, any n. The model is tied to twopc.go on every run by replaying the concrete "
             "traces of several hundred schedules (2-7 replicas, 1-4 writers, duplicates, time-outs, both transports)."),
    "level_note": ("Trusted: Coq kernel; the hand-written model (tie = differential testing: a code change is caught if a generated schedule "
                   "reaches it); per-node increasing timestamps; atomicity of two unlocked version reads; the harness's own quorum "
                   "arithmetic used only to know when to wait. Liveness is 'a finite continuation exists', not a fairness theorem."),
}
