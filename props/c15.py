"""C15 — generated lock service: mutual exclusion, grant only to a waiting client, FIFO service (DESIGN §4 C15)."""
import json, os
import vlib

ID = "C15"
THEOREMS = "Properties/C15.v"
HARNESS = ["c15"]
LEVEL = "proof"
READY = True
TRUSTED_BASE = [
    "Coq 8.16.1 kernel (coqc, full .vo build); vm_compute used in the non-vacuity Examples and in the correspondence evaluation",
    "no axioms: Print Assumptions reports 'Closed under the global context' for every theorem of Properties/C15.v",
    "hand-written typed model coq/C15/Model.v of locksvc.tla's PlusCal translation (label by label), tied to the generated "
    "systems/locksvc/locksvc.go by step-level differential execution: harness/cmd/c15 + harness/steplib run the real AServer/AClient "
    "bodies under the real MPCalContext.Run loop, one attempt at a time, and every post-state is compared with the model's",
    "spec-state resources of harness/steplib stand for the deployment resources (RelaxedMailboxes, the test's hasLock resource): "
    "the network is the spec's bag per node with the ReliableLink mapping macro; that real mailboxes give atomic steps over reliable links is C01/C06",
    "the element a bag read returns is observed on the Go side and handed to the model as the event's argument",
    "live runs (cmd/c15/live.go, lib/c16_live.locksvc_analyse): real AServer / AClient over the relaxed TCP mailboxes of locksvc_test.go (ports from 127.0.0.1:0) and an IncMap of "
    "recording hasLock cells, free-running; schedules chosen by the Go scheduler; oracle-only, no coverage claim",
]
ASSUMPTIONS = [
    "labels are atomic steps (C01) and the network is the spec's reliable unordered bag per node (every per-link FIFO order is one of its delivery orders)",
    "clients are the archetype instances with self in 1..NumClients, one request each (as in the spec); the server is self = 0",
]
RULE = ("cases = schedules (which archetype runs its next attempt, which bag element a read picks) for 1-5 clients from one PRNG (VERIF_SEED): "
        "(a) seeded random walks generated online by the harness (steplib.Walker, no model knowledge), (b) blind explicit schedules "
        "(many disabled attempts), (c) 'all clients request first, then every delivery order index' schedules; corpus first. "
        "Non-trivial = a walk in which the server chose among >= 2 distinct pending messages or its queue reached length >= 2; distinct by the schedule actually taken.")

SPC = {"AServer.serverLoop": "SLoop", "AServer.serverReceive": "SReceive", "AServer.serverRespond": "SRespond", "AServer.Done": "SDone"}
CPC = {"AClient.acquireLock": "CAcquire", "AClient.criticalSection": "CCrit", "AClient.unlock": "CUnlock", "AClient.Done": "CDone"}
OUT = {"commit": 0, "abort": 1, "done": 2, "finished": 2, "error:assert": 3, "error:tlatype": 4}


# ---------------------------------------------------------------- generation

def gen_auto(rng):
    n = rng.choice([1, 2, 2, 3, 3, 3, 4, 4, 5, 5])
    return {"kind": "auto", "n": n, "auto": {"seed": rng.getrandbits(60) | 1, "steps": 16 * n + 24}}


def gen_blind(rng):
    n = rng.randint(1, 5)
    sched = []
    for _ in range(rng.randint(10, 30 * n)):
        p = 0 if rng.random() < 0.45 else rng.randint(1, n)
        sched.append([p, [rng.getrandbits(30)]])
    return {"kind": "blind", "n": n, "sched": sched}


def gen_orders(rng):
    """all clients send their request first; then the server drains its bag picking dictated indices"""
    n = rng.randint(2, 5)
    order = list(range(1, n + 1)); rng.shuffle(order)
    sched = [[c, []] for c in order]
    for _ in range(n):
        sched += [[0, []], [0, [rng.getrandbits(30)]], [0, []]]
    # then clients and server alternate at random until everybody is through
    for _ in range(14 * n):
        p = 0 if rng.random() < 0.5 else rng.randint(1, n)
        sched.append([p, [rng.getrandbits(30)]])
    return {"kind": "orders", "n": n, "sched": sched}


def gen_many(rng):
    """9-12 clients, ALL of them queued at the server at once (every request sent, then every request received in a dictated
    order), then rounds in which every client is offered its two labels and the server its three"""
    n = rng.randint(9, 12)
    order = list(range(1, n + 1)); rng.shuffle(order)
    sched = [[c, []] for c in order]
    for _ in range(n):
        sched += [[0, []], [0, [rng.getrandbits(30)]], [0, []]]
    for _ in range(n):
        cs = list(range(1, n + 1)); rng.shuffle(cs)
        for c in cs:
            sched += [[c, []], [c, []]]
        sched += [[0, []], [0, [0]], [0, []]]
    return {"kind": "many", "n": n, "sched": sched}


def corpus():
    out = []
    d = os.path.join(vlib.VERIF, "corpus", "C15")
    if os.path.isdir(d):
        for f in sorted(os.listdir(d)):
            if f.endswith(".json"):
                c = json.load(open(os.path.join(d, f)))
                c.setdefault("kind", "corpus")
                out.append(c)
    return out


# ---------------------------------------------------------------- projection of the Go observations

class Unencodable(Exception):
    pass


def msg_of(x):
    """canonical JSON of a TLA+ message -> ('Req', c, t) | ('Num', n)"""
    if isinstance(x, bool):
        raise Unencodable(repr(x))
    if isinstance(x, int):
        return ("Num", x)
    if isinstance(x, dict) and "f" in x:
        d = {k: v for k, v in x["f"] if isinstance(k, str)}
        if set(d) == {"from", "type"} and len(x["f"]) == 2 and all(isinstance(d[k], int) and not isinstance(d[k], bool) and d[k] >= 0 for k in d):
            return ("Req", d["from"], d["type"])
    raise Unencodable(json.dumps(x))


def coq_msg(m):
    return "(Req %d %d)" % (m[1], m[2]) if m[0] == "Req" else "(Num %d)" % m[1]


def fn_items(x):
    if not (isinstance(x, dict) and "f" in x):
        raise Unencodable(json.dumps(x))
    return x["f"]


def project(n, state, srv_locals, pcs, arrived, granted):
    """Go-side observation -> the model's observable components"""
    net = {k: v for k, v in fn_items(state["network"])}
    hl = {k: v for k, v in fn_items(state["hasLock"])}
    bags = []
    for node in range(n + 1):
        bag = []
        for m, cnt in fn_items(net[node]):
            bag += [msg_of(m)] * cnt
        bags.append(bag)
    has = [bool(hl[node]) for node in range(n + 1)]
    smsg = srv_locals.get("AServer.msg")
    smsg = None if smsg is None else msg_of(smsg)
    qv = srv_locals.get("AServer.q", {"t": []})
    if not (isinstance(qv, dict) and "t" in qv and all(isinstance(e, int) for e in qv["t"])):
        raise Unencodable(json.dumps(qv))
    return {"net": bags, "hasLock": has, "smsg": smsg, "q": list(qv["t"]),
            "spc": SPC[pcs["server"]], "cpc": [CPC[pcs["c%d" % c]] for c in range(1, n + 1)],
            "arrived": list(arrived), "granted": list(granted)}


def coq_obs(o):
    return "(mkObs %s %s %s %s %s %s %s %s)" % (
        vlib.coq_list([vlib.coq_list([coq_msg(m) for m in b]) for b in o["net"]]),
        vlib.coq_list([vlib.coq_bool(b) for b in o["hasLock"]]),
        "None" if o["smsg"] is None else "(Some %s)" % coq_msg(o["smsg"]),
        vlib.coq_list([str(c) for c in o["q"]]),
        o["spc"], vlib.coq_list(o["cpc"]),
        vlib.coq_list([str(c) for c in o["arrived"]]), vlib.coq_list([str(c) for c in o["granted"]]))


def analyse(case, res):
    """walk through the observations of one case: implementation-side oracle + projection for the model.
    returns (failures [(sig, what)], breaks [what], coq_steps [str], explicit_schedule, nontrivial)"""
    n = case["n"]
    fails, breaks, coq_steps, sched = [], [], [], []
    if res.get("err"):
        return fails, ["harness error: " + res["err"]], coq_steps, sched, False
    pcs = dict(res["pcs0"])
    srv_locals = {}
    arrived, granted = [], []
    nontriv = False
    model_ok = True
    prev_state = res["init"]
    last_o = None
    for i, ob in enumerate(res["steps"]):
        proc = ob["proc"]
        p = 0 if proc == "server" else int(proc[1:])
        sched.append([p, [c["index"] for c in ob["choices"]]])
        out = ob["outcome"]
        label = ob["label"]
        if out not in OUT:
            breaks.append("step %d: archetype %s ended with %s (%s)" % (i, proc, out, ob.get("err", "")[:200]))
            break
        if out == "error:assert":
            fails.append(("assertion-failed:" + label, "step %d: assertion failed in %s of %s: %s" % (i, label, proc, ob.get("err", ""))))
        if out == "error:tlatype":
            fails.append(("tla-type-error:" + label, "step %d: TLA+ type error in %s of %s: %s" % (i, label, proc, ob.get("err", "")[:200])))
        for st in ob.get("stale") or []:
            breaks.append("step %d: stale local state (an aborted attempt was not rolled back?): %s" % (i, st))
        # reads of server locals must agree with what was tracked (initially msg = defaultInitValue, q = <<>>)
        if proc == "server":
            written = set()
            for el in ob["elems"]:
                if el["name"] in ("AServer.q", "AServer.msg") and not el["idx"]:
                    if el["kind"] == "w":
                        written.add(el["name"])
                    elif el["name"] not in written:
                        exp = srv_locals.get(el["name"], {"t": []} if el["name"] == "AServer.q" else None)
                        if el["val"] != exp and not any("tracked value" in b for b in breaks):
                            breaks.append("step %d: server read %s = %s but the tracked value is %s" % (i, el["name"], json.dumps(el["val"]), json.dumps(exp)))
        pre = prev_state
        pick = None
        try:
            if ob["picks"]:
                pick = msg_of(ob["picks"][0])
            if out == "commit":
                if proc == "server":
                    srv_locals = dict(ob["locals"])
                pcs[proc] = ob["pc"]
                if proc == "server" and label == "AServer.serverReceive" and pick and pick[0] == "Req" and pick[2] == 1:
                    arrived.append(pick[1])
                # implementation-side oracle: grant only to a waiting client
                pre_net = {k: v for k, v in fn_items(pre["network"])}
                pre_has = {k: v for k, v in fn_items(pre["hasLock"])}
                for el in ob["elems"]:
                    if el["kind"] == "w" and el["name"].endswith(".network") and el["val"] == 3 and len(el["idx"]) == 1:
                        c = el["idx"][0]
                        why = []
                        if c not in arrived:
                            why.append("its request never reached the server")
                        if c in granted:
                            why.append("it has already been granted the lock")
                        if not (isinstance(c, int) and 1 <= c <= n):
                            why.append("it is not a client")
                        else:
                            if pcs.get("c%d" % c) != "AClient.criticalSection":
                                why.append("it is at %s, not waiting" % pcs.get("c%d" % c))
                            if pre_has.get(c):
                                why.append("it holds the lock")
                            if any(m == 3 for m, _ in fn_items(pre_net[c])):
                                why.append("a grant is already in flight to it")
                        granted.append(c)
                        if why:
                            fails.append(("grant-to-non-waiting", "step %d: %s sent a Grant to %s although %s" % (i, proc, c, "; ".join(why))))
            elif out in ("done",):
                pcs[proc] = proc == "server" and "AServer.Done" or "AClient.Done"
            # oracle on the post-state
            post = ob["state"]
            holders = [k for k, v in fn_items(post["hasLock"]) if v is True and isinstance(k, int) and 1 <= k <= n]
            if len(holders) > 1:
                fails.append(("mutex-two-holders", "step %d: clients %s hold the lock at the same time" % (i, holders)))
            if granted != arrived[:len(granted)]:
                fails.append(("fifo-order-violated", "step %d: grants issued in order %s but requests reached the server in order %s" % (i, granted, arrived)))
            if out in ("abort", "finished", "done") and post != pre:
                fails.append(("abort-changed-state", "step %d: %s attempt of %s changed the spec state" % (i, out, proc)))
            # non-triviality
            if any(c["ceiling"] >= 2 for c in ob["choices"]) and proc == "server":
                nontriv = True
            if len(arrived) - len(granted) >= 2:
                nontriv = True
            if model_ok:
                # projection for the model; a label or a value the typed model does not know breaks the TIE (reported once),
                # the implementation-side oracle above keeps judging the rest of the walk on hasLock / network alone
                try:
                    o = project(n, post, srv_locals, pcs, arrived, granted)
                    if len(o["q"]) >= 2:
                        nontriv = True
                    same = out != "commit" and post == pre and coq_steps and last_o == o
                    coq_steps.append("((%d,%s),(%d,%s))" % (p, "None" if pick is None else "Some " + coq_msg(pick), OUT[out],
                                                             "None" if same else "Some " + coq_obs(o)))
                    last_o = o
                except (Unencodable, KeyError) as e:
                    model_ok = False
                    breaks.append("step %d: observation outside the typed model's universe (label or value unknown to coq/C15/Model.v): %r" % (i, e))
        except (Unencodable, KeyError, TypeError) as e:
            if model_ok:
                breaks.append("step %d: observation the oracle cannot read: %r" % (i, e))
            model_ok = False
        prev_state = ob["state"]
        if out.startswith("error"):
            break
    return fails, breaks, coq_steps, sched, nontriv


def run_live(ctx, sizes):
    """deployment smoke runs of locksvc (harness/cmd/c15/live.go, oracle lib/c16_live.locksvc_analyse): real AServer / AClient over
    the relaxed TCP mailboxes and an IncMap of recording hasLock cells, free-running; one process per run"""
    import time
    import c16_live
    t0 = time.time()
    per = {"runs": 0, "clean": 0}
    for n in sizes:
        live, err = c16_live.run_one("c15", {"id": 0, "live": {"clients": n, "deadline_ms": 10000}}, 10000)
        a = c16_live.locksvc_analyse(n, live, err)
        ctx.add_case(json.dumps(["live", n, a["observed"]]), a["nontrivial"])
        per["runs"] += 1
        per["clean"] += 0 if a["fails"] else 1
        for sig, what in a["fails"]:
            ctx.failures.append({"signature": sig, "what": "live locksvc, %d clients: %s" % (n, what), "case": {"kind": "live", "n": n, "live": {"clients": n}},
                                 "obs": a["observed"][:1500]})
        if ctx.replay:
            print("replay: live locksvc", n, "failures", a["fails"], "hasLock commits", a["observed"][:800])
    ctx.extra["live_runs"] = per
    ctx.extra["seconds_live_runs"] = round(time.time() - t0, 1)


def run(ctx):
    rng = ctx.rng
    nwalks = 60 if ctx.tier == "quick" else 5000
    if ctx.replay:
        rp = json.load(open(ctx.replay))
        if rp["case"].get("kind") == "live":
            run_live(ctx, [rp["case"]["n"]])
            return
        cases = [rp["case"]]
    else:
        run_live(ctx, [1, 3, 5] if ctx.tier == "quick" else [1, 2, 3, 4, 5, 8, 12, 20] * 3)
        cases = corpus()
        for i in range(nwalks):
            r = rng.random()
            cases.append(gen_auto(rng) if r < 0.6 else gen_orders(rng) if r < 0.85 else gen_blind(rng))
        for i in range(3 if ctx.tier == "quick" else 150):
            cases.append(gen_many(rng))
    for i, c in enumerate(cases):
        c["id"] = i
    rc, res, err = vlib.run_jsonl("c15", [{k: v for k, v in c.items() if k in ("id", "n", "sched", "auto")} for c in cases], timeout=900)
    byid = {r["id"]: r for r in res}
    if rc != 0 or len(byid) != len(cases):
        ctx.breaks.append({"what": "harness c15 failed (rc=%d, %d/%d results)" % (rc, len(byid), len(cases)), "detail": err[-2000:]})
        return
    kinds, outcomes, labels = {}, {}, {}
    steps_total = 0
    walks = []
    for c in cases:
        r = byid[c["id"]]
        fails, breaks, coq_steps, sched, nontriv = analyse(c, r)
        explicit = {"kind": c.get("kind", "corpus"), "n": c["n"], "sched": sched}
        kinds[c.get("kind", "corpus")] = kinds.get(c.get("kind", "corpus"), 0) + 1
        for ob in r["steps"]:
            outcomes[ob["outcome"]] = outcomes.get(ob["outcome"], 0) + 1
            if ob["outcome"] == "commit":
                labels[ob["label"]] = labels.get(ob["label"], 0) + 1
        steps_total += len(r["steps"])
        ctx.add_case(json.dumps([c["n"], sched]), nontriv)
        for sig, what in fails:
            ctx.failures.append({"signature": sig, "what": what, "case": explicit,
                                 "obs": [(o["proc"], o["label"], o["outcome"], o["picks"]) for o in r["steps"]][-40:]})
        for b in breaks:
            ctx.breaks.append({"what": "locksvc step harness: " + b, "case": explicit})
        walks.append((c, explicit, coq_steps, r))
    ctx.extra["input_distribution"] = kinds
    ctx.extra["steps_total"] = steps_total
    ctx.extra["step_outcomes"] = outcomes
    ctx.extra["committed_labels"] = labels
    ctx.extra["clients_distribution"] = {str(n): sum(1 for c in cases if c["n"] == n) for n in range(1, 13)}
    ctx.samples = [{"n": e["n"], "schedule": e["sched"][:12],
                    "go_steps": [(o["proc"], o["label"], o["outcome"], o["picks"]) for o in r["steps"][:12]]}
                   for (_, e, _, r) in walks[:4]]
    # tie B: the model runs the same schedules inside Coq; every post-state compared
    if ctx.coq_ok:
        shard = 30
        from concurrent.futures import ThreadPoolExecutor
        def eval_shard(s):
            part = walks[s:s + shard]
            body = ("From PGV Require Import C15.Model.\n"
                    "Definition walks : list walk :=\n [" +
                    ";\n ".join("(%d, [%s])" % (e["n"], ";\n   ".join(cs)) for (_, e, cs, _) in part) + "].\n"
                    "Definition M := Eval vm_compute in mismatches_from 0 walks.\nPrint M.\n")
            return (s,) + tuple(vlib.coq_eval("C15_walks_%d" % s, body))
        with ThreadPoolExecutor(max_workers=4) as ex:
            results = list(ex.map(eval_shard, range(0, len(walks), shard)))
        for (s, rc, out, err) in results:
            part = walks[s:s + shard]
            mm = vlib.parse_nat_list(out, "M") if rc == 0 else None
            if mm is None:
                ctx.breaks.append({"what": "correspondence evaluation C15_walks did not compile", "detail": (out + err)[-2000:]})
                break
            for k in mm:
                c, e, cs, r = part[k]
                if len(ctx.breaks) >= 3:     # detail only for the first few; the rest are counted
                    ctx.extra["further_mismatching_walks"] = ctx.extra.get("further_mismatching_walks", 0) + 1
                    continue
                rc2, out2, _ = vlib.coq_eval("C15_one", "From PGV Require Import C15.Model.\n"
                                             "Eval vm_compute in first_mismatch %d init 0 [%s].\n" % (e["n"], ";\n".join(cs)))
                idx = None
                import re
                m = re.search(r"Some (\d+)", out2)
                if m:
                    idx = int(m.group(1))
                ctx.breaks.append({"what": "correspondence C15/Model.v vs locksvc.go differs (first differing step %s)" % idx,
                                   "case": e,
                                   "impl": r["steps"][idx] if idx is not None and idx < len(r["steps"]) else None,
                                   "model": out2.strip()[-600:]})
    if ctx.replay:
        c, e, cs, r = walks[0]
        for o in r["steps"]:
            print("replay:", o["proc"], o["label"], o["outcome"], o["picks"], json.dumps(o["state"]))
        print("replay: failures", [(f["signature"], f["what"]) for f in ctx.failures], "correspondence breaks", [b["what"] for b in ctx.breaks])


MANIFEST = {
    "category": "proof",
    "technique": "Coq proof (token-counting inductive invariant over the typed locksvc transition system, any N, bag network; ghost-history invariant for FIFO) "
                 "+ step-level differential correspondence of the model with the generated Go archetypes (steplib)",
    "text": ("Theorems in coq/Properties/C15.v, all closed under the global context, for every number of clients N and every event list "
             "(= every interleaving of server/client labels and every delivery order of the bag network): mutual_exclusion (the spec's Safety), "
             "token_invariant (the strengthening invariant of DESIGN §11) and at_most_one_token, grant_only_to_waiting (a Grant is sent only to a client whose "
             "request reached the server, that was never granted before, that waits at criticalSection without lock or grant in flight, and it becomes head of q), "
             "fifo_service (the grant sequence is a prefix of the duplicate-free sequence of Lock requests in order of receipt), served_at_most_once (over the whole execution no client is granted twice and every granted client's request had been received), assertion_free (no assert fails, "
             "no ill-typed action), ghost_irrelevant. Tie: the real generated locksvc.AServer/AClient bodies run under the real Run loop one attempt at a time over "
             "spec-state resources (harness/steplib); the model runs the same schedule in Coq and every post-state (network bags, hasLock, msg, q, every pc, "
             "the two history lists) and every outcome (commit / disabled / finished / assertion) is compared; an implementation-side oracle checks mutual exclusion, "
             "grant-only-to-waiting and FIFO directly on the observed Go states. Live (deployment smoke) runs, oracle-only: the same archetypes over the REAL resources "
             "locksvc_test.go wires up (relaxed TCP mailboxes on ports from 127.0.0.1:0, hasLock as an IncMap of per-client cells that record every committed write), "
             "free-running with a deadline, 1 / 3 / 5 clients per quick run: every client finishes, commits hasLock TRUE then FALSE exactly once at its own index, and the "
             "holding intervals (from the position where TRUE was written to the position where FALSE was written, in one global order) are pairwise disjoint. They tie the "
             "property to the wiring steplib bypasses and establish only that no violation was observed on the schedules the Go scheduler produced; grant-only-to-waiting and "
             "FIFO are not observable there (the seeded 'grant without queueing' server is caught by the stepped oracle on every run, by a live run only when the race shows)."),
    "level_note": ("Trusted: Coq kernel; the hand-written model (tie = differential testing on 60 quick / 5000 thorough schedules for 1-5 clients, all seven labels and both "
                   "branches of every await reached); the spec-state resources that replace the deployment mailboxes (their atomicity/FIFO is C01/C06). "
                   "The liveness properties of the spec (ProgressOK, NoPriorityInversion) are not claimed."),
}
