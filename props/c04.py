"""C04 — procedure calls follow PlusCal stack semantics incl. recursion and tail calls (DESIGN §4 C04)."""
import json, os, copy
import vlib
from props.c01 import canon, coq_val, T, R
from props import c01 as _c01

ID = "C04"
THEOREMS = "Properties/C04.v"
HARNESS = ["c04"]
LEVEL = "proof"
READY = True
TRUSTED_BASE = [
    "Coq 8.16.1 kernel (coqc, full .vo build); vm_compute in the non-vacuity Examples and the correspondence evaluation",
    "no axioms: Print Assumptions reports 'Closed under the global context' for every theorem of Properties/C04.v",
    "hand-written model coq/C04/Model.v of archetypeinterface.go Call/Return/TailCall/Goto/Read/Write on locals and of Run's commit/abort, tied by differential "
    "execution on every run (harness/cmd/c04 runs real MPCalContexts over hand-built MPCalProc tables; the model is evaluated by vm_compute on the same scripts)",
    "the specification machine is the stock pcal translation of call/return (checked by running pcal on a sample algorithm); a tail call is return followed by call "
    "with the popped return label (properties.jsonl mechanism; pcal itself restores only the procedure's locals, not its parameters, in that case)",
    "the implementation-side oracle in props/c04.py (activation-record interpreter in Python) is test infrastructure",
]
ASSUMPTIONS = [
    "procedure tables follow the generator's conventions: StateVars of a procedure are distinct, are not `.pc`/`.stack`, the preamble writes only the procedure's own variables "
    "and a local's initialiser is a constant, a parameter, or a parameter plus a constant (pexp), evaluated after the arguments are bound",
    "activation_isolation: body statements between call and matching return write only variables of the running activation's procedure or variables in the set R reached through references",
    "the code generator (Scala) is not available offline: the tables are hand-built as the property's observe_at allows; ProcedureSpaghetti.go is the only shipped user",
]
RULE = ("cases = scripted archetypes over hand-built MPCalProc tables from one PRNG (VERIF_SEED): 1-3 procedures whose names are prefixes of one another (P/PP/PPQ, walk/walkBack/w) with 1-2 parameters (by value or by reference: the name of an "
        "archetype local) and 0-1 locals (initialised by a constant or from the parameter), bodies that log their variables, write them, read and write through references (bound to archetype locals or to non-local resources of the archetype: a variable resource, an OutputChan, an InputChan that may refuse), and call / tail-call each other or themselves on a decreasing counter "
        "(depth <= 4, so recursion, mutual recursion and tail position all occur), a few attempts aborted after the call/return statement, plus a malformed stream (too many arguments, "
        "return on an empty stack, unknown label/procedure). Non-trivial = nesting depth >= 2 or a recursive or tail call was executed; distinct by canonical script text.")

# ------------------------------------------------------------------------------------------ generation


def gen_case(rng, malformed=False):
    nprocs = rng.randint(1, 3)
    procs, labels = [], {}
    # procedure names that are prefixes of one another (labels are qualified by the procedure name)
    names = rng.choice([["P", "PP", "PPQ"], ["walk", "walkBack", "w"], ["P0", "P1", "P2"]])[:nprocs]
    names = sorted(names)
    shape = {}
    for p in names:
        has_b = rng.random() < 0.6
        b_ref = has_b and rng.random() < 0.5
        has_z = rng.random() < 0.5
        vs = [p + ".a"] + ([p + ".b"] if has_b else []) + ([p + ".z"] if has_z else [])
        # the local's initialiser: a constant, or an expression over the parameter (evaluated after the arguments are bound)
        pre = [[p + ".z", rng.choice([None, 0, "z0", ["add", ["v", p + ".a"], 10], ["add", ["v", p + ".a"], 10], ["v", p + ".a"]])]] if has_z else []
        # what a by-reference parameter is used for decides what it may be bound to: rw = a variable (an archetype
        # local, or a non-local variable resource), w = an output channel, r = an input channel
        shape[p] = {"b": has_b, "bref": b_ref, "z": has_z, "nargs": 1 + (1 if has_b else 0),
                    "flavour": rng.choice(["rw", "rw", "w", "r"]) if b_ref else None}
        procs.append({"name": p, "label": p + ".l1", "vars": vs, "pre": pre})

    def args_for(q, caller):
        """argument expressions for a call of q from `caller` (None = the archetype)"""
        a = ["c", rng.randint(0, 4)] if caller is None else ["add", ["v", caller + ".a"], -1]
        out = [a]
        if shape[q]["b"]:
            if shape[q]["bref"]:
                fl = shape[q]["flavour"]
                if caller is not None and shape[caller]["bref"] and shape[caller]["flavour"] == fl and rng.random() < 0.5:
                    out.append(["v", caller + ".b"])          # pass the reference along
                elif fl == "rw":
                    out.append(rng.choice([["c", "A.x"], ["c", "A.y"], ["v", "A.e"], ["c", "&A.e"]]))
                elif fl == "w":
                    out.append(["v", "A.o"])
                else:
                    out.append(["v", "A.i"])
            else:
                out.append(rng.choice([["c", rng.choice([7, "s", None])]] + ([["v", caller + ".a"]] if caller else [])))
        if malformed and rng.random() < 0.3:
            out += [["c", 1], ["c", 2]]
        return out

    def body_stmts(p):
        out = []
        sh = shape[p]
        for _ in range(rng.randint(0, 3)):
            r = rng.random()
            if r < 0.35:
                out.append(["log", ["v", p + ".a"]])
            elif r < 0.5 and sh["b"] and not sh["bref"]:
                out.append(["log", ["v", p + ".b"]])
            elif r < 0.6 and sh["z"]:
                out.append(["log", ["v", p + ".z"]])
            elif r < 0.7 and sh["z"]:
                out.append(["set", p + ".z", rng.choice([["v", p + ".a"], ["c", rng.choice([1, "w"])], ["add", ["v", p + ".a"], 10]])])
            elif r < 0.8 and sh["bref"] and sh["flavour"] == "rw":
                out.append(["setref", p + ".b", ["add", ["deref", p + ".b"], 1]])
            elif r < 0.88 and sh["bref"] and sh["flavour"] == "rw":
                out.append(["log", ["deref", p + ".b"]])
            elif r < 0.88 and sh["bref"] and sh["flavour"] == "w":
                out.append(["setref", p + ".b", rng.choice([["v", p + ".a"], ["c", "out"]])])
            elif r < 0.88 and sh["bref"] and sh["flavour"] == "r":
                out.append(["log", ["deref", p + ".b"]])
            elif r < 0.94 and sh["b"] and not sh["bref"]:
                out.append(["set", p + ".b", ["c", rng.choice([0, "t"])]])
        return out

    for p in names:
        q1, q2 = rng.choice(names), rng.choice(names)
        r = rng.random()
        go1 = ["call", q1, p + ".l2", args_for(q1, p)] if r < 0.7 else ["tail", q1, args_for(q1, p)]
        base = [["ret"]] if rng.random() < 0.7 else [["goto", p + ".l3"]]
        labels[p + ".l1"] = [["log", ["v", p + ".a"]]] + body_stmts(p) + [["if", ["eq0", ["v", p + ".a"]], base, [go1]]]
        r = rng.random()
        go2 = [["ret"]] if r < 0.6 else [["tail", q2, args_for(q2, p)]]
        labels[p + ".l2"] = [["log", ["v", p + ".a"]]] + body_stmts(p) + [["if", ["eq0", ["v", p + ".a"]], [["ret"]], go2]]
        labels[p + ".l3"] = body_stmts(p) + [["ret"]]
    p0 = rng.choice(names)
    labels["A.l1"] = [["call", p0, "A.l2", args_for(p0, None)]]
    second = rng.random() < 0.4
    labels["A.l2"] = [["log", ["v", "A.x"]]] + ([["call", rng.choice(names), "A.l3", args_for(rng.choice(names), None)]] if second else [["goto", "A.l3"]])
    labels["A.l3"] = [["log", ["v", "A.y"]], ["done"]]
    if second:
        # the second call's callee must match its argument list
        q = rng.choice(names)
        labels["A.l2"] = [["log", ["v", "A.x"]], ["call", q, "A.l3", args_for(q, None)]]
    if malformed:
        r = rng.random()
        if r < 0.3:
            labels["A.l1"] = [["ret"]]
        elif r < 0.5:
            labels["A.l1"] = [["goto", "A.nowhere"]]
        elif r < 0.7:
            labels["A.l1"] = [["call", "Nope", "A.l2", []]]
        elif r < 0.85:
            labels["A.l1"] = [["tail", p0, args_for(p0, None)]]
    watch = ["A.x", "A.y"] + [v for p in procs for v in p["vars"]]
    ext = [{"name": "e", "kind": "local", "init": rng.choice([0, 40])}, {"name": "o", "kind": "outchan"},
           {"name": "i", "kind": "inchan", "items": [rng.choice([61, 62, "in"]) for _ in range(rng.choice([0, 3, 8, 16, 30]))]}]
    case = {"ext": ext, "procs": procs, "labels": labels, "entry": "A.l1", "locals": [["A.x", rng.choice([0, 5])], ["A.y", rng.choice([100, 0])]],
            "watch": watch, "aborts": sorted(set(rng.randint(0, 25) for _ in range(rng.randint(0, 4)))), "maxsteps": 140}
    return case


# ------------------------------------------------------------------------------------------ reference: activation records

class Crash(Exception):
    pass


class Refused(Exception):
    pass


class Ref:
    """every activation owns its parameters and locals; callers' records are untouched; references name archetype locals"""

    def __init__(self, case):
        self.case = case
        self.procs = {p["name"]: p for p in case["procs"]}
        self.glob = {l[0]: l[1] for l in case["locals"]}
        self.extkind = {"&A." + e["name"]: ("inchan" if e["kind"] == "inchan" else e["kind"]) for e in case.get("ext", [])}
        self.ext = {"&A." + e["name"]: _c01.init_obj(e) for e in case.get("ext", [])}
        for e in case.get("ext", []):
            self.glob["A." + e["name"]] = "&A." + e["name"]      # the pointer variable EnsureArchetypeRefParam creates
        self.acts = []            # [{"proc", "vars", "ret"}]
        self.pc = case["entry"]
        self.log = []
        self.stats = {"maxdepth": 0, "recursive": 0, "tail": 0, "calls": 0, "nonlocal_ref_reads": 0, "nonlocal_ref_writes": 0, "nonlocal_ref_refusals": 0}

    def lookup(self, name):
        if name in self.glob:
            return self.glob, name
        for a in reversed(self.acts):
            if name in a["vars"]:
                return a["vars"], name
        raise Crash()

    def ev(self, e):
        if e[0] == "c":
            return e[1]
        if e[0] == "v":
            d, n = self.lookup(e[1]); return d[n]
        if e[0] == "add":
            v = self.ev(e[1])
            if isinstance(v, bool) or not isinstance(v, int):
                raise Crash()
            return v + e[2]
        if e[0] == "deref":
            d, n = self.lookup(e[1])
            t = d[n]
            if not isinstance(t, str):
                raise Crash()
            if t in self.ext:
                try:
                    self.stats["nonlocal_ref_reads"] += 1
                    return _c01.obj_step(self.extkind[t], self.ext[t], "r", [], None)
                except _c01.Crash:
                    raise Crash()
                except _c01.Block:
                    self.stats["nonlocal_ref_refusals"] += 1
                    raise Refused()
            d2, n2 = self.lookup(t); return d2[n2]
        raise ValueError(e)

    def call(self, pname, ret, args):
        if pname not in self.procs:
            raise Crash()
        p = self.procs[pname]
        if len(args) > len(p["vars"]):
            raise Crash()
        vs = {v: None for v in p["vars"]}
        for v, a in zip(p["vars"], args):
            vs[v] = a
        if p["label"] not in self.case["labels"]:
            raise Crash()
        if any(a["proc"] == pname for a in self.acts):
            self.stats["recursive"] += 1
        self.acts.append({"proc": pname, "vars": vs, "ret": ret})
        for v, x in p["pre"]:                    # initialisers see the new activation's parameters
            vs[v] = self.ev(x) if isinstance(x, list) else x
        self.stats["calls"] += 1
        self.stats["maxdepth"] = max(self.stats["maxdepth"], len(self.acts))
        self.pc = p["label"]

    def exec(self, stmts):
        """returns 'term' | 'done' | 'cont'"""
        for s in stmts:
            k = s[0]
            if k == "set":
                v = self.ev(s[2]); d, n = self.lookup(s[1]); d[n] = v
            elif k == "setref":
                v = self.ev(s[2]); d, n = self.lookup(s[1]); t = d[n]
                if not isinstance(t, str):
                    raise Crash()
                if t in self.ext:
                    try:
                        self.stats["nonlocal_ref_writes"] += 1
                        _c01.obj_step(self.extkind[t], self.ext[t], "w", [], v)
                    except _c01.Crash:
                        raise Crash()
                    except _c01.Block:
                        raise Refused()
                    continue
                d2, n2 = self.lookup(t); d2[n2] = v
            elif k == "log":
                self.log.append(self.ev(s[1]))
            elif k == "if":
                c = s[1]
                b = True if c[0] == "true" else (lambda v: (not isinstance(v, bool)) and v == 0)(self.ev(c[1]))
                r = self.exec(s[2] if b else s[3])
                if r != "cont":
                    return r
            elif k == "call":
                args = [self.ev(a) for a in s[3]]
                self.call(s[1], s[2], args); return "term"
            elif k == "tail":
                args = [self.ev(a) for a in s[2]]
                if not self.acts:
                    raise Crash()
                ret = self.acts.pop()["ret"]
                self.stats["tail"] += 1
                self.call(s[1], ret, args); return "term"
            elif k == "ret":
                if not self.acts:
                    raise Crash()
                self.pc = self.acts.pop()["ret"]; return "term"
            elif k == "goto":
                if s[1] not in self.case["labels"]:
                    raise Crash()
                self.pc = s[1]; return "term"
            elif k == "done":
                return "done"
        return "cont"

    def run(self):
        """yields per attempt (outcome, pc, depth, current values of live procedures' variables)"""
        out = []
        aborts = set(self.case["aborts"])
        for i in range(self.case["maxsteps"]):
            saved = (copy.deepcopy(self.glob), copy.deepcopy(self.acts), self.pc, list(self.log), copy.deepcopy(self.ext))
            try:
                if self.pc not in self.case["labels"]:
                    raise Crash()
                r = self.exec(self.case["labels"][self.pc])
            except Refused:
                r = "refused"
            except Crash:
                self.log = saved[3]           # what a dying attempt logged is not compared
                out.append((2, None, None, None, None)); return out, False
            if r == "done":
                return out, False
            if r == "cont":
                self.log = saved[3]
                out.append((2, None, None, None, None)); return out, False
            if i in aborts or r == "refused":
                self.glob, self.acts, self.pc, self.log, self.ext = saved
                o = 1
            else:
                o = 0
            live = {}
            for a in self.acts:
                live.update(a["vars"])         # innermost activation of a procedure wins
            out.append((o, self.pc, len(self.acts), dict(self.glob, **live),
                        [canon(_c01.obj_snap(self.extkind["&A." + e["name"]], self.ext["&A." + e["name"]], [])) for e in self.case.get("ext", [])]))
        return out, True


# ------------------------------------------------------------------------------------------ Coq encoding

def coq_expr(e):
    if e[0] == "c":
        return "(XC %s)" % coq_val(canon(e[1]))
    if e[0] == "v":
        return "(XV %s)" % vlib.coq_str(e[1])
    if e[0] == "add":
        return "(XAdd %s %s)" % (coq_expr(e[1]), vlib.coq_Z(e[2]))
    if e[0] == "deref":
        return "(XDeref %s)" % vlib.coq_str(e[1])
    raise ValueError(e)


def coq_stmt(s):
    k = s[0]
    if k == "set":
        return "TSet %s %s" % (vlib.coq_str(s[1]), coq_expr(s[2]))
    if k == "setref":
        return "TSetRef %s %s" % (vlib.coq_str(s[1]), coq_expr(s[2]))
    if k == "log":
        return "TLog %s" % coq_expr(s[1])
    if k == "if":
        c = "KTrue" if s[1][0] == "true" else "(KEq0 %s)" % coq_expr(s[1][1])
        return "TIf %s %s %s" % (c, vlib.coq_list([coq_stmt(x) for x in s[2]]), vlib.coq_list([coq_stmt(x) for x in s[3]]))
    if k == "call":
        return "TCall %s %s %s" % (vlib.coq_str(s[1]), vlib.coq_str(s[2]), vlib.coq_list([coq_expr(a) for a in s[3]]))
    if k == "tail":
        return "TTail %s %s" % (vlib.coq_str(s[1]), vlib.coq_list([coq_expr(a) for a in s[2]]))
    if k == "ret":
        return "TRet"
    if k == "goto":
        return "TGoto %s" % vlib.coq_str(s[1])
    if k == "done":
        return "TDone"
    raise ValueError(s)


def coq_pexp(x):
    if isinstance(x, list):
        if x[0] == "v":
            return "PRead %s" % vlib.coq_str(x[1])
        if x[0] == "add" and x[1][0] == "v":
            return "PAdd %s %s" % (vlib.coq_str(x[1][1]), vlib.coq_Z(x[2]))
        if x[0] == "c":
            return "PC %s" % coq_val(canon(x[1]))
        raise ValueError(x)
    return "PC %s" % coq_val(canon(x))


def to_coq(case, res):
    procs = ["(%s, mkProc %s %s %s)" % (vlib.coq_str(p["name"]), vlib.coq_str(p["label"]), vlib.coq_list([vlib.coq_str(v) for v in p["vars"]]),
                                       vlib.coq_list(["(%s, %s)" % (vlib.coq_str(w[0]), coq_pexp(w[1])) for w in p["pre"]])) for p in case["procs"]]
    lnames = sorted(case["labels"])
    table = "mkTable %s %s" % (vlib.coq_list(procs), vlib.coq_list([vlib.coq_str(l) for l in lnames]))
    labels = vlib.coq_list(["(%s, %s)" % (vlib.coq_str(l), vlib.coq_list([coq_stmt(s) for s in case["labels"][l]])) for l in lnames])
    script = "mkScript (%s) %s %s %s %s %s %s %s %s" % (
        table, labels, vlib.coq_str(case["entry"]),
        vlib.coq_list(["(%s, %s)" % (vlib.coq_str(l[0]), coq_val(canon(l[1]))) for l in case["locals"]] +
                      ["(%s, VS %s)" % (vlib.coq_str("A." + e["name"]), vlib.coq_str("&A." + e["name"])) for e in case.get("ext", [])]),
        vlib.coq_list([vlib.coq_str(w) for w in case["watch"]]),
        vlib.coq_list([vlib.coq_nat(a) for a in case["aborts"]]), vlib.coq_nat(case["maxsteps"]),
        vlib.coq_list(["(%s, %s)" % (vlib.coq_str("&A." + e["name"]), _c01.coq_node(e)) for e in case.get("ext", [])]),
        vlib.coq_list(["(%s, [])" % vlib.coq_str("&A." + e["name"]) for e in case.get("ext", [])]))
    obs = []
    for a in res.get("attempts") or []:
        vals = [coq_val(canon(a.get("pc"))), coq_val(canon(a.get("stack")))] + [coq_val(canon(T(*v))) for v in (a.get("vars") or [])] + \
               [coq_val(canon(x)) for x in (a.get("ext") or [])]
        obs.append("(%s, %s)" % (vlib.coq_Z(a["out"]), vlib.coq_list(vals)))
    lg = vlib.coq_list([coq_val(canon(x)) for x in res.get("log") or []])
    return "(%s,\n  (%s, %s))" % (script, vlib.coq_list(obs), lg)


# ------------------------------------------------------------------------------------------ oracle

def call_class(stats):
    return "recursion" if stats["recursive"] else "tailcall" if stats["tail"] else "nested" if stats["maxdepth"] >= 2 else "plain"


def oracle(case, res):
    fails = []
    ref = Ref(case)
    exp, budget = ref.run()
    cls = call_class(ref.stats)
    got = res.get("attempts") or []
    if res.get("err") and res["err"] not in ("budget",):
        return [("harness-error:" + res["err"][:40], "harness reported " + res["err"])], ref.stats
    n = min(len(exp), len(got))
    for i in range(n):
        eo, epc, edepth, evars, eext = exp[i]
        g = got[i]
        if g["out"] != eo:
            fails.append(("outcome-%d-instead-of-%d:%s" % (g["out"], eo, cls), "attempt %d: expected outcome %d, implementation did %d (%s)" % (i, eo, g["out"], g.get("err", ""))))
            return fails, ref.stats
        if eo == 2:
            break
        if g["pc"] != epc:
            fails.append(("resumes-at-wrong-label:" + cls, "attempt %d: control is at %s, the program is at %s" % (i, g["pc"], epc)))
            return fails, ref.stats
        depth = len(g["stack"]["t"]) if isinstance(g["stack"], dict) else -1
        if depth != edepth:
            fails.append(("stack-depth:" + cls, "attempt %d: stack has %d frames, %d activations are live" % (i, depth, edepth)))
            return fails, ref.stats
        if canon(T(*(g.get("ext") or [])))["t"] != (eext or []):
            fails.append(("nonlocal-resource-through-reference:" + cls, "attempt %d: non-local resources are %s, expected %s" % (i, json.dumps(g.get("ext")), json.dumps(eext))))
            return fails, ref.stats
        for w, v in zip(case["watch"], g["vars"]):
            if w in evars and (not v or canon(v[0]) != canon(evars[w])):
                fails.append(("activation-sees-wrong-value:" + cls, "attempt %d: %s is %s, its activation's value is %s" % (i, w, json.dumps(v), json.dumps(evars[w]))))
                return fails, ref.stats
    if len(got) != len(exp):
        fails.append(("attempt-count:" + cls, "implementation ran %d attempts, the program has %d" % (len(got), len(exp))))
        return fails, ref.stats
    if canon(T(*(res.get("log") or []))) != canon(T(*ref.log)):
        fails.append(("activation-sees-wrong-value:" + cls, "values seen by the activations: %s, expected %s" % (json.dumps(res.get("log")), json.dumps(ref.log))))
    return fails, ref.stats


def corpus():
    out = []
    d = os.path.join(vlib.VERIF, "corpus", "C04")
    if os.path.isdir(d):
        for f in sorted(os.listdir(d)):
            if f.endswith(".json"):
                c = json.load(open(os.path.join(d, f)))
                out.append(c.get("case", c))
    return out


def run(ctx):
    rng = ctx.rng
    n = 250 if ctx.tier == "quick" else 5000
    if ctx.replay:
        cases = [json.load(open(ctx.replay))["case"]]
    else:
        cases = corpus()
        for i in range(n):
            cases.append(gen_case(rng, malformed=(rng.random() < 0.1)))
    for i, c in enumerate(cases):
        c["id"] = i
    rc, res, err = vlib.run_jsonl("c04", [{k: v for k, v in c.items() if not k.startswith("_")} for c in cases], timeout=1500)
    byid = {r["id"]: r for r in res}
    if len(byid) != len(cases):
        ctx.breaks.append({"what": "harness c04 failed (rc=%d, %d/%d results)" % (rc, len(byid), len(cases)), "detail": err[-2000:]})
        return
    dist = {"plain": 0, "nested": 0, "recursion": 0, "tailcall": 0}
    tot = {"calls": 0, "tail": 0, "recursive": 0, "maxdepth": 0, "aborted_attempts": 0, "crashes": 0,
           "nonlocal_ref_reads": 0, "nonlocal_ref_writes": 0, "nonlocal_ref_refusals": 0}
    for c in cases:
        r = byid[c["id"]]
        c["_res"] = r
        fails, stats = oracle(c, r)
        dist[call_class(stats)] += 1
        for k in ("calls", "tail", "recursive", "nonlocal_ref_reads", "nonlocal_ref_writes", "nonlocal_ref_refusals"):
            tot[k] += stats[k]
        tot["maxdepth"] = max(tot["maxdepth"], stats["maxdepth"])
        tot["aborted_attempts"] += sum(1 for a in (r.get("attempts") or []) if a["out"] == 1)
        tot["crashes"] += sum(1 for a in (r.get("attempts") or []) if a["out"] == 2)
        ctx.add_case(json.dumps({k: v for k, v in c.items() if not k.startswith("_") and k != "id"}, sort_keys=True),
                     stats["maxdepth"] >= 2 or stats["recursive"] > 0 or stats["tail"] > 0)
        for sig, what in fails:
            ctx.failures.append({"signature": sig, "what": what, "case": {k: v for k, v in c.items() if not k.startswith("_")}, "obs": r})
    ctx.extra["input_distribution"] = {"call_graph_class": dist, "totals": tot}
    ctx.samples = [{"labels": c["labels"], "procs": c["procs"], "go_log": c["_res"].get("log"), "go_attempts": (c["_res"].get("attempts") or [])[:3]} for c in cases[:3]]
    if ctx.coq_ok:
        from concurrent.futures import ThreadPoolExecutor
        has_expr_pre = lambda c: any(isinstance(w[1], list) for p in c["procs"] for w in p["pre"])
        ok_cases = [c for c in cases if not (c["_res"].get("err") and c["_res"]["err"] != "budget")]
        ctx.extra["scripts_with_parameter_dependent_initialisers"] = sum(1 for c in cases if has_expr_pre(c))
        shard = 90 if ctx.tier == "quick" else 300
        parts = [ok_cases[s:s + shard] for s in range(0, len(ok_cases), shard)]

        def eval_part(ip):
            i, part = ip
            body = ("From PGV Require Import C04.Model.\nOpen Scope string_scope.\n"
                    "Definition cases : list (script * (list (Z * list val) * list val)) :=\n [" +
                    ";\n ".join(to_coq(c, c["_res"]) for c in part) + "].\n"
                    "Definition M := Eval vm_compute in mismatches4 0 cases.\nPrint M.\n")
            return vlib.coq_eval("C04_cases_%d_%d" % (os.getpid(), i), body)

        with ThreadPoolExecutor(max_workers=3) as ex:
            outs = list(ex.map(eval_part, enumerate(parts)))
        for part, (rc, out, err) in zip(parts, outs):
            mm = vlib.parse_nat_list(out, "M") if rc == 0 else None
            if mm is None:
                ctx.breaks.append({"what": "correspondence evaluation C04_cases did not compile", "detail": (out + err)[-3000:]})
                break
            for k in mm[:3]:                 # show the model's answer for the first few only
                c = part[k]
                rc2, out2, _ = vlib.coq_eval("C04_one_%d" % os.getpid(), "From PGV Require Import C04.Model.\nOpen Scope string_scope.\n"
                                             "Definition c := %s.\nEval vm_compute in run_script (fst c).\n" % to_coq(c, c["_res"]))
                ctx.breaks.append({"what": "correspondence C04/Model.v vs distsys differs on a case",
                                   "case": {k2: v for k2, v in c.items() if not k2.startswith("_")},
                                   "impl": c["_res"], "model": out2.strip()[-3000:]})
    if ctx.replay:
        print("replay: implementation did", json.dumps(cases[0]["_res"])[:3000])
        print("replay: oracle", oracle(cases[0], cases[0]["_res"])[0], "correspondence breaks", len(ctx.breaks))


MANIFEST = {
    "category": "proof",
    "technique": "Coq proof (refinement of Call/Return/TailCall to the PlusCal stack machine, induction over the bracket structure of call traces) "
                 "+ differential correspondence model vs real MPCalContexts over hand-built procedure tables",
    "text": ("Theorems in coq/Properties/C04.v, closed under the global context: call_refines, return_refines, tailcall_refines (the runtime's Call/Return/TailCall on any store, table and "
             "argument list take exactly the specification's step), run_refines (any event list), call_defined / return_defined / tailcall_defined with live_preserved_* (conversely, where the specification step is defined the runtime does not panic), activation_isolation (any well-bracketed trace with recursion, mutual recursion, tail calls "
             "and writes through references: after the matching return every variable outside the reference set has its pre-call value, .pc is the return label, .stack the pre-call stack), "
             "abort_between (any events inside a section: abort restores every variable and the stack); by-reference parameters bound to non-local resources (archetype ref parameters with mapping macros): mapped_ref_access_is_a_resource_operation, calls_leave_nonlocal_resources_alone, activation_isolation_mapped_refs, abort_between_mapped_refs (C01's family of resources as the non-local part of the state). Two defects repaired in /repo (recursion, tail call)."),
    "level_note": ("Trusted: Coq kernel; the hand-written model (tie = differential execution of generated call graphs incl. aborts and malformed programs: 250 quick / 5000 thorough scripts); "
                   "the Scala code generator is absent offline, so tables are hand-built following ProcedureSpaghetti.go."),
}
