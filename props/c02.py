"""C02 — generated Go takes exactly the steps its MPCal/PlusCal spec prescribes (DESIGN §4 C02).

Tie A: both models are regenerated from /repo's current sources on every run (tools/go2coq,
tools/tla2coq); one Coq theorem per label is re-checked (coq/Gen/<sys>_equiv.v)."""
import json, os
import vlib
import c02_gen as G

ID = "C02"
THEOREMS = "Properties/C02.v"
HARNESS = ["c02", "c02s", "c16"]
LEVEL = "proof"
READY = True
TRUSTED_BASE = [
    "Coq 8.16.1 kernel (coqc, full .vo); vm_compute in every per-label obligation",
    "no axioms: Print Assumptions = 'Closed under the global context' for the theorems of Properties/C02.v and for every per-label theorem of coq/Gen/<sys>_equiv.v",
    "SANY (tla2sany.xml.XMLExporter of tla2tools.jar) and, for the *.gotests pairs, the stock pcal translator",
    "tools/tla2coq (Python, walks SANY's semantic tree) and tools/go2coq (Go, go/parser + go/ast): syntax-directed, trusted to be faithful",
    "coq/C02/Lang.v eval (TLA+ value universe and operators) and coq/C02/Sem.v symex_go / symex_tla: the semantics of each side is DEFINED as run o symex (dtree_sound_* not proved)",
    "coq/C02/Bind_<sys>.v: hand transcriptions of the mapping macros and of the instance bindings",
]
ASSUMPTIONS = [
    "state relation built into the symbolic executions: Go archetype-local 'A.v' = v[self], Go pc = pc[self], ref parameters = the spec variable named in the instance declaration, accessed through the instance's mapping macro",
    "per-process TLA+ variables are functions with self in their domain (type invariant of every pcal translation)",
    "evaluation errors of temporaries that are never used are not modelled (Go evaluates eagerly, LET is lazy)",
]
RULE = ("one case = one (system, process, label); evaluations = labels re-checked this run; non-trivial = a label whose "
        "decision tree has at least one commit leaf and is not a Done/Error label; distinct by (label id, hash of Go body + TLA action)")


def baseline():
    p = os.path.join(vlib.COQ, "C02", "baseline_labels.txt")
    if not os.path.exists(p):
        return set()
    return {l.strip() for l in open(p) if l.strip() and not l.startswith("#")}


def rnd_lists(rng, n, steps):
    return [[rng.randrange(1000) for _ in range(8 + 7 * steps)] for _ in range(n)]


def corpus_walks(name):
    out = []
    d = os.path.join(vlib.VERIF, "corpus", "C02")
    if os.path.isdir(d):
        for f in sorted(os.listdir(d)):
            if f.endswith(".json"):
                c = json.load(open(os.path.join(d, f)))
                if c.get("system") == name and "rnd" in c:      # stored walks (scenario_*.json files are seeds, see c02_gen)
                    out.append(c)
    return out


def search(ctx, info, sysd, broken, log, n, steps):
    """differential execution of the two regenerated models on the corpus walks and on random walks; a
    distinguishing (state, choices) of a label is reported as a failure with the walk as replay"""
    focus = [".".join(b.split(".")[1:]) for b in sorted(broken)]       # "process.label"
    mm, cover, err = [], {}, None
    found = set()
    if broken:
        # 1. reachable states of the seed corpus standing at a broken label (and their one-step successors), every small choice vector
        nsc, m2, note = G.scan_seeds(info, focus, log)
        cover["#seed_states_scanned"] = nsc
        if note:
            ctx.notes.append(note)
        mm += m2
        found = {"%s.%s" % (m.get("process"), m.get("label")) for m in m2}
    groups = {}
    for c in corpus_walks(sysd["name"]):       # stored walks, each with the step bound / focus it was found with
        groups.setdefault((c["steps"], tuple(c.get("focus", []))), []).append(c["rnd"])
    if not broken or set(focus) - found:
        # 2. differential random walks (biased to the broken labels that have no witness yet)
        groups.setdefault((steps, tuple(sorted(set(focus) - found))), []).extend(rnd_lists(ctx.rng, n, steps))
    for (st_, fo_), rnds in groups.items():
        m1, c1, e1 = G.run_walks(info, rnds, st_, log, list(fo_))
        mm += m1
        for k, v in c1.items():
            cover[k] = cover.get(k, 0) + v
        err = err or e1
    if err:
        ctx.notes.append("differential walk of %s: %s" % (sysd["name"], err[:300]))
    seen = set()
    for m in mm:
        lid = "%s.%s.%s" % (sysd["name"], m.get("process"), m.get("label"))
        if lid in seen:
            continue
        seen.add(lid)
        real = {"status": "not run (the step harness harness/cmd/c02 exists for locksvc only)"}
        if sysd["name"] == "locksvc":
            real = G.confirm_on_real_go_locksvc(info, m, log)
        ctx.failures.append({
            "signature": "step-differs:" + lid,
            "what": "the generated Go of %s takes a different step than the TLA+ action from a reachable state%s" % (
                lid, " (its obligation no longer checks)" if lid in broken else ""),
            "case": {"system": sysd["name"], "go": sysd["go"], "tla": sysd["tla"], "rnd": m["rnd"], "steps": m["steps"], "focus": m.get("focus", []),
                     "process": m.get("process"), "label": m.get("label"), "self": m.get("self"), "schedule": m.get("sched"),
                     "seed": m.get("seed"), "init_rnd": m.get("init_rnd"), "cset": m.get("cset"),
                     "choices": m.get("choices"), "pre_state": m.get("state")},
            "obs": {"go_model": m.get("go"), "real_go": real},
            "exp": {"tla_model": m.get("tla")}})
    return cover, err


def run(ctx):
    ok, out = G.build_tools()
    if not ok:
        ctx.breaks.append({"what": "tools/go2coq does not build", "detail": out[-2000:]})
        return
    base = baseline()
    log = []
    per_system = {}
    n_oblig = n_proved = 0
    seen = set()
    proved_set = set()
    systems = G.SYSTEMS
    only = os.environ.get("VERIF_C02_ONLY")          # development aid (mutation testing of one system); never set by ./check
    if only:
        systems = [s for s in G.SYSTEMS if s["name"] in only.split(",")]
        base = {b for b in base if b.split(".")[0] in only.split(",")}
    if ctx.replay:
        rp = json.load(open(ctx.replay))
        case = rp.get("case") or {}
        systems = [s for s in G.SYSTEMS if s["name"] == case.get("system")] or G.SYSTEMS
    err = G.build_base([s["name"] for s in systems], log)
    if err:
        ctx.breaks.append({"what": "C02: " + err[:200], "detail": err})
        return
    if ctx.tier == "thorough" and not ctx.replay:
        G.force_recheck()     # every generated file is recompiled: all per-label theorems re-checked by the kernel
    # regenerate + re-check the systems concurrently (bounded: 4 coqc at a time)
    from concurrent.futures import ThreadPoolExecutor
    def one(sysd):
        info = G.gen_system(sysd)
        if not info["errors"]:
            G.check_system(info, log)
        return info
    with ThreadPoolExecutor(max_workers=4) as ex:
        infos = list(ex.map(one, systems))
    for sysd, info in zip(systems, infos):
        st = {"labels_total": len(info["labels"]), "proved_by_equiv_check": 0, "differential_only": [],
              "not_translated": [], "errors": info["errors"][:5]}
        for e in info["errors"]:
            ctx.breaks.append({"what": "C02 %s: %s" % (sysd["name"], e[:300]), "detail": e})
        broken = set()
        for l in info["labels"]:
            n_oblig += 1
            seen.add(l["id"])
            ctx.add_case("%s %s" % (l["id"], l.get("hash")), l.get("proved", False) or l["id"] in base)
            if l.get("proved"):
                n_proved += 1
                proved_set.add(l["id"])
                st["proved_by_equiv_check"] += 1
            else:
                why = (l.get("why") or "")
                outside = "outside the grammar" in why or "error" in l or "g" not in l
                (st["not_translated"] if outside else st["differential_only"]).append({"label": l["id"], "why": why[:400]})
                if l["id"] in base:
                    broken.add(l["id"])
                    ctx.breaks.append({"what": "per-label obligation %s (theorem %s) no longer checks" % (l["id"], l["thm"]),
                                       "detail": why, "case": {"label": l["id"], "go": sysd["go"], "tla": sysd["tla"]}})
        walkable = not info["errors"] and any("g" in l for l in info["labels"])
        if ctx.replay and walkable and case.get("seed") is not None and not case.get("rnd"):
            mm, note = G.replay_seed_case(info, case, log)
            print("replay: state recomputed from Init by the stored schedule of %d committed attempts (TLA+ model)%s" % (
                len(case.get("schedule") or []), "; " + note if note else ""))
            print("replay:", json.dumps(mm if mm else {"result": "the two models agree on the recomputed state"}, indent=1)[:8000])
            for m in mm:
                ctx.failures.append({"signature": "step-differs:%s.%s.%s" % (sysd["name"], m.get("process"), m.get("label")),
                                     "what": "replayed seed state still distinguishes the two models", "case": case, "obs": m.get("go"), "exp": m.get("tla")})
        elif ctx.replay and walkable and case.get("rnd"):
            mm, cover, err = G.run_walks(info, [case["rnd"]], case.get("steps", 100), log, case.get("focus", []))
            shown = [{k: v for k, v in m.items() if k not in ("rnd", "sched")} for m in mm]
            print("replay:", json.dumps(shown if shown else {"result": "no difference on this walk", "error": err}, indent=1)[:8000])
            for m in mm:
                ctx.failures.append({"signature": "step-differs:%s.%s.%s" % (sysd["name"], m.get("process"), m.get("label")),
                                     "what": "replayed walk still distinguishes the two models", "case": case, "obs": m.get("go"), "exp": m.get("tla")})
        elif walkable and (broken or st["differential_only"] or corpus_walks(sysd["name"]) or ctx.tier == "thorough"):
            heavy = sysd["name"] in ("raftkvs", "pbkvs", "bug_167", "replicatedkv", "PBFail4_bug125", "proxy")
            n, steps = ((30, 300) if broken else (8, 120)) if ctx.tier == "quick" else ((16, 200) if heavy else (40, 250))
            cover, err = search(ctx, info, sysd, broken, log, n, steps)
            st["differential_walk"] = {"walks": n, "max_steps": steps, "committed_steps_per_label": cover, "error": err}
        if sysd["name"] == "locksvc" and walkable and not ctx.replay:
            # tie A validated by B: the regenerated Go model must predict what the REAL generated archetypes do, attempt by attempt
            ncase, nstep = (12, 40) if ctx.tier == "quick" else (60, 50)
            cases = [{"id": i, "steps": [{"p": ctx.rng.randrange(0, 4), "ks": [ctx.rng.randrange(0, 6) for _ in range(2)]}
                                         for _ in range(nstep)]} for i in range(ncase)]
            ncmp, mm, err = G.real_go_locksvc(info, cases, log)
            st["real_go_validation"] = {"schedules": ncase, "attempts_compared": ncmp, "mismatches": len(mm), "error": err}
            if err:
                ctx.breaks.append({"what": "C02 locksvc: validation against the real generated Go did not run: " + err[:200], "detail": err})
            for m in mm[:3]:
                ctx.breaks.append({"what": "C02 locksvc: the regenerated Go model of %s.%s does not predict what the real generated Go did" % (m.get("process"), m.get("label")),
                                   "case": m, "impl": m.get("real"), "model": m.get("gomodel")})
            for i in range(ncmp):
                ctx.add_case("real-go locksvc %d %d" % (ctx.seed, i), False)
        per_system[sysd["name"]] = st
    # tie A validated by B on further systems: real generated archetypes driven through harness/steplib
    if not ctx.replay:
        plan = [("dqueue", 0, 3, 40), ("pbkvs", 0, 2, 40), ("pbkvs", 1, 2, 40), ("raftkvs", 1, 2, 60),
                ("proxy", 0, 2, 40), ("replicatedkv", 0, 2, 40)] if ctx.tier == "quick" else \
               [("dqueue", 0, 12, 60), ("pbkvs", 0, 8, 80), ("pbkvs", 1, 8, 80), ("raftkvs", 0, 8, 80), ("raftkvs", 1, 8, 100),
                ("proxy", 0, 10, 80), ("replicatedkv", 0, 10, 80), ("shcounter", 0, 6, 30), ("loadbalancer", 0, 8, 60)]
        seeds_ = [ctx.rng.randrange(1 << 30) for _ in plan]
        import random as _random
        def real_one(job):
            (nm, cs, ns, nst), sd = job
            if only and nm not in only.split(","):
                return nm, cs, None
            inf = [i for s_, i in zip(systems, infos) if s_["name"] == nm]
            sd_ = [s_ for s_ in systems if s_["name"] == nm]
            if not inf or inf[0]["errors"]:
                return nm, cs, None
            return nm, cs, G.real_go_steplib(inf[0], sd_[0], cs, ns, nst, _random.Random(sd), log)
        with ThreadPoolExecutor(max_workers=4) as ex:
            outs = list(ex.map(real_one, zip(plan, seeds_)))
        for nm, cs, r in outs:
            if r is None:
                continue
            ncmp, ncommit, mm, err = r
            per_system[nm].setdefault("real_go_validation", []).append(
                {"constant_set": cs, "attempts_compared": ncmp, "committed": ncommit, "mismatches": len(mm), "error": err})
            if err:
                ctx.breaks.append({"what": "C02 %s: validation against the real generated Go did not run: %s" % (nm, err[:200]), "detail": err})
            for m in mm[:2]:
                ctx.breaks.append({"what": "C02 %s: the regenerated Go model of %s.%s does not predict what the real generated Go did" % (nm, m.get("process"), m.get("label")),
                                   "case": m, "impl": m.get("real"), "model": m.get("gomodel")})
            for i in range(ncmp):
                ctx.add_case("real-go %s %d %d %d" % (nm, cs, ctx.seed, i), False)
    # second Go-side safety net: the corpus schedules of C08/C14/C16 on the real archetypes; on every observed pre-state the
    # regenerated Go model must predict the attempt AND run o symex_go must agree with the direct interpreter
    if not ctx.replay:
        import c02_corpus as CC
        conly = ("proxy", "replicatedkv", "loadbalancer") if ctx.tier == "quick" else None
        if only:
            conly = tuple(x for x in (conly or [s_["name"] for s_ in systems]) if x in only.split(","))
        try:
            ctot, cbreaks = CC.run(systems, infos, log, only=conly)
        except Exception as ex:      # files and helpers of other properties: never an error of C02
            ctot, cbreaks = {"error": "corpus schedules not usable: %r" % (ex,)}, []
            ctx.notes.append("corpus schedules of C08/C14/C16: %r" % (ex,))
        ctx.extra["corpus_schedules_real_go_and_direct"] = ctot
        ctx.breaks.extend(cbreaks)
        for i in range(ctot.get("attempts", 0) + ctot.get("direct_agree", 0)):
            ctx.add_case("corpus-sched %d %d" % (ctx.seed, i), False)
    # run o symex_go against the direct environment-passing interpreter of coq/C02/Direct.v (dtree_sound_go is validated, not proved)
    if not ctx.replay:
        cand = [(s_, i) for s_, i in zip(systems, infos) if not i["errors"] and any("godef" in l for l in i["labels"])]
        if ctx.tier == "quick" and len(cand) > 5:
            cand = ctx.rng.sample(cand, 5)
        nw, nst = (3, 80) if ctx.tier == "quick" else (10, 150)
        jobs = [(s_, i, rnd_lists(ctx.rng, nw, nst)) for s_, i in cand]
        def direct_one(job):
            s_, i, rnds = job
            return s_["name"], G.direct_walks(i, s_, [r[:8 + 6 * nst] for r in rnds], nst, log)
        with ThreadPoolExecutor(max_workers=4) as ex:
            douts = list(ex.map(direct_one, jobs))
        tot = {"agree": 0, "agree_up_to_eager_error": 0, "disagree": 0, "systems": []}
        for nm, (ag, lz, bad, err) in douts:
            tot["agree"] += ag
            tot["agree_up_to_eager_error"] += lz
            tot["disagree"] += len(bad)
            tot["systems"].append(nm)
            if err:
                ctx.notes.append("direct-interpreter comparison of %s: %s" % (nm, err[:200]))
            for d in bad[:1]:
                ctx.breaks.append({"what": "C02 %s: run o symex_go and the direct interpreter disagree on %s.%s" % (nm, d.get("process"), d.get("label")),
                                   "case": d, "impl": d.get("direct"), "model": d.get("symbolic")})
        ctx.extra["symbolic_vs_direct_interpreter"] = tot
    # the TLA+-side translator (tools/tla2coq + Lang.v eval + symex_tla) against TLC on the shipped specs
    if not ctx.replay:
        import c02_tlc as T
        import random as _random2
        if ctx.tier == "quick":
            tplan = [(n, {}) for n in ("shcounter", "gcounter", "loadbalancer")]
        else:
            tplan = [(n, {}) for n in T.TLC_SYSTEMS]
        tseeds = [ctx.rng.randrange(1 << 30) for _ in tplan]
        def tlc_one(job):
            (nm, _), sd = job
            if only and nm not in only.split(","):
                return nm, None
            inf = [i for s_, i in zip(systems, infos) if s_["name"] == nm]
            sd_ = [s_ for s_ in systems if s_["name"] == nm]
            if not inf or inf[0]["errors"] or not any("g" in l for l in inf[0]["labels"]):
                return nm, None
            spec = T.TLC_SYSTEMS[nm]
            if spec["mode"] == "graph":
                return nm, T.check_graph(inf[0], sd_[0], spec, _random2.Random(sd), 600, log)
            heavy = nm == "raftkvs"
            return nm, T.check_sim(inf[0], sd_[0], spec, 8, 60, 1 + sd % 5, 300 if heavy else 600, log, n_expand=(16 if heavy else 30))
        with ThreadPoolExecutor(max_workers=(3 if ctx.tier == "quick" else 2)) as ex:
            touts = list(ex.map(tlc_one, zip(tplan, tseeds)))
        tot = {"systems": [], "states_checked": 0, "tlc_edges_checked": 0, "trace_steps_checked": 0, "states_expanded": 0, "disagreements": 0}
        for nm, r in touts:
            if r is None:
                continue
            diffs = r.pop("diffs", [])
            r["disagreements"] = len(diffs)
            per_system[nm]["tlc_validation"] = r
            tot["systems"].append(nm)
            tot["states_checked"] += r.get("states_checked", 0)
            tot["tlc_edges_checked"] += r.get("edges_checked", 0) + r.get("successors_compared", 0)
            tot["trace_steps_checked"] += r.get("steps_checked", 0)
            tot["states_expanded"] += r.get("states_expanded", 0)
            tot["disagreements"] += len(diffs)
            if r.get("error"):
                ctx.breaks.append({"what": "C02 %s: comparison of the regenerated TLA+ model with TLC did not run: %s" % (nm, r["error"][:200]), "detail": r["error"]})
            for d in diffs[:2]:
                ctx.breaks.append({"what": "C02 %s: the regenerated TLA+ model and TLC disagree on the successors of a state (%s)" % (
                                       nm, "model has a step TLC rejects" if "model_only" in d else "TLC has a step the model lacks" if "tlc_only" in d else "evaluation error in the model"),
                                   "case": {"system": nm, "where": d.get("head"), "counts_model_only/tlc_only/errors": d.get("counts")},
                                   "model": d.get("model_only") or d.get("model_error") or d.get("model_init"), "impl": d.get("tlc_only")})
            for i in range(r.get("states_checked", 0) + r.get("steps_checked", 0) + r.get("states_expanded", 0)):
                ctx.add_case("tlc %s %d %d" % (nm, ctx.seed, i), False)
        if ctx.tier == "thorough" and not only:
            # negative control: a model built with a wrong constant must be told apart from TLC
            nm = "shcounter"
            inf = [i for s_, i in zip(systems, infos) if s_["name"] == nm]
            if inf and not inf[0]["errors"]:
                bad = dict(T.TLC_SYSTEMS[nm]); bad["consts"] = [("NUM_NODES", "VNum (2)")]
                r = T.check_graph(inf[0], [s_ for s_ in systems if s_["name"] == nm][0], bad, _random2.Random(1), 600, log)
                tot["negative_control_detected"] = bool(r.get("diffs"))
                if not r.get("diffs"):
                    ctx.breaks.append({"what": "C02: the TLC comparison did not notice a model built with a wrong constant (the comparison is not discriminating)", "detail": json.dumps(r)[:800]})
        ctx.extra["tlc_validation"] = tot
    ctx.extra["excluded_pairs"] = [{"pair": e["go"], "reason": e["reason"]} for e in G.EXCLUDED]
    if ctx.tier == "thorough" and not ctx.replay:
        for e in G.EXCLUDED:
            if not G.check_excluded(e):
                ctx.breaks.append({"what": "C02: the excluded pair %s has become translatable; it must be added to the checked systems" % e["name"]})
    if not ctx.replay:
        for b in sorted(base - seen):
            ctx.breaks.append({"what": "baseline label %s no longer exists in the regenerated models" % b})
    th = len(vlib.theorem_names(THEOREMS))
    # obligations = the theorems of Properties/C02.v + the per-label theorems of the baseline that were (re)checked this run;
    # labels refuted on the pinned tree (known finding, with witnesses) are reported separately, not as open obligations
    base_checked = sorted(base & seen)
    proved_ids = {l for l in seen if l in proved_set}
    kf_sigs = {k["signature"] for k in vlib.known_findings(ID)[0]}
    neither = sorted(l for l in seen - proved_ids - base if ("step-differs:" + l) not in kf_sigs)
    if not only:
        for l in neither:
            ctx.breaks.append({"what": "label %s is neither discharged, nor in the baseline, nor a known finding: the property is not shown for it" % l})
    ctx.extra["obligations"] = th + len(base_checked) + len(neither)
    ctx.extra["discharged"] = (th if ctx.coq_ok else 0) + len([l for l in base_checked if l in proved_ids])
    ctx.extra["per_label_total"] = n_oblig
    ctx.extra["per_label_discharged"] = n_proved
    ctx.extra["labels_discharged_outside_baseline"] = sorted(proved_ids - base)
    ctx.extra["refuted_labels_known_finding"] = sorted(
        l for l in seen - proved_ids - base if ("step-differs:" + l) in {k["signature"] for k in vlib.known_findings(ID)[0]})
    ctx.extra["labels_neither_discharged_nor_known"] = sorted(
        l for l in seen - proved_ids - base if ("step-differs:" + l) not in {k["signature"] for k in vlib.known_findings(ID)[0]})
    ctx.extra["per_system"] = per_system
    ctx.extra["coq_log"] = log[-40:]
    ctx.samples = [{"label": l, "status": "obligation discharged" if l in base else "see per_system"} for l in sorted(seen)[:4]]


def setup():
    """./check --setup: cold regeneration and compilation of every system (about 4 minutes on 16 cores)"""
    ctx = vlib.Ctx(ID, "quick", 0)
    ctx.replay = None
    ctx.coq_ok = True
    run(ctx)


MANIFEST = {
    "category": "proof",
    "engine": "go2coq+tla2coq+coq+go-harness",
    "technique": "translation validation: both models regenerated from the sources on every run (tools/go2coq, tools/tla2coq), "
                 "one Coq theorem per label (normal-form equality by vm_compute through a checker proved sound once); search oracle = "
                 "seed corpus of reachable states + one-step lookahead + differential walks of the two models; the regenerated Go model "
                 "replayed against the real generated Go (locksvc, dqueue, pbkvs, raftkvs, proxy, replicatedkv) and against a direct interpreter on every run; "
                 "the regenerated TLA+ model compared with TLC's next-state relation on the shipped specs (successor sets of TLC's state graph / "
                 "simulation traces + one-step expansions; quick: 3 small systems, thorough: 16 systems)",
    "text": ("For each of the 17 shipped spec/Go pairs whose TLA+ translation SANY accepts (11 systems/*, 6 *.gotests), coq/Gen/<sys>_equiv.v is "
             "regenerated on every run and holds, per label, `forall fuel r ks, run Dgo fuel (symex_go body) r ks = run Dtla fuel (symex_tla action) r ks` "
             "(all states, all selves, all CONSTANT interpretations, all either/with resolutions: same updated variables, next pc, prints, "
             "assert/abort outcome), closed by equiv_sound (Properties/C02.v, closed under the global context) + vm_compute, plus equality of the "
             "operator tables. 145 of 148 labels are discharged on the pinned tree (coq/C02/baseline_labels.txt); a listed label that stops "
             "checking is reported, after a search for a distinguishing reachable (state, choices) by running the two regenerated models against "
             "each other (for locksvc also replayed on the real generated Go). The 3 remaining labels (gogen/bug_167) are a known finding with "
             "witnesses; no label is covered by differential execution only. One defect was repaired (stale TLA+ translation of proxy.tla)."),
    "level_note": ("Trusted: Coq kernel + vm_compute; SANY, stock pcal, go/parser; the two translators; coq/C02/Lang.v eval and Sem.v symex_go/symex_tla/subst "
                   "(the semantics of each side is DEFINED as run o symex; dtree_sound_go/tla are NOT proved: fuel monotonicity of eval and run is "
                   "(eval_fuel_monotone, run_fuel_monotone), the substitution lemma for subst only on the binder-free fragment "
                   "(subst_binder_free_fragment: no LET/function constructor/quantifier/comprehension/CHOOSE, no EXCEPT); instead run o symex_go is compared on every run with the direct environment-passing interpreter of "
                   "coq/C02/Direct.v on walk states (quick: 5 systems, thorough: all 17) and with the REAL generated Go attempt by attempt "
                   "(locksvc 480 exact-choice attempts, dqueue/pbkvs/raftkvs ~400 attempts through harness/steplib, for some choice vector within the "
                   "observed ceilings; proxy/replicatedkv likewise through own set-ups in harness/cmd/c02s; both comparisons also on the states "
                   "reached by the corpus schedules of C08/C14/C16 on the real code: quick 3, thorough 15 schedules); the TLA+ side (tla2coq + eval + symex_tla) is "
                   "compared with TLC, the reference interpreter of TLA+: for sampled states of TLC's complete state graph (locksvc and dqueue with the "
                   "shipped constants, loadbalancer, shcounter, gcounter, shopcart, nestedcrdtimpl, IndexingLocals) the model's successor set must EQUAL "
                   "TLC's, and for pbkvs/raftkvs (shipped constants), proxy, replicatedkv, bug_167, bug2_124, PBFail4_bug125, NonDetExploration every "
                   "step of TLC simulation traces must be a model step and the successor sets of sampled trace states must equal TLC's one-step "
                   "expansion (thorough: ~1500 states, ~4000 TLC edges, ~3000 trace steps; quick: 209 states); hello is not compared); the hand-written Bind_<sys>.v (mapping macros, instance bindings, renamed "
                   "variables, scratch variables of old translations, checked never read unprimed); the state relation Go local = v[self], pc = pc[self]. "
                   "Not covered: ExprTests, bug_119, ProcedureSpaghetti (SANY rejects their TLA+ translation, so procedure calls have no modelled "
                   "semantics), EmptyBlock; archetypes a spec never instantiates; the Scala compiler itself (absent offline: the claim is about the "
                   "shipped pairs); errors of never-used temporaries; int32 wrap. A 'no-failing-input-found' report means the obligation broke but "
                   "neither the seed corpus (coverage-guided reachable states of pbkvs/raftkvs plus two hand-scripted Raft scenarios, with "
                   "one-step lookahead) nor the random walks (quick: 30x300 attempts) reached a distinguishing state."),
}
