"""C10 — fairness counter: in range, exhaustive round robin (DESIGN §4 C10)."""
import json, os, itertools
import vlib

ID = "C10"
THEOREMS = "Properties/C10.v"
HARNESS = ["c10"]
LEVEL = "proof"
READY = True
TRUSTED_BASE = [
    "Coq 8.16.1 kernel (coqc, full .vo build); vm_compute used in one Example and in the correspondence evaluation",
    "no axioms: Print Assumptions reports 'Closed under the global context' for every theorem of Properties/C10.v",
    "hand-written model coq/C10/Model.v of distsys/fairness.go, tied by differential execution (harness/cmd/c10 + coq/_run cases evaluated by vm_compute)",
    "rand.Uint32() is an oracle argument of the model: the value observed on the Go side at a push is fed back",
    "Go uint is modelled by N: with count < ceiling the addition count+carry cannot wrap at 2^64",
]
ASSUMPTIONS = [
    "ceilings are positive (the generated code aborts on an empty `with` set before consulting the oracle)",
    "exhaustive: hypothesis 'the stack is exactly the consulted choice points' (established by fresh_entry); "
    "stale deeper digits left by earlier, longer attempts of the same label are outside the hypothesis",
]
RULE = ("cases = scripted sequences of BeginCriticalSection/NextFairnessCounter calls from one PRNG (VERIF_SEED): "
        "(a) stable signature, depth 1-5, bounds 1-6, 3*prod attempts; (b) random id/bound/pc changes, prefix-stable or not, "
        "early exits; (c) malformed (ceiling 0, call without Begin); (d) runloop: a hand-made archetype under the real MPCalContext.Run "
        "loop (labels that abort, commit back to themselves, or move on) with a recording wrapper around the real counter. Non-trivial = at least 2 nested choice points or a "
        "bound/id change between attempts; distinct by canonical op text.")


def gen_stable(rng):
    depth = rng.randint(1, 5)
    sig = [("c%d" % i, rng.randint(1, 6 if depth < 4 else 3)) for i in range(depth)]
    P = 1
    for _, c in sig:
        P *= c
    pc = rng.choice(["lblA", "lblB", "w1"])
    ops = []
    for _ in range(min(3 * P + rng.randint(0, 3), 120)):
        ops.append(["B", pc])
        for (i, c) in sig:
            ops.append(["N", i, c])
    return {"kind": "stable", "sig": sig, "pc": pc, "ops": ops}


def gen_change(rng):
    ops = []
    pcs = ["p", "q", "r"]
    pc = rng.choice(pcs)
    sig = [("c%d" % i, rng.randint(1, 5)) for i in range(rng.randint(1, 4))]
    for _ in range(rng.randint(4, 40)):
        r = rng.random()
        if r < 0.15:
            pc = rng.choice(pcs)
        elif r < 0.35:  # change a bound
            i = rng.randrange(len(sig)); sig[i] = (sig[i][0], rng.randint(1, 5))
        elif r < 0.5:   # change an id (shift nesting)
            i = rng.randrange(len(sig)); sig[i] = ("d%d" % rng.randint(0, 3), sig[i][1])
        elif r < 0.6:
            sig = sig[:max(1, len(sig) - 1)]
        elif r < 0.7 and len(sig) < 5:
            sig.append(("e%d" % len(sig), rng.randint(1, 4)))
        ops.append(["B", pc])
        n = len(sig) if rng.random() < 0.75 else rng.randint(0, len(sig))  # early exit
        for (i, c) in sig[:n]:
            ops.append(["N", i, c])
        if rng.random() < 0.25:     # a stable tail after the change: the label keeps consulting a (possibly shorter) prefix
            k = rng.randint(1, len(sig)); P = 1
            for _, c in sig[:k]:
                P *= c
            for _ in range(min(2 * P + 1, 40)):
                ops.append(["B", pc])
                for (i, c) in sig[:k]:
                    ops.append(["N", i, c])
    return {"kind": "change", "ops": ops}


def gen_malformed(rng):
    ops = []
    if rng.random() < 0.5:
        ops.append(["B", "m"])
    for _ in range(rng.randint(1, 12)):
        r = rng.random()
        if r < 0.3:
            ops.append(["B", rng.choice(["m", "n"])])
        else:
            ops.append(["N", "z%d" % rng.randint(0, 2), rng.choice([0, 0, 1, 2, 3])])
    return {"kind": "malformed", "ops": ops}


def gen_runloop(rng):
    """the real Run loop drives the real counter: labels that abort, commit back to themselves, or move on"""
    labels = ["A.L0", "A.L1", "A.L2"]
    script = []
    cur = rng.choice(labels)
    start = cur
    for _ in range(rng.randint(1, 4)):
        depth = rng.randint(1, 3)
        sig = [["%s.%d" % (cur, i), rng.randint(1, 4)] for i in range(depth)]
        P = 1
        for _, c in sig:
            P *= c
        stable = rng.random() < 0.7
        n = min(2 * P + rng.randint(1, 3), 40)
        for k in range(n):
            sg = sig
            if not stable and rng.random() < 0.3:
                sg = [[i, rng.randint(1, 4)] for i, _ in sig][:rng.randint(1, depth)]
            r = rng.random()
            script.append({"sig": sg, "action": "abort" if r < 0.45 else "refuse:goto:" + rng.choice([l for l in labels if l != cur]) if r < 0.7 else "goto:" + cur})
        nxt = rng.choice([l for l in labels if l != cur])
        script.append({"sig": sig, "action": "goto:" + nxt})
        cur = nxt
    script.append({"sig": [], "action": "done"})
    return {"kind": "runloop", "mode": "run", "start": start, "labels": labels, "script": script, "nowrap": rng.random() < 0.5}


def oracle_runloop(case, log, err):
    """Run calls BeginCriticalSection exactly once per attempt with that attempt's label; choices in range;
    over consecutive attempts of one label consulting the same choice points, every window of prod(bounds)
    attempts tries each combination once (commits back to the same label included)"""
    fails = []
    if err:
        return [("runloop-error", "Run ended with %r" % err)]
    attempts = []   # (label, sig, values)
    i = 0
    nB = sum(1 for e in log if e[0] == "B"); nA = sum(1 for e in log if e[0] == "A")
    if case.get("nowrap"):
        # the context's own counter, unwrapped: Begin calls are not observable; assume one per attempt (the model
        # comparison and the window check then test exactly that assumption)
        log2 = []
        for e in log:
            if e[0] == "A":
                log2.append(["B", e[1]])
            log2.append(e)
        log[:] = log2
    elif nB != nA:
        fails.append(("begin-not-once-per-attempt", "%d BeginCriticalSection calls for %d attempts" % (nB, nA)))
    for j, e in enumerate(log):
        if e[0] == "A":
            if j == 0 or log[j - 1][0] != "B" or log[j - 1][1] != e[1]:
                fails.append(("begin-not-once-per-attempt", "attempt of %s at log position %d not preceded by BeginCriticalSection(%s)" % (e[1], j, e[1])))
                break
    cur = None
    for e in log:
        if e[0] == "A":
            cur = [e[1], [], []]; attempts.append(cur)
        elif e[0] == "N" and cur is not None:
            cur[1].append((e[1], e[2])); cur[2].append(e[3])
            if not (0 <= e[3] < e[2]):
                fails.append(("out-of-range", "choice %s returned %d for bound %d" % (e[1], e[3], e[2])))
    if not fails:
        fails += window_failures([(a[0], a[1], a[2]) for a in attempts])
    return fails


def log_to_ops(log):
    ops, outs = [], []
    for e in log:
        if e[0] == "B":
            ops.append(["B", e[1]]); outs.append(-1)
        elif e[0] == "N":
            ops.append(["N", e[1], e[2]]); outs.append(e[3])
    return ops, outs


def corpus():
    out = []
    d = os.path.join(vlib.VERIF, "corpus", "C10")
    if os.path.isdir(d):
        for f in sorted(os.listdir(d)):
            if f.endswith(".json"):
                out.append(json.load(open(os.path.join(d, f))))
    return out


def to_coq(case, outs):
    ops = []
    for op, o in zip(case["ops"], outs):
        if op[0] == "B":
            ops.append("OBegin %s" % vlib.coq_str(op[1]))
        else:
            ops.append("ONext %s %s %s" % (vlib.coq_str(op[1]), vlib.coq_N(op[2]), vlib.coq_N(max(o, 0))))
    return "(%s, %s)" % (vlib.coq_list(ops), vlib.coq_list([vlib.coq_Z(o) for o in outs]))


def window_failures(attempts):
    """attempts: list of (pc, [(id, ceiling)...], [values...]) in order.  Simulates only the SHAPE of the stack as the
    property's hypotheses describe it (label change clears; a consulted position whose id/bound differs drops that digit and
    everything deeper; consulting one past the end pushes) - theorems robust_change_truncates / attempt_prefix - and, for every
    maximal run of consecutive attempts of one label consulting the same choice points, starting at an attempt that leaves the
    stack exactly as long as what it consulted, demands that every window of prod(bounds) attempts is repetition-free
    (theorem exhaustive_after_change)."""
    fails = []
    shape, pc = [], None
    run = []          # (sig, values) of the current run
    def close(run):
        if len(run) < 2:
            return
        sig = run[0][0]
        P = 1
        for _, c in sig:
            P *= c
        tup = [tuple(v) for _, v in run]
        for a in range(0, len(tup) - P + 1):
            if len(set(tup[a:a + P])) != P:
                fails.append(("window-repeats", "attempts consulting %s: window %d..%d repeats a combination: %s" % (list(sig), a, a + P - 1, tup[a:a + P])))
                return
    for (apc, sig, vals) in attempts:
        if apc != pc:
            shape, pc = [], apc
            close(run); run = []
        complete = len(vals) == len(sig) and all(isinstance(v, int) and v >= 0 for v in vals)
        for i, sc in enumerate(sig):
            if i < len(shape) and shape[i] != sc:
                shape = shape[:i]
            if i == len(shape):
                shape.append(sc)
        exact = len(shape) == len(sig) and len(sig) > 0 and complete
        sig_t = tuple(sig)
        if run and run[0][0] == sig_t and exact:
            run.append((sig_t, vals))
        else:
            close(run)
            run = [(sig_t, vals)] if exact else []
    close(run)
    return fails[:1]


def scripted_attempts(ops, outs):
    atts, cur = [], None
    for op, o in zip(ops, outs):
        if op[0] == "B":
            cur = (op[1], [], []); atts.append(cur)
        elif cur is not None:
            cur[1].append((op[1], op[2])); cur[2].append(o)
    return atts


def oracle(case, outs):
    """implementation-side check of the property itself; returns list of (signature, what)"""
    fails = []
    ops = case["ops"]
    if len(outs) != len(ops):
        return [("harness-output-length", "harness returned %d outputs for %d ops" % (len(outs), len(ops)))]
    wellformed = case.get("kind") != "malformed"
    if wellformed:
        for i, (op, o) in enumerate(zip(ops, outs)):
            if op[0] == "N":
                if o == -2:
                    fails.append(("panic-on-positive-ceiling", "NextFairnessCounter panicked at op %d" % i)); break
                if not (0 <= o < op[2]):
                    fails.append(("out-of-range", "op %d returned %d for ceiling %d" % (i, o, op[2]))); break
    if wellformed and not fails and ops and ops[0][0] == "B":
        fails += window_failures(scripted_attempts(ops, outs))
    return fails


def nontrivial(case):
    ops = case["ops"]
    maxdepth, d = 0, 0
    sigs = []
    cur = []
    for op in ops:
        if op[0] == "B":
            if cur:
                sigs.append(tuple(cur))
            cur = []; d = 0
        else:
            d += 1; maxdepth = max(maxdepth, d); cur.append((op[1], op[2]))
    if cur:
        sigs.append(tuple(cur))
    return maxdepth >= 2 or len(set(sigs)) >= 2


def run(ctx):
    rng = ctx.rng
    n = 300 if ctx.tier == "quick" else 6000
    cases = []
    if ctx.replay:
        rp = json.load(open(ctx.replay))
        cases = [rp["case"]]
    else:
        cases = corpus()
        for i in range(n):
            r = rng.random()
            cases.append(gen_stable(rng) if r < 0.35 else gen_change(rng) if r < 0.7 else gen_runloop(rng) if r < 0.9 else gen_malformed(rng))
    for i, c in enumerate(cases):
        c["id"] = i
    rc, res, err = vlib.run_jsonl("c10", [{k: v for k, v in c.items() if k in ("id", "ops", "mode", "start", "labels", "script", "nowrap")} for c in cases])
    byid = {r["id"]: r for r in res}
    if rc != 0 or len(byid) != len(cases):
        ctx.breaks.append({"what": "harness c10 failed (rc=%d, %d/%d results)" % (rc, len(byid), len(cases)), "detail": err[-2000:]})
        return
    kinds = {}
    for c in cases:
        if c.get("mode") == "run":
            r = byid[c["id"]]
            for sig, what in oracle_runloop(c, r.get("log") or [], r.get("err")):
                ctx.failures.append({"signature": sig, "what": what, "case": {k: v for k, v in c.items() if not k.startswith("_")}, "obs": r.get("log")})
            c["ops"], c["_outs"] = log_to_ops(r.get("log") or [])
            kinds["runloop"] = kinds.get("runloop", 0) + 1
            ctx.add_case(json.dumps(c["script"]), len(c["script"]) > 3)
            continue
        outs = byid[c["id"]]["outs"]
        c["_outs"] = outs
        kinds[c.get("kind", "corpus")] = kinds.get(c.get("kind", "corpus"), 0) + 1
        ctx.add_case(json.dumps(c["ops"]), nontrivial(c))
        for sig, what in oracle(c, outs):
            ctx.failures.append({"signature": sig, "what": what, "case": {k: v for k, v in c.items() if not k.startswith("_")}, "obs": outs})
    ctx.extra["input_distribution"] = kinds
    ctx.extra["ops_total"] = sum(len(c["ops"]) for c in cases)
    ctx.samples = [{"ops": c["ops"][:14], "go_outputs": c["_outs"][:14], "kind": c.get("kind")} for c in cases[:3]]
    # tie B: model evaluated inside Coq on the same cases
    if ctx.coq_ok:
        shard = 1000
        for s in range(0, len(cases), shard):
            part = cases[s:s + shard]
            body = ("From PGV Require Import C10.Model.\nOpen Scope string_scope.\n"
                    "Definition cases : list (list op * list Z) :=\n " +
                    vlib.coq_list([to_coq(c, c["_outs"]) for c in part]).replace("); (", ");\n (") + ".\n"
                    "Definition M := Eval vm_compute in mismatches_from 0 cases.\nPrint M.\n")
            rc, out, err = vlib.coq_eval("C10_cases_%d" % s, body)
            mm = vlib.parse_nat_list(out, "M") if rc == 0 else None
            if mm is None:
                ctx.breaks.append({"what": "correspondence evaluation C10_cases did not compile", "detail": (out + err)[-2000:]})
                break
            for k in mm:
                c = part[k]
                rc2, out2, _ = vlib.coq_eval("C10_one", "From PGV Require Import C10.Model.\nOpen Scope string_scope.\n"
                                             "Eval vm_compute in run_enc (fst %s).\n" % to_coq(c, c["_outs"]))
                ctx.breaks.append({"what": "correspondence C10/Model.v vs distsys/fairness.go differs on a case",
                                   "case": {k2: v for k2, v in c.items() if not k2.startswith("_")},
                                   "impl": c["_outs"], "model": out2.strip()[-1500:]})
    if ctx.replay:
        print("replay: go outputs", cases[0]["_outs"])
        print("replay: failures", [f["what"] for f in ctx.failures], "correspondence breaks", len(ctx.breaks))

MANIFEST = {
    "category": "proof",
    "technique": "Coq proof (mixed-radix counter bijection, invariant induction over all call sequences) + differential correspondence model vs fairness.go",
    "text": ("Theorems in coq/Properties/C10.v, closed under the global context: in_range (every call sequence with positive bounds, "
             "any ids/bounds/label changes, any oracle, from any state satisfying the representation invariant returns values below the bound and never panics), "
             "robust_change_truncates, attempt_prefix, exhaustive_after_change, exhaustive (every window of prod(bounds) consecutive attempts enumerates every combination exactly once, any depth/bounds/start), "
             "fresh_entry, bounded_wait, each_combination_exactly_once (counting form: every combination occurs at exactly one position of each window of P attempts). The model is tied to distsys/fairness.go by running both on the same generated call sequences on every run; "
             "an implementation-side oracle checks range and window-distinctness directly on the Go outputs."),
    "level_note": ("Trusted: Coq kernel; the hand-written model (tie = differential testing, so a code change is caught only if a generated sequence reaches it: "
                   "300 quick / 6000 thorough sequences incl. malformed ones); rand.Uint32 as oracle. The generated-code side (either -> switch, with -> SelectElement) is not part of this check."),
}
