(* C19 — Failure detector is complete and settles to accurate answers.
   Only the property theorems; model C19/Model.v (tied to distsys/resources/fd.go by ./check C19).

   Level 1 theorems hold for EVERY outcome the runtime can hand to one tick of SingleFailureDetector.mainLoop
   (dial succeeded or not; reply / error with or without ErrShutdown / timeout) and every detector state.
   Level 2 theorems hold for EVERY list of events (monitor start, Monitor.Close, monitor crash, partition on/off,
   archetype start, archetype end by return / error / panic, detector start, poll) from EVERY state in which the
   detector's loop is running.  A poll is atomic at the instant the monitor serves it (or the failure is noticed);
   that a poll completes within timeout + one pull interval is the runtime's behaviour and is only sampled. *)
From PGV Require Import C19.Model C19.Proofs C19.ProofsHist.
From Coq Require Import Lia.

(* ---- complete, one poll: unless the dial (if one was needed) succeeded AND the monitor answered "alive", the tick sets a
   failed state and ReadValue is TRUE; the detector is never left uninitialized by a tick *)
Theorem poll_complete : forall dial_ok rpc x,
  answer_alive dial_ok rpc x = false -> read_value (poll dial_ok rpc x) = VTrue.
Proof. exact poll_complete_lemma. Qed.
Print Assumptions poll_complete.

Theorem poll_accurate : forall dial_ok rpc x,
  answer_alive dial_ok rpc x = true -> read_value (poll dial_ok rpc x) = VFalse.
Proof. exact poll_accurate_lemma. Qed.
Print Assumptions poll_accurate.

Theorem poll_initialises : forall dial_ok rpc x, d_state (poll dial_ok rpc x) <> DUninit.
Proof. exact C19.Proofs.poll_initialises. Qed.
Print Assumptions poll_initialises.

(* ---- RunArchetype: however ctx.Run ends (nil — Done or Stop —, error, panic) the monitor no longer says alive *)
Theorem wrapper_records_end : forall h,
  run_archetype_end h <> AAlive /\ (run_archetype_end h = AFinished <-> h = HNormal).
Proof. exact wrapper_lemma. Qed.
Print Assumptions wrapper_records_end.

(* ---- complete: if the target is down (monitor process gone, or partition, or archetype never registered / failed /
   finished, or listener closed with no live connection) at every moment of the execution a ++ EPoll :: b1 ++ b2 — whatever
   else happens in it, in any order —, then after the first poll, and at every later moment, ReadValue is TRUE *)
Theorem complete : forall a b1 b2 s,
  det_on s = true ->
  Forall (fun x => tdown x = true) (states s (a ++ EPoll :: b1 ++ b2)) ->
  read (run s (a ++ EPoll :: b1)) = VTrue.
Proof. exact complete_lemma. Qed.
Print Assumptions complete.

(* ---- accurate_when_up: if the archetype runs and its monitor is reachable (process up, no partition, listener open or a
   live connection) at every moment, then from the first poll that reports alive on, ReadValue is FALSE at every later moment *)
Theorem accurate_when_up : forall a b1 b2 s,
  det_on s = true ->
  Forall (fun x => tup x = true) (states s (a ++ EPoll :: b1 ++ b2)) ->
  read (run s (a ++ [EPoll])) = VFalse ->
  read (run s (a ++ EPoll :: b1)) = VFalse.
Proof. exact accurate_lemma. Qed.
Print Assumptions accurate_when_up.

(* ... and that first successful poll comes within 3 polls (stale connection noticed, ErrShutdown -> re-dial, dial) when
   the listener is open: from ANY detector state, any execution with at least `need s` <= 3 polls ends with FALSE *)
Theorem settles_within_three_polls : forall es s,
  det_on s = true -> Forall (fun x => upl x = true) (states s es) ->
  3 <= List.length (filter is_poll es) -> read (run s es) = VFalse.
Proof.
  intros es s Hon Hall H3. apply recovers_lemma; auto. pose proof (need_le_3 s). lia.
Qed.
Print Assumptions settles_within_three_polls.

(* ---- read_pure: ReadValue is a function of the detector state (it has no effect on it: `read_value : det -> rv`),
   blocks for at most one pull interval, and only while the detector is uninitialized, i.e. before the first tick *)
Theorem read_pure : forall x, read_delay x <= 1 /\ (read_delay x = 1 <-> read_value x = VAbort).
Proof. exact read_delay_lemma. Qed.
Print Assumptions read_pure.

(* ---- no_delay_after_first_poll (history level of "never delays a critical section by more than one polling interval"):
   once the loop of a running detector has ticked — whatever happened before (a) and whatever happens after (b), in any
   order — a read neither aborts nor blocks; before the first tick every read blocks exactly one interval and aborts *)
Theorem no_delay_after_first_poll : forall a b s,
  det_on s = true ->
  read (run s (a ++ EPoll :: b)) <> VAbort /\ read_delay (d (run s (a ++ EPoll :: b))) = 0.
Proof. exact no_delay_after_first_poll_lemma. Qed.
Print Assumptions no_delay_after_first_poll.

Theorem uninit_until_first_poll : forall es s,
  d_state (d s) = DUninit -> Forall (fun e => e <> EPoll) es ->
  read (run s es) = VAbort /\ read_delay (d (run s es)) = 1.
Proof. exact uninit_until_first_poll_lemma. Qed.
Print Assumptions uninit_until_first_poll.

(* ---- report_changes_only_at_polls ("keeps doing so" / "never changes what it reports", frame form): no event other than
   a tick of the detector's own loop — monitor start/close/crash, partition, archetype start/end, detector start — changes
   the detector's state or what a read returns; and a detector whose loop is not running is frozen even across polls *)
Theorem report_changes_only_at_polls : forall es s,
  Forall (fun e => e <> EPoll) es -> d (run s es) = d s /\ read (run s es) = read s.
Proof. exact report_stable_lemma. Qed.
Print Assumptions report_changes_only_at_polls.

Theorem detector_off_is_frozen : forall es s,
  det_on s = false -> ~ In EDetStart es -> d (run s es) = d s /\ det_on (run s es) = false.
Proof. exact off_frozen_lemma. Qed.
Print Assumptions detector_off_is_frozen.

(* ---- alive_report_sound: a poll never produces "alive" for a target that is down at the instant of the poll *)
Theorem alive_report_sound : forall s,
  det_on s = true -> read (step s EPoll) = VFalse ->
  serving s = true /\ net_up s = true /\ astate s = Some AAlive.
Proof. exact alive_report_sound_lemma. Qed.
Print Assumptions alive_report_sound.

(* ---- non-vacuity: concrete executions meet the hypotheses *)
Example c19_complete_nonvacuous :
  let s := run sys_init [EMonStart; EArchStart; EDetStart; EPoll] in
  let es := [EArchEnd HPanic; EMonClose; EPoll; ENetDown; EPoll; ECrash; EPoll] in
  det_on s = true /\ read s = VFalse /\
  forallb tdown (states (step s (EArchEnd HPanic)) (tl es)) = true /\
  map (fun k => read (run s (firstn k es))) [3; 5; 7] = [VTrue; VTrue; VTrue].
Proof. vm_compute. repeat split; reflexivity. Qed.

Example c19_accurate_nonvacuous :
  (* a detector holding a connection to a dead incarnation, new monitor process, archetype running *)
  let s := run sys_init [EMonStart; EArchStart; EDetStart; EPoll; ECrash; EMonStart; EArchStart] in
  let es := [EPoll; EMonStart; EPoll; EPoll; EMonClose; EPoll] in
  det_on s = true /\ need s = 3 /\ forallb upl (states s (firstn 4 es)) = true /\ forallb tup (states s es) = true /\
  map (fun k => read (run s (firstn k es))) [1; 3; 4; 6] = [VTrue; VTrue; VFalse; VFalse].
Proof. vm_compute. repeat split; reflexivity. Qed.

Example c19_no_delay_nonvacuous :
  let s := run sys_init [EMonStart; EDetStart] in
  det_on s = true /\ read s = VAbort /\ read_delay (d s) = 1 /\
  map (fun es => read (run s es)) [[EArchStart; ENetDown]; [EArchStart; EPoll]; [EPoll; EArchStart]; [EPoll; EArchStart; EPoll; ECrash]]
    = [VAbort; VFalse; VTrue; VFalse].
Proof. vm_compute. repeat split; reflexivity. Qed.
