(* C04 — Procedure calls follow PlusCal stack semantics (incl. recursion, tail calls).
   Only the property theorems, each closed by `exact <lemma>`, Print Assumptions beneath, and
   non-vacuity examples.  Model: C04/Model.v (tied to distsys by ./check C04). *)
From PGV Require Import C01.Proofs C01.ProofsInst.
From PGV Require Import C04.Model C04.Proofs C04.ProofsExt.
Open Scope string_scope.
Open Scope list_scope.

(* 1. Call, Return and TailCall of the runtime take exactly the step of the specification
      machine (the pcal translation of call / return; tail call = return, then call with the
      popped return label), for every store, procedure table (following the generator's
      conventions: wf_table) and argument list — by value, or by reference where the argument is
      the name of the underlying resource. *)
Theorem call_refines : forall t s g p ret args s',
  wf_table t -> Rel s g -> call_impl t s p ret args = Some s' ->
  exists g', call_spec t g p ret args = Some g' /\ Rel s' g'.
Proof. exact call_refines_lemma. Qed.
Print Assumptions call_refines.

Theorem return_refines : forall s g s',
  Rel s g -> return_impl s = Some s' ->
  exists g', return_spec g = Some g' /\ Rel s' g'.
Proof. exact return_refines_lemma. Qed.
Print Assumptions return_refines.

Theorem tailcall_refines : forall t s g p args s',
  wf_table t -> Rel s g -> tailcall_impl t s p args = Some s' ->
  exists g', tailcall_spec t g p args = Some g' /\ Rel s' g'.
Proof. exact tailcall_refines_lemma. Qed.
Print Assumptions tailcall_refines.

(* any sequence of calls, returns, tail calls, body assignments and label ends *)
Theorem run_refines : forall t es s g s',
  wf_table t -> Forall ok_ev es -> Rel s g -> impl_run t s es = Some s' ->
  exists g', spec_run t g es = Some g' /\ Rel s' g'.
Proof. exact run_refines_lemma. Qed.
Print Assumptions run_refines.

(* the other direction: where the specification step is defined the runtime does not panic
   (`live`: every variable saved in a frame exists in the store — Call created it, and it stays) *)
Theorem call_defined : forall t s g p ret args g',
  wf_table t -> Rel s g -> call_spec t g p ret args = Some g' ->
  exists s', call_impl t s p ret args = Some s'.
Proof. exact call_defined_lemma. Qed.
Print Assumptions call_defined.

Theorem return_defined : forall s g g',
  Rel s g -> live s g -> return_spec g = Some g' -> exists s', return_impl s = Some s'.
Proof. exact return_defined_lemma. Qed.
Print Assumptions return_defined.

Theorem live_preserved_by_call : forall t s g p r a s' g',
  live s g -> call_impl t s p r a = Some s' -> call_spec t g p r a = Some g' -> live s' g'.
Proof. exact call_live. Qed.
Print Assumptions live_preserved_by_call.

Theorem live_preserved_by_return : forall s g s' g',
  live s g -> return_impl s = Some s' -> return_spec g = Some g' -> live s' g'.
Proof. exact return_live. Qed.
Print Assumptions live_preserved_by_return.

(* every store with a .pc and a well-formed .stack is related to its abstraction *)
Theorem store_abstraction : forall s, wf_store s -> Rel s (abs s).
Proof. exact rel_abs. Qed.
Print Assumptions store_abstraction.

(* 2. activation_isolation: for every well-bracketed trace `act q es` of an activation of q
      (any depth, recursion, mutual recursion, tail calls replacing the running activation,
      body statements writing the running procedure's variables or variables in the set R
      reached through references), after the matching return the stack is the pre-call stack,
      control is at the return label and every variable outside R has its pre-call value —
      in particular every variable of every live caller. *)
Theorem activation_isolation : forall t (R : string -> Prop), wf_table t ->
  forall q r a es g g',
    act t R q es -> spec_run t g (ECall q r a :: es) = Some g' ->
    v_stack g' = v_stack g /\ v_pc g' = VS r /\ (forall y, ~ R y -> v_vars g' y = v_vars g y).
Proof. exact isolation_spec. Qed.
Print Assumptions activation_isolation.

(* the same, stated about the runtime's store *)
Theorem activation_isolation_runtime : forall t (R : string -> Prop), wf_table t ->
  forall q r a es s s',
    wf_store s -> act t R q es -> impl_run t s (ECall q r a :: es) = Some s' ->
    cur s' ".stack" = cur s ".stack" /\ cur s' ".pc" = VS r /\
    (forall y, ~ R y -> ~ reserved y -> cur s' y = cur s y).
Proof. exact isolation_impl. Qed.
Print Assumptions activation_isolation_runtime.

Theorem tailcall_defined : forall t s g p args g',
  wf_table t -> Rel s g -> live s g -> tailcall_spec t g p args = Some g' ->
  exists s', tailcall_impl t s p args = Some s'.
Proof. exact tailcall_defined_lemma. Qed.
Print Assumptions tailcall_defined.

(* 2b. by-reference parameters bound to resources that are NOT local variables (an archetype `ref` parameter
       with a mapping macro, handed on as `ref e`): the procedure variable holds the resource's name; a read or
       write through it (XRef) is an operation of the context's family of resources of C01 and leaves every
       local slot alone; Call / Return / TailCall / assignments leave those resources alone.  Hence activation
       isolation holds whatever such accesses happen, anywhere inside any activation. *)
Theorem mapped_ref_access_is_a_resource_operation : forall t s x a s',
  xstep t s (XRef x a) = Some s' ->
  x_loc s' = x_loc s /\
  exists h v, cur (x_loc s) x = VS h /\ sres (x_loc s) h = None /\
              fam_step String.eqb node_impl (x_ext s) (h, a) = (x_ext s', Ok v).
Proof. exact xstep_ref. Qed.
Print Assumptions mapped_ref_access_is_a_resource_operation.

Theorem calls_leave_nonlocal_resources_alone : forall t s e s',
  xstep t s (XLocal e) = Some s' -> e <> ECommit -> x_ext s' = x_ext s.
Proof. exact xstep_local_frame. Qed.
Print Assumptions calls_leave_nonlocal_resources_alone.

Theorem activation_isolation_mapped_refs : forall t (R : string -> Prop), wf_table t ->
  forall q r a es s s',
    wf_store (x_loc s) -> act t R q (locals_of es) ->
    xrun t s (XLocal (ECall q r a) :: es) = Some s' ->
    cur (x_loc s') ".stack" = cur (x_loc s) ".stack" /\ cur (x_loc s') ".pc" = VS r /\
    (forall y, ~ R y -> ~ reserved y -> cur (x_loc s') y = cur (x_loc s) y).
Proof. exact isolation_mapped_lemma. Qed.
Print Assumptions activation_isolation_mapped_refs.

(* an abort after any calls, returns, tail calls, assignments and accesses through such references restores every
   local variable, .pc, .stack, and leaves the published view of every non-local resource (C01) unchanged *)
Theorem abort_between_mapped_refs : forall t es s s',
  quiescent (x_loc s) -> x_inv ctx_abs (x_ext s) -> x_qui ctx_abs (x_ext s) ->
  Forall xno_commit es -> xrun t s es = Some s' -> fam_abp node_impl (x_ext s') = false ->
  (forall x, cur (x_loc (xabort s')) x = cur (x_loc s) x) /\ quiescent (x_loc (xabort s')) /\
  x_qui ctx_abs (x_ext (xabort s')) /\
  x_oeq ctx_abs (x_obs ctx_abs (x_ext (xabort s'))) (x_obs ctx_abs (x_ext s)).
Proof. exact abort_between_mapped_lemma. Qed.
Print Assumptions abort_between_mapped_refs.

(* 3. abort_between: whatever calls, returns, tail calls and assignments a section performed,
      an abort puts every variable, .pc and .stack back to the last commit *)
Theorem abort_between : forall t es s s',
  quiescent s -> Forall no_commit es -> impl_run t s es = Some s' ->
  quiescent (abort_impl s') /\ forall x, cur (abort_impl s') x = cur s x.
Proof. exact abort_between_lemma. Qed.
Print Assumptions abort_between.

(* ---------------------------------------------------------------------------------------------
   Non-vacuity: recursion of depth 3 with a tail call into another procedure with a local and a
   write through a reference; the hypotheses hold and the runtime model runs the trace. *)
Example c04_nonvacuous :
  wf_table ex_table /\ wf_store ex_store /\ quiescent ex_store /\
  act ex_table (fun x => x = "A.x") "P" ex_trace /\
  (exists s', impl_run ex_table ex_store (ECall "P" "A.l2" [VI 2] :: ex_trace) = Some s' /\
              cur s' "P.n" = VD /\ cur s' "A.x" = VI 6 /\ cur s' ".pc" = VS "A.l2" /\ cur s' ".stack" = VT []) /\
  (* in the middle of the recursion the innermost activation sees n = 0 and the frames hold 1 and 2 *)
  (exists s', impl_run ex_table ex_store
                [ECall "P" "A.l2" [VI 2]; ECommit; ECall "P" "P.l2" [VI 1]; ECommit; ECall "P" "P.l2" [VI 0]] = Some s' /\
              cur s' "P.n" = VI 0 /\
              cur s' ".stack" = VT [VR [(VS ".pc", VS "P.l2"); (VS "P.n", VI 1)];
                                     VR [(VS ".pc", VS "P.l2"); (VS "P.n", VI 2)];
                                     VR [(VS ".pc", VS "A.l2"); (VS "P.n", VD)]]).
Proof.
  split; [exact ex_table_wf|]. split; [exact ex_store_wf|]. split; [exact ex_store_quiescent|].
  split; [exact ex_trace_act|]. split.
  - eexists. split; [vm_compute; reflexivity|]. vm_compute. auto.
  - eexists. split; [vm_compute; reflexivity|]. vm_compute. auto.
Qed.
