(* C15 — Generated lock service grants the lock to one client at a time, in order.
   Only the property theorems, each closed by `exact <lemma>`, with Print Assumptions beneath.
   Model: C15/Model.v (locksvc.tla's PlusCal translation, label by label; bag network; any N),
   tied to systems/locksvc/locksvc.go by the step-level correspondence check (./check C15).

   `exec N evs` is the state after the event list evs (each event: which process runs its current
   label, and which element of the bag it reads); quantifying over all evs is quantifying over every
   interleaving of server and client labels and every delivery order of the bag network. N = NumClients. *)
From PGV Require Import C15.Model C15.Proofs C15.ProofsFifo.
From Coq Require Import Lia.

(* the spec's invariant Safety:  \A i, j \in ClientSet : (i # j /\ hasLock[i]) => ~hasLock[j] *)
Theorem mutual_exclusion : forall N evs i j,
  1 <= i <= N -> 1 <= j <= N -> i <> j ->
  hasLock (exec N evs) i = true -> hasLock (exec N evs) j = false.
Proof. intros N evs i j _ _. exact (mutual_exclusion_lemma N (exec N evs) (exec_reachable N evs) i j). Qed.
Print Assumptions mutual_exclusion.

(* the strengthening that carries it (DESIGN §11): every client holds at most one "token"
   (a Grant in flight to it, being at label unlock, or its Unlock on the way to / at the server), a
   token exists exactly for the head of the server's queue, hasLock implies pc = unlock, the queue has
   no duplicates and holds only clients that are waiting or have not been released, a pending Lock
   request is unique and its sender waits outside the queue, client mailboxes hold only Grants. *)
Theorem token_invariant : forall N evs, Inv N (exec N evs).
Proof. intros N evs. exact (inv_reachable N (exec N evs) (exec_reachable N evs)). Qed.
Print Assumptions token_invariant.

(* at most one client owns a token, and it is the head of the queue: the counting form of the invariant *)
Theorem at_most_one_token : forall N evs c d,
  tokens (exec N evs) c >= 1 -> tokens (exec N evs) d >= 1 -> c = d.
Proof. intros N evs c d. exact (at_most_one_token_lemma N (exec N evs) c d (exec_reachable N evs)). Qed.
Print Assumptions at_most_one_token.

(* the lock is granted only to a client that requested it and has not yet been served: whenever a step
   puts a Grant into network[c], c's Lock request has been received by the server (c is in `arrived`),
   c has never been granted before, c is waiting at criticalSection, holds no lock and has no grant in
   flight, and after the step c is the head of the server's queue *)
Theorem grant_only_to_waiting : forall N evs e s' c,
  step N (exec N evs) e = Ok s' ->
  cnt Grant (net s' c) > cnt Grant (net (exec N evs) c) ->
  In c (arrived (exec N evs)) /\ ~ In c (granted (exec N evs)) /\
  cpc_ (exec N evs) c = CCrit /\ hasLock (exec N evs) c = false /\
  cnt Grant (net (exec N evs) c) = 0 /\ hd_error (q s') = Some c /\
  granted s' = granted (exec N evs) ++ [c].
Proof. intros N evs e s' c. exact (grant_only_to_waiting_lemma N (exec N evs) e s' c (exec_reachable N evs)). Qed.
Print Assumptions grant_only_to_waiting.

(* waiting clients are served in the order their requests reached the server: the sequence of grants
   is a prefix of the sequence of Lock requests in order of receipt (each request counted once) *)
Theorem fifo_service : forall N evs,
  NoDup (arrived (exec N evs)) /\
  exists waiting, arrived (exec N evs) = granted (exec N evs) ++ waiting.
Proof. intros N evs. exact (fifo_service_lemma N (exec N evs) (exec_reachable N evs)). Qed.
Print Assumptions fifo_service.

(* "has not yet been served", history form: over the whole execution no client is ever granted the lock twice, and
   every client that was granted had its request received by the server before *)
Theorem served_at_most_once : forall N evs,
  NoDup (granted (exec N evs)) /\ incl (granted (exec N evs)) (arrived (exec N evs)).
Proof.
  intros N evs. destruct (fifo_service N evs) as [Hnd [w Hw]]. split.
  - rewrite Hw in Hnd. clear Hw. induction w as [|a w IH].
    + rewrite app_nil_r in Hnd. exact Hnd.
    + apply IH. exact (NoDup_remove_1 _ _ _ Hnd).
  - rewrite Hw. apply incl_appl. apply incl_refl.
Qed.
Print Assumptions served_at_most_once.

(* no assertion of the spec fails and no action is ill-typed (msg is a record when its fields are read,
   Tail is applied to a non-empty queue), in any reachable state, for any event *)
Theorem assertion_free : forall N evs e,
  step N (exec N evs) e <> AssertFail /\ step N (exec N evs) e <> TypeError.
Proof. intros N evs e. exact (assertion_free_lemma N (exec N evs) e (exec_reachable N evs)). Qed.
Print Assumptions assertion_free.

(* `arrived` and `granted` are history only: replacing them by anything changes neither the outcome of
   a step nor any spec variable of the successor *)
Theorem ghost_irrelevant : forall N s a g e,
  out_code (step N (set_ghost s a g) e) = out_code (step N s e) /\
  out_visible (step N (set_ghost s a g) e) = out_visible (step N s e).
Proof. exact ghost_irrelevant_lemma. Qed.
Print Assumptions ghost_irrelevant.

(* every state of the inductive reachability relation is the end of an event list, and vice versa *)
Theorem exec_is_reachability : forall N s, reachable N s <-> exists evs, exec N evs = s.
Proof. exact exec_is_reachability_lemma. Qed.
Print Assumptions exec_is_reachability.

(* ---------------------------------------------------------------- non-vacuity *)

(* three clients request; the server receives client 2's request before client 1's although 1 sent
   first (bag network), grants 2, queues 1 and 3; 2 takes the lock *)
Definition ex_events : list event :=
  [(1, None); (2, None); (3, None);                 (* acquireLock x3 *)
   (0, None); (0, Some (Req 2 1)); (0, None);       (* server: loop, receive Lock(2), respond: grant *)
   (0, None); (0, Some (Req 1 1)); (0, None);       (* receive Lock(1): queued *)
   (0, None); (0, Some (Req 3 1)); (0, None);       (* receive Lock(3): queued *)
   (2, Some Grant)].                                (* client 2 enters the critical section *)

Example c15_nonvacuous_state :
  let s := exec 3 ex_events in
  hasLock s 2 = true /\ hasLock s 1 = false /\ q s = [2; 1; 3] /\
  arrived s = [2; 1; 3] /\ granted s = [2] /\ tokens s 2 = 1 /\ cpc_ s 1 = CCrit.
Proof. vm_compute. repeat split; reflexivity. Qed.

(* the hypothesis of grant_only_to_waiting is satisfiable: after 2 unlocks and the server processes the
   Unlock, a Grant is put into network[1] *)
Example c15_nonvacuous_grant :
  let evs := ex_events ++ [(2, None); (0, None); (0, Some (Req 2 2))] in
  exists s', step 3 (exec 3 evs) (0, None) = Ok s' /\
             cnt Grant (net s' 1) > cnt Grant (net (exec 3 evs) 1) /\ q s' = [1; 3] /\ granted s' = [2; 1].
Proof. eexists. split; [vm_compute; reflexivity|]. vm_compute. repeat split; lia. Qed.

(* an event can be disabled (await on an empty bag) and the model says so *)
Example c15_disabled : out_code (step 2 init (0, None)) = 0 /\
  out_code (step 2 (exec 2 [(0, None)]) (0, None)) = 1 /\ out_code (step 2 init (1, None)) = 0 /\
  out_code (step 2 (exec 2 [(1, None)]) (1, Some Grant)) = 1.
Proof. vm_compute. repeat split; reflexivity. Qed.
