(* C06 — Mailboxes and channels are reliable FIFO exactly-once transactional links.
   Only the property theorems, each closed by `exact <lemma>`, Print Assumptions beneath, and non-vacuity Examples.
   Model: C06/Model.v (tied to tcpmailboxes.go / relaxedmailboxes.go / channels.go / customch.go by ./check C06).

   `reachable k cap st`: st is reached from the initial state (sender kinds k, receive-queue size cap) by SOME event
   list — every theorem therefore holds for every number of senders, every interleaving, every pattern of commits,
   aborts and time-outs on both sides, every queue size.  One receiver is modelled; receivers share no state. *)
From PGV Require Import C06.Model C06.Proofs C06.Proofs2 C06.Proofs3 C06.Proofs4.

(* fifo_exactly_once: for every sender s,
      (what the receiver's committed sections obtained from s) ++ (what is pending from s: reads in progress, backlog,
      queued and blocked batches) ++ (values an OutputChan commit has not pushed yet)
   is exactly the concatenation of s's committed sections, in order: nothing lost, duplicated, reordered, invented.
   (TCP mailboxes: a section is committed when the receiving handler processes its commit record; OutputChan: when
   Commit starts; a Go producer: at each channel send; relaxed mailboxes: when the handler hands the value over —
   see relaxed_* below for the relation to what the relaxed sender wrote.) *)
Theorem fifo_exactly_once : forall k cap st s,
  reachable k cap st ->
  of_sender s (g_committed (rcv st)) ++ of_sender s (pending (rcv st)) ++ remaining (snd_of st s)
  = concat (g_sections (snd_of st s)).
Proof. exact fifo_lemma. Qed.
Print Assumptions fifo_exactly_once.

(* batch_contiguous: the receiver's whole sequence (obtained ++ pending, all senders interleaved) is the concatenation
   of the published batches, and for every sender that is not an OutputChan the batches from it are exactly its
   committed sections: each section's messages sit together, whole, or not at all. *)
Theorem batch_contiguous : forall k cap st,
  reachable k cap st ->
  rseq (rcv st) = flat_map tag_batch (g_arrived (rcv st)) /\
  forall s, kind st s <> KOut -> batches_of s (g_arrived (rcv st)) = g_sections (snd_of st s).
Proof. exact batch_contiguous_lemma. Qed.
Print Assumptions batch_contiguous.

(* ... and for a TCP mailbox a published batch is exactly what the sender's section in flight wrote: a handler step
   either publishes nothing, or it is the handler of the sender's current connection, the sender is waiting for the
   commit acknowledgement, and the batch is the section's complete message list. *)
Theorem tcp_publishes_whole_sections : forall k cap st s c st' o,
  reachable k cap st -> kind st s = KTcp -> step st (Deliver s c) = Some (st', o) ->
  g_arrived (rcv st') = g_arrived (rcv st) /\ g_sections (snd_of st' s) = g_sections (snd_of st s) /\ r_queue (rcv st') = r_queue (rcv st)
  \/
  let x := snd_of st s in
  s_open x = true /\ c = s_cid x /\ s_phase x = SComWait /\ s_cur x <> [] /\
  g_arrived (rcv st') = g_arrived (rcv st) ++ [(s, s_cur x)] /\
  g_sections (snd_of st' s) = g_sections x ++ [s_cur x] /\
  r_queue (rcv st') = r_queue (rcv st) ++ [mkEntry s c (s_cur x)].
Proof. exact published_is_section_lemma. Qed.
Print Assumptions tcp_publishes_whole_sections.

(* aborted_never_delivered: everything the receiver has got or will get from s was sent by a committed section of s;
   and an abort on the sender side changes neither the receiver nor any sender's committed sections. *)
Theorem aborted_never_delivered : forall k cap st s m,
  reachable k cap st -> In (s, m) (rseq (rcv st)) -> In m (concat (g_sections (snd_of st s))).
Proof. exact only_committed_lemma. Qed.
Print Assumptions aborted_never_delivered.

Theorem sender_abort_invisible : forall st e s st' o,
  (e = SAbort s \/ e = OAbort s) -> step st e = Some (st', o) ->
  rcv st' = rcv st /\ (forall s', g_sections (snd_of st' s') = g_sections (snd_of st s')) /\
  (forall s', s' <> s -> snd_of st' s' = snd_of st s') /\
  s_phase (snd_of st' s) = SIdle /\ s_cur (snd_of st' s) = [] /\
  (forall k, s_conn (snd_of st' s) k = s_conn (snd_of st s) k).
Proof. exact sender_abort_lemma. Qed.
Print Assumptions sender_abort_invisible.

(* redelivered_first_in_order: after a receiver abort (or read time-out) the reads in progress are in front of the
   backlog, and the next reads return exactly them, in order, before anything else; nobody but the receiver touches
   backlog and reads in progress, so this holds whatever the senders and handlers do in between. *)
Theorem redelivered_first_in_order : forall st e st' o,
  (e = RAbort \/ e = RReadTimeout) -> step st e = Some (st', o) ->
  r_backlog (rcv st') = r_inprog (rcv st) ++ r_backlog (rcv st) /\ r_inprog (rcv st') = [] /\
  exists st'', run st' (repeat RRead (List.length (r_inprog (rcv st)))) =
                 Some (st'', map (fun p => OMsg (snd p)) (r_inprog (rcv st))) /\
               r_backlog (rcv st'') = r_backlog (rcv st) /\ r_inprog (rcv st'') = r_inprog (rcv st).
Proof. exact redelivery_lemma. Qed.
Print Assumptions redelivered_first_in_order.

Theorem only_the_receiver_touches_its_buffers : forall st e st' o,
  step st e = Some (st', o) ->
  match e with RRead | RReadTimeout | RCommitE | RAbort | RLen | RTick => True | _ => False end \/
  (r_backlog (rcv st') = r_backlog (rcv st) /\ r_inprog (rcv st') = r_inprog (rcv st) /\ g_committed (rcv st') = g_committed (rcv st)).
Proof. exact receiver_frame. Qed.
Print Assumptions only_the_receiver_touches_its_buffers.

(* len_le_pending: the reported length is at most the number of pending messages (and consumes nothing) *)
Theorem len_le_pending : forall st st' n,
  step st RLen = Some (st', ONum n) ->
  n <= List.length (r_backlog (rcv st) ++ flat_map tagged (r_queue (rcv st))) /\
  n = List.length (r_backlog (rcv st')) /\ rseq (rcv st') = rseq (rcv st).
Proof. exact len_lemma. Qed.
Print Assumptions len_le_pending.

(* timeouts_only_abort: a read time-out is an abort of the receiver's section; a dial / write / pre-commit time-out on
   the sender side leaves the receiver, every committed section and every connection's content untouched and ends
   the section in flight (connection closed); CustomInChan's time-out changes nothing at all. *)
Theorem read_timeout_only_aborts : forall st st' o,
  step st RReadTimeout = Some (st', o) -> step st RAbort = Some (st', o).
Proof. exact read_timeout_is_abort. Qed.
Print Assumptions read_timeout_only_aborts.

Theorem sender_timeout_only_aborts : forall st e s st' o,
  (e = SDrop s \/ e = XDrop s) -> step st e = Some (st', o) ->
  rcv st' = rcv st /\
  (forall s', g_sections (snd_of st' s') = g_sections (snd_of st s')) /\
  (forall s', s' <> s -> snd_of st' s' = snd_of st s') /\
  s_phase (snd_of st' s) = SIdle /\ s_cur (snd_of st' s) = [] /\ s_open (snd_of st' s) = false /\
  (forall k, s_conn (snd_of st' s) k = s_conn (snd_of st s) k).
Proof. exact sender_timeout_lemma. Qed.
Print Assumptions sender_timeout_only_aborts.

Theorem tick_changes_nothing : forall st st' o, step st RTick = Some (st', o) -> st' = st /\ o = OTick.
Proof. exact tick_lemma. Qed.
Print Assumptions tick_changes_nothing.

(* commit_ack_independent_of_receiver: whenever a TCP sender is past its pre-commit and its commit record has not been
   consumed yet (written or not), the handler that has to consume it and write the acknowledgement is NOT blocked on the
   receive queue.  So a slow or stopped receiver, or a full queue, can never delay a commit acknowledgement (it delays
   the NEXT section's pre-commit acknowledgement, which only aborts that section: sender_timeout_only_aborts).  This is
   why the resend loop of tcpMailboxesRemote.Commit - entered only when the acknowledgement is late - is no event of the
   model: with a healthy connection it is unreachable unless the handler goroutine itself is not scheduled. *)
Theorem commit_ack_independent_of_receiver : forall k cap st s,
  reachable k cap st -> kind st s = KTcp -> awaiting (snd_of st s) -> blocked st s (s_cid (snd_of st s)) = false.
Proof. exact commit_ack_lemma. Qed.
Print Assumptions commit_ack_independent_of_receiver.

(* relaxed mailboxes.  While the sender never had to reconnect, what it wrote is what the receiver obtained, holds,
   or what is still in flight on the connection, in order. *)
Theorem relaxed_fifo_single_connection : forall k cap st s,
  reachable k cap st -> kind st s = KRelaxed -> s_next (snd_of st s) <= 1 ->
  g_written (snd_of st s) =
  of_sender s (g_committed (rcv st)) ++ of_sender s (pending (rcv st)) ++ plains (c_stream (s_conn (snd_of st s) 0)).
Proof. exact relaxed_single_connection_lemma. Qed.
Print Assumptions relaxed_fifo_single_connection.

(* The full FIFO statement for relaxed mailboxes (`relaxed_fifo_statement`, C06/Proofs3.v: once every connection is
   drained, obtained ++ pending from s = what s wrote, in order) is FALSE on the code as it is: after a write time-out
   under back-pressure the retry goes through a new connection and overtakes values still unread in the old one.
   Witness `relaxed_witness` (replayed on the real code: corpus/C06/relaxed_reorder.json; known finding). *)
Theorem relaxed_fifo_refuted : ~ relaxed_fifo_statement.
Proof. exact relaxed_fifo_refuted_lemma. Qed.
Print Assumptions relaxed_fifo_refuted.

(* ---------------------------------------------------------------- non-vacuity *)
Open Scope Z_scope.
Definition ex_kind (n : nat) : skind := match n with 0%nat => KTcp | 1%nat => KTcp | 2%nat => KOut | _ => KProd end.

(* two TCP senders, an OutputChan and a producer into one receiver with a queue of 1: sender 0 commits [1;2], aborts [3],
   sender 1 commits [10] (its handler blocks: queue full), the OutputChan commits [20;21] (first push blocks), the
   receiver reads 1, aborts, reads 1 2 again, commits, asks the length, reads 10 ... *)
Definition ex_evs : list event :=
  [SWrite 0 1; SWrite 0 2; SPreCommit 0; Deliver 0 0; Deliver 0 0; Deliver 0 0; Deliver 0 0; SPreAck 0; SCommit 0; Deliver 0 0; SComAck 0;
   SWrite 0 3; SWrite 1 10; SAbort 0;
   SPreCommit 1; Deliver 1 0; Deliver 1 0; Deliver 1 0; SPreAck 1; SCommit 1; Deliver 1 0; SComAck 1;
   OWrite 2 20; OWrite 2 21; OCommit 2; OPush 2;
   RRead; RAbort; RRead; RRead; RCommitE; RLen; RRead; OPush 2; RCommitE; RRead; ODone 2; PPush 3 30; RReadTimeout].

Example c06_nonvacuous :
  exists st outs, run (init_state ex_kind 1) ex_evs = Some (st, outs) /\
    filter (fun o => match o with ONone => false | _ => true end) outs = [OMsg 1; OMsg 1; OMsg 2; ONum 1; OMsg 10; OMsg 20] /\
    g_committed (rcv st) = [(0%nat, 1); (0%nat, 2); (1%nat, 10)] /\
    r_backlog (rcv st) = [(2%nat, 20)] /\
    g_sections (snd_of st 0%nat) = [[1; 2]] /\ g_sections (snd_of st 1%nat) = [[10]] /\ g_sections (snd_of st 2%nat) = [[20; 21]] /\
    g_arrived (rcv st) = [(0%nat, [1; 2]); (1%nat, [10]); (2%nat, [20]); (2%nat, [21]); (3%nat, [30])].
Proof. eexists. eexists. split; [vm_compute; reflexivity|]. repeat split; vm_compute; reflexivity. Qed.

(* a blocked handler: with the queue full, the handler of sender 1 that has published is blocked and the next
   pre-commit of sender 1 cannot be acknowledged, only time out *)
Example c06_backpressure :
  let evs := [SWrite 0 1; SPreCommit 0; Deliver 0 0; Deliver 0 0; Deliver 0 0; SPreAck 0; SCommit 0; Deliver 0 0; SComAck 0;
              SWrite 1 10; SPreCommit 1; Deliver 1 0; Deliver 1 0; Deliver 1 0; SPreAck 1; SCommit 1; Deliver 1 0; SComAck 1;
              SWrite 1 11; SPreCommit 1] in
  exists st outs, run (init_state ex_kind 1) evs = Some (st, outs) /\
    blocked st 1 0 = true /\ step st (Deliver 1 0) = None /\ step st (SPreAck 1) = None /\
    (exists st', step st (SDrop 1) = Some (st', ONone)).
Proof.
  cbn zeta. eexists. eexists. split; [vm_compute; reflexivity|]. repeat split; try (vm_compute; reflexivity).
  eexists. vm_compute. reflexivity.
Qed.
