(* C10 — Nondeterministic choices are in range and no enabled alternative is starved.
   This file holds only the property theorems, each closed by `exact <lemma>`,
   with Print Assumptions beneath. Model: C10/Model.v (tied to distsys/fairness.go by
   the correspondence check, ./check C10). *)
From PGV Require Import C10.Model C10.Proofs.
From Coq Require Import Lia ZifyN ZifyNat.
Open Scope N_scope.

(* in_range + robust_change: from every state satisfying the representation invariant
   (in particular the initial one), for every sequence of BeginCriticalSection /
   NextFairnessCounter calls whatsoever (any ids, any positive bounds, any oracle values,
   any label changes, prefix-stable or not), every call returns normally a value below
   its bound.  (`ok_out` also says no call panics.) *)
Theorem in_range : forall ops s,
  Inv s -> Forall pos_op ops -> Forall2 ok_out ops (run s ops).
Proof. exact in_range_lemma. Qed.
Print Assumptions in_range.

Theorem in_range_from_init : forall ops,
  Forall pos_op ops -> Forall2 ok_out ops (run fc_init ops).
Proof. intros ops H. exact (in_range_lemma ops fc_init inv_init H). Qed.
Print Assumptions in_range_from_init.

(* robust_change, second half: a mismatch of id or bound at a consulted position drops
   that digit and everything deeper, and pushes one fresh digit. *)
Theorem robust_change_truncates : forall id c r s d,
  0 < c -> Inv s -> nth_error (fc_stack s) (fc_idx s) = Some d ->
  (d_id d <> id \/ d_ceil d <> c) ->
  fc_stack (fst (next_counter id c r s)) = firstn (fc_idx s) (fc_stack s) ++ [mkDigit id (r mod c) c].
Proof. exact mismatch_truncates. Qed.
Print Assumptions robust_change_truncates.

(* exhaustive: if the label's attempts consult the same choice points sig (the stack is
   exactly sig, any counts), then for every a the P = prod(bounds) consecutive attempts
   a+1 .. a+P return pairwise distinct tuples, and every tuple of the box occurs. *)
Theorem exhaustive : forall pc s a,
  fc_pc s = pc -> valid (fc_stack s) ->
  let sig := shape (fc_stack s) in
  let P := N.to_nat (prodsig sig) in
  let outs := map (fun k => nth_attempt_out pc sig (a + k) s) (seq 0 P) in
  NoDup outs /\ (forall t, in_box sig t -> In (map Ret t) outs).
Proof. exact exhaustive_lemma. Qed.
Print Assumptions exhaustive.

(* the hypothesis of `exhaustive` is established by entering the label and consulting sig
   once, whatever the oracle returns and whatever the previous state was *)
Theorem fresh_entry : forall pc sig rs s,
  fc_pc s <> pc -> Forall (fun p => 0 < snd p) sig ->
  let s' := fst (attempt pc sig rs s) in
  fc_pc s' = pc /\ shape (fc_stack s') = sig /\ valid (fc_stack s').
Proof. exact fresh_entry_lemma. Qed.
Print Assumptions fresh_entry.

(* after ANY attempt, from any state with a valid stack and whatever ids/bounds earlier attempts used, the stack
   starts with exactly the consulted choice points; deeper digits (rest) survive only if the label is unchanged and
   the old stack was a strict extension of what was consulted (stale digits of an earlier, longer attempt).  Hence
   as soon as an attempt leaves a stack as long as what it consulted, `exhaustive` applies to every later window of
   attempts consulting the same choice points: bound/identifier changes between attempts do not disturb it. *)
Theorem attempt_prefix : forall pc sig rs s,
  valid (fc_stack s) -> Forall (fun p => 0 < snd p) sig ->
  let s' := fst (attempt pc sig rs s) in
  fc_pc s' = pc /\ valid (fc_stack s') /\
  exists post rest, fc_stack s' = post ++ rest /\ shape post = sig /\
    (rest <> [] -> fc_pc s = pc /\ exists t, shape t = sig /\ List.length (fc_stack s) = List.length (t ++ rest)).
Proof. exact attempt_prefix_lemma. Qed.
Print Assumptions attempt_prefix.

Theorem exhaustive_after_change : forall pc sig rs s a,
  valid (fc_stack s) -> Forall (fun p => 0 < snd p) sig ->
  let s' := fst (attempt pc sig rs s) in
  List.length (fc_stack s') = List.length sig ->
  let P := N.to_nat (prodsig sig) in
  let outs := map (fun k => nth_attempt_out pc sig (a + k) s') (seq 0 P) in
  NoDup outs /\ (forall t, in_box sig t -> In (map Ret t) outs).
Proof.
  intros pc sig rs s a Hv Hpos s' Hlen.
  destruct (attempt_prefix_lemma pc sig rs s Hv Hpos) as (Hpc & Hv' & post & rest & Hst & Hsh & _).
  fold s' in Hpc, Hv', Hst.
  assert (rest = []) as Hr.
  { assert (List.length post = List.length sig) by (rewrite <- Hsh; unfold shape; now rewrite map_length).
    rewrite Hst, app_length in Hlen. destruct rest; [reflexivity | cbn in Hlen; lia]. }
  subst rest. rewrite app_nil_r in Hst.
  assert (shape (fc_stack s') = sig) as Hs' by (rewrite Hst; exact Hsh).
  rewrite <- Hs'. exact (exhaustive_lemma pc s' a Hpc Hv').
Qed.
Print Assumptions exhaustive_after_change.

(* bounded_wait: any given combination of choices is taken within P retries *)
Theorem bounded_wait : forall pc s a t,
  fc_pc s = pc -> valid (fc_stack s) -> in_box (shape (fc_stack s)) t ->
  exists k, (k < N.to_nat (prodsig (shape (fc_stack s))))%nat /\
            nth_attempt_out pc (shape (fc_stack s)) (a + k) s = map Ret t.
Proof.
  intros pc s a t Hpc Hv Ht.
  destruct (exhaustive_lemma pc s a Hpc Hv) as [_ Hcov].
  specialize (Hcov t Ht). apply in_map_iff in Hcov as (k & Hk & Hin).
  apply in_seq in Hin. exists k. split; [lia | exact Hk].
Qed.
Print Assumptions bounded_wait.

(* "tried exactly once": in the window of P consecutive attempts every combination of the box occurs at exactly one
   position (counting form of `exhaustive`, for any decision procedure of equality on outcome tuples) *)
Theorem each_combination_exactly_once : forall (dec : forall x y : list outcome, {x = y} + {x <> y}) pc s a t,
  fc_pc s = pc -> valid (fc_stack s) -> in_box (shape (fc_stack s)) t ->
  count_occ dec (map (fun k => nth_attempt_out pc (shape (fc_stack s)) (a + k) s)
                     (seq 0 (N.to_nat (prodsig (shape (fc_stack s)))))) (map Ret t) = 1%nat.
Proof.
  intros dec pc s a t Hpc Hv Ht.
  destruct (exhaustive_lemma pc s a Hpc Hv) as [Hnd Hcov].
  apply (proj1 (NoDup_count_occ' dec _) Hnd). apply Hcov. exact Ht.
Qed.
Print Assumptions each_combination_exactly_once.

(* non-vacuity: a concrete nested state meets the hypotheses, and the window is what the
   theorem says (depth 3, bounds 2,3,2) *)
Example c10_nonvacuous :
  let s := mkFc "lbl" [mkDigit "a" 1 2; mkDigit "b" 2 3; mkDigit "c" 0 2] 0 in
  fc_pc s = "lbl"%string /\ valid (fc_stack s) /\ Inv s /\
  List.length (nodup (list_eq_dec (fun x y : outcome => ltac:(decide equality; apply N.eq_dec)))
     (map (fun k => nth_attempt_out "lbl" (shape (fc_stack s)) (5 + k) s) (seq 0 12))) = 12%nat.
Proof.
  cbn zeta. split; [reflexivity|]. split; [repeat constructor|]. split; [split; [repeat constructor|cbn; lia]|].
  vm_compute. reflexivity.
Qed.
