(* C17 — Run/Stop/Close lifecycle. Theorems only; model C17/Model.v (tied to distsys/mpcalctx.go by ./check C17). *)
From PGV Require Import C17.Model C17.Proofs.

Theorem exec_compositional : forall v cfg l1 l2 s,
  exec v cfg s (l1 ++ l2) = match exec v cfg s l1 with Some s' => exec v cfg s' l2 | None => None end.
Proof. exact exec_app. Qed.
Print Assumptions exec_compositional.
