(* C17 — Run/Stop/Close lifecycle: stops cleanly, never deadlocks, closes once.
   Only the property theorems, each closed by `exact <lemma>` (or a two-line combination of lemmas), Print Assumptions
   beneath.  Model: C17/Model.v — a transition system in which ANY number n of goroutines call Stop and ANY number m
   call Run on one MPCalContext, every statement of Run/Stop/cleanupResources is one step, and an execution is ANY list
   of steps (every interleaving).  `repaired` is the code after the two fix: commits (Stop case 1a sets exitRequested;
   Run refuses a context that has already run); `pinned` is the code as it was.  The model is tied to
   distsys/mpcalctx.go by the phase-scripted correspondence check (./check C17).

   In all theorems: cfg is any configuration (any plan of attempts of any finite durations, ending in any way or never;
   any mix of leaf / HashMap / IncMap / Nested resources; any finite duration of every Close), n and m are any numbers
   of Stop and Run callers, s is any state reachable by any interleaving. *)
From PGV Require Import C17.Model C17.Proofs C17.Proofs2 C17.Proofs3 C17.Proofs4 C17.Proofs5.
From Coq Require Import Lia.

(* ---- run_at_most_once: however many goroutines call Run, at most one of them ever gets past the start-up check,
   i.e. the archetype's loop and the deferred cleanup are entered at most once in the life of the context *)
Theorem run_at_most_once : forall cfg n m s,
  reachable repaired cfg n m s -> entered s <= 1.
Proof.
  intros cfg n m s H. pose proof (inv1_reachable cfg n m s H) as I.
  destruct (started s) eqn:E; [destruct (iS1 s I E); lia|destruct (iS0 s I E) as (_ & _ & ?); lia].
Qed.
Print Assumptions run_at_most_once.

(* ---- no_double_close: awaitExit is closed at most once (a second close would panic); at every moment every closable
   thing (leaf resource, HashMap element, realised IncMap element, nested context) has been closed at most once;
   the IncMap has created at most one element per key *)
Theorem no_double_close : forall cfg n m s,
  reachable repaired cfg n m s ->
  awaitc s <= 1 /\ NoDup (closed s) /\ (forall x, count_occ inst_eq_dec (closed s) x <= 1) /\ NoDup (realised s).
Proof.
  intros cfg n m s H. pose proof (inv_reachable cfg n m s H) as I.
  split; [apply (iA1 s (proj1 I))|]. split; [apply (closed_nodup cfg s I)|].
  split; [intro x; apply count_occ_nodup_le; apply (closed_nodup cfg s I)|apply (jN cfg s (proj2 I))].
Qed.
Print Assumptions no_double_close.

(* ---- closed_exactly_once: when a started run has ended — for whatever reason: Done, Stop, assertion, Error label,
   resource error, panic — every configured resource and every element a map resource realised has been closed exactly
   once, and nothing else has been closed.  (Holds from the moment cleanupResources has returned.) *)
Theorem closed_exactly_once : forall cfg n m s x,
  reachable repaired cfg n m s -> runner s = RRet ->
  count_occ inst_eq_dec (closed s) x = if in_dec inst_eq_dec x (instances cfg (realised s)) then 1 else 0.
Proof.
  intros cfg n m s x H Hr. apply C17.Proofs5.closed_exactly_once; [eapply inv_reachable; exact H|].
  left. rewrite Hr. reflexivity.
Qed.
Print Assumptions closed_exactly_once.

(* ---- deadlock_free: as long as any call of Stop or Run is in flight (called, not yet returned), some in-flight
   goroutine can take a step — not counting "somebody new calls Stop/Run" as progress *)
Theorem deadlock_free : forall cfg n m s,
  reachable repaired cfg n m s -> inflight s = true -> can_step repaired cfg s = true.
Proof.
  intros cfg n m s H. apply deadlock_free_lemma. eapply inv1_reachable; exact H.
Qed.
Print Assumptions deadlock_free.

(* ---- lock_holder_never_blocked: whenever runStateLock is held, its holder can take a step (it is never blocked on the
   buffered send or anywhere else) — the repaired line is what makes this true *)
Theorem lock_holder_never_blocked : forall cfg n m s,
  reachable repaired cfg n m s -> lock s = true -> holder_can_step repaired cfg s = true.
Proof.
  intros cfg n m s H. apply lock_holder_lemma. eapply inv1_reachable; exact H.
Qed.
Print Assumptions lock_holder_never_blocked.

(* ---- stop_terminates, part 1: every step of every goroutine strictly decreases the measure mu, except the loop-head
   poll finding no request (which starts another attempt) *)
Theorem stop_terminates_measure : forall cfg n m s l s',
  reachable repaired cfg n m s -> step repaired cfg s l = Some s' ->
  poll_miss s l \/ mu cfg s' < mu cfg s.
Proof.
  intros cfg n m s l s' H. apply mu_step. eapply inv_reachable; exact H.
Qed.
Print Assumptions stop_terminates_measure.

(* ---- stop_terminates, part 2: a Stop call that has got past its request (it is unlocking, waiting on awaitExit, or has
   returned) has put an exit request in force (`leaving`) ... *)
Theorem stop_request_in_force : forall cfg n m s,
  reachable repaired cfg n m s -> 0 < cnt s SUnl + cnt s SWait + cnt s SRet -> leaving s.
Proof.
  intros cfg n m s H. apply past_request_leaving. eapply inv1_reachable; exact H.
Qed.
Print Assumptions stop_request_in_force.

(* ... and from then on EVERY execution — any scheduling, any further callers — has at most mu(s) steps, stays `leaving`,
   and by deadlock_free cannot stop while a call is in flight: so it ends with every Stop that was called returned *)
Theorem stop_terminates : forall cfg n m s ls s',
  reachable repaired cfg n m s -> leaving s -> exec repaired cfg s ls = Some s' ->
  List.length ls + mu cfg s' <= mu cfg s /\ leaving s'.
Proof.
  intros cfg n m s ls s' H Hl He.
  destruct (leaving_bounded cfg ls s s' (inv_reachable cfg n m s H) Hl He) as (H1 & H2 & _). auto.
Qed.
Print Assumptions stop_terminates.

Theorem quiescent_means_all_returned : forall cfg n m s,
  reachable repaired cfg n m s -> inflight s = false ->
  cnt s SIdle + cnt s SRet = n /\
  cnt s RIdle + cnt s RRefused + cnt s RNotStarted + b2n (rpc_beq (runner s) RRet) = m.
Proof.
  intros cfg n m s H. apply quiescent_all_returned. eapply cons_reachable; exact H.
Qed.
Print Assumptions quiescent_means_all_returned.

(* ---- stop_returns_after_the_end: when a Stop call has returned, either the started run has finished its cleanup
   (every closable closed, awaitExit closed), or the run has not started and never will *)
Theorem stop_returns_after_the_end : forall cfg n m s,
  reachable repaired cfg n m s -> 0 < cnt s SRet ->
  awaitc s = 1 /\
  ((r_after (runner s) = true /\ todo s = [] /\ rev (closed s) = instances cfg (realised s))
   \/ (started s = false /\ exitReq s = true /\ entered s = 0 /\ closed s = [])).
Proof.
  intros cfg n m s H. apply stop_returned_means. eapply inv_reachable; exact H.
Qed.
Print Assumptions stop_returns_after_the_end.

(* ---- no_commit_after_stop: once a Stop call has returned, no execution whatsoever commits another critical section
   or lets a run start *)
Theorem no_commit_after_stop : forall cfg n m s ls s',
  reachable repaired cfg n m s -> 0 < cnt s SRet -> exec repaired cfg s ls = Some s' ->
  commits s' = commits s /\ entered s' = entered s.
Proof.
  intros cfg n m s ls s' H Hr He. pose proof (inv_reachable cfg n m s H) as I.
  destruct (await_closed_exec cfg ls s s' I (iB s (proj1 I) Hr) He) as (_ & H1 & H2). auto.
Qed.
Print Assumptions no_commit_after_stop.

(* ---- outcomes_distinct: a started run that has returned reports exactly one result: the way it ended together with
   whether a Close failed; before that it reports nothing; and the reported class separates normal termination,
   assertion failure, Error label, resource error and panic *)
Theorem run_reports_once : forall cfg n m s,
  reachable repaired cfg n m s ->
  (runner s = RRet -> exists w, results s = [mkRes (Some w) (close_err cfg (closed s))]) /\
  (runner s <> RRet -> results s = []).
Proof.
  intros cfg n m s H. pose proof (inv_reachable cfg n m s H) as I.
  split; [apply (run_result cfg s I)|apply (no_result_before_end cfg s I)].
Qed.
Print Assumptions run_reports_once.

Theorem outcomes_distinct : forall w1 c1 w2 c2,
  class_of (mkRes (Some w1) c1) = class_of (mkRes (Some w2) c2) ->
  kind w1 = kind w2 /\ (w1 <> EPanic -> c1 = c2).
Proof. exact class_distinct. Qed.
Print Assumptions outcomes_distinct.

(* ---- nested_drained: a Nested resource's Close calls Stop once on each context inside and waits for its Run to return.
   For that inner context (one Run caller, started when the resource was built; one Stop caller, from Close) the theorems
   above give: once that Stop is past its request every execution is finite, it cannot get stuck while a call is in flight,
   and when nothing is in flight the Stop has returned, the Run call has ended (returned, or never started) and, if it
   ran, every resource of the inner context has been closed exactly once.  In the outer context the Nested resource is a
   closable whose Close takes that finite time (c_cdur). *)
Lemma reachable_exec : forall v cfg n m s ls s',
  reachable v cfg n m s -> exec v cfg s ls = Some s' -> reachable v cfg n m s'.
Proof.
  intros v cfg n m s ls s' [l0 H0] H. exists (l0 ++ ls). rewrite exec_app, H0. exact H.
Qed.

Theorem nested_drained : forall cfg s ls s' x,
  reachable repaired cfg 1 1 s -> leaving s -> exec repaired cfg s ls = Some s' ->
  List.length ls <= mu cfg s /\
  (inflight s' = true -> can_step repaired cfg s' = true) /\
  (inflight s' = false ->
     cnt s' SIdle + cnt s' SRet = 1 /\
     cnt s' RIdle + cnt s' RRefused + cnt s' RNotStarted + b2n (rpc_beq (runner s') RRet) = 1 /\
     (runner s' = RRet ->
      count_occ inst_eq_dec (closed s') x = if in_dec inst_eq_dec x (instances cfg (realised s')) then 1 else 0)).
Proof.
  intros cfg s ls s' x H Hl He.
  pose proof (reachable_exec _ _ _ _ _ _ _ H He) as H'.
  destruct (stop_terminates cfg 1 1 s ls s' H Hl He) as [Hb _].
  split; [lia|]. split; [apply (deadlock_free cfg 1 1 s' H')|].
  intros Hq. destruct (quiescent_means_all_returned cfg 1 1 s' H' Hq) as [Q1 Q2].
  split; [exact Q1|]. split; [exact Q2|]. intros Hr. apply (closed_exactly_once cfg 1 1 s' x H' Hr).
Qed.
Print Assumptions nested_drained.

(* ---- the code as pinned: the statement is false there, and the model says so.
   Two Stop calls overlapping a run that ends by a failed assertion deadlock (one blocked sending on the full buffer
   while holding runStateLock, one waiting for awaitExit, Run's deferred cleanup waiting for runStateLock); a second Run
   after the first has ended runs again, closes the resource twice and closes awaitExit twice.  Both replayed on the
   real code before the fix: commits (corpus/C17). *)
Theorem pinned_deadlocks :
  exists s, exec pinned cfg_assert (init 2 1) deadlock_trace = Some s /\
            inflight s = true /\ can_step pinned cfg_assert s = false /\
            cnt s SSend = 1 /\ cnt s SWait = 1 /\ runner s = RLock1 /\ lock s = true.
Proof. exact pinned_deadlocks_lemma. Qed.
Print Assumptions pinned_deadlocks.

Theorem pinned_runs_twice :
  exists s, exec pinned cfg_done (init 0 2) (one_run ++ second_run) = Some s /\
            entered s = 2 /\ closed s = [ILeaf 0; ILeaf 0] /\ awaitc s = 2.
Proof. exact pinned_runs_twice_lemma. Qed.
Print Assumptions pinned_runs_twice.

(* ---- non-vacuity: a concrete run with three Stops overlapping a slow cleanup (the schedule that deadlocks the pinned
   code) is reachable in the repaired model, ends with everything returned, and meets the hypotheses used above *)
Definition cfg_ex : config :=
  mkCfg (plan_of [mkAtt 1 WCommit [1; 2]; mkAtt 0 WAbort [2; 3]; mkAtt 2 WCommit []]) false [false; true] 2 true 1
        (fun x => match x with ILeaf _ => 2 | _ => 1 end) (fun x => match x with IInc 2 => true | _ => false end).
Definition sc_ex : script := mkScript 0 false 0 2 [(1, 1)] None 2 1 1.

Example c17_nonvacuous :
  let s := run_script repaired cfg_ex sc_ex in
  inflight s = false /\ cnt s SRet = 4 /\ cnt s RRefused = 1 /\ entered s = 1 /\ commits s = 1 /\
  realised s = [1; 2; 3] /\ List.length (closed s) = 8 /\ awaitc s = 1 /\
  map class_of (results s) = [8].
Proof. vm_compute. repeat split; reflexivity. Qed.

Example c17_leaving_reached :
  exists ls s, exec repaired cfg_assert (init 2 1) ls = Some s /\ cnt s SWait = 1 /\ leaving s /\ 0 < mu cfg_assert s.
Proof.
  exists [LC RIdle; LC RLock; LC RHold; LC RUnlGo; LR; LR; LC SIdle; LC SLock; LC SHold; LC SSet1a; LC SSend; LC SUnl].
  destruct (ex_of_check (exec repaired cfg_assert (init 2 1)
     [LC RIdle; LC RLock; LC RHold; LC RUnlGo; LR; LR; LC SIdle; LC SLock; LC SHold; LC SSet1a; LC SSend; LC SUnl])
     (fun s => (cnt s SWait =? 1) && exitReq s && (cnt s SSend =? 0) && (0 <? mu cfg_assert s))) as (s & Hs & Hc);
    [vm_compute; reflexivity|].
  exists s. split; [exact Hs|].
  repeat (apply Bool.andb_true_iff in Hc; destruct Hc as [Hc ?]).
  split; [apply Nat.eqb_eq; assumption|]. split; [left; split; [assumption|apply Nat.eqb_eq; assumption]|apply Nat.ltb_lt; assumption].
Qed.
