(* C01 — Critical sections are atomic across every resource they touch.
   Only the property theorems, each closed by `exact <lemma>`, Print Assumptions beneath, and
   non-vacuity examples.  Model: C01/Model.v (tied to distsys by ./check C01). *)
From PGV Require Import C01.Model C01.Proofs C01.ProofsInst.

(* ---------------------------------------------------------------------------------------------
   1. TRL — the transactional-resource laws — hold for every modelled resource kind
      (locals incl. indexed access, InputChan, CustomInChan, OutputChan, Dummy, file,
      Persistent over a local, PersistentLog, localShared, TCP mailbox, the CRDT resource (one
      node), the unreplicated 2PC variable (Commit needs the completed PreCommit: `leaf_prep`),
      the failure detector (read-only), and — w.r.t. the view published by committed sections,
      because their Abort panics — SingleOutputChan, relaxedMailboxesRemote and PlaceHolder), for
      IncMap/HashMap over them, for nestedArchetype over any lawful nested system, and are
      preserved by the family-with-dirty-set construction for ANY kind. *)
Theorem trl_leaf : laws leaf_impl leaf_abs.
Proof. exact leaf_laws. Qed.
Print Assumptions trl_leaf.

Theorem trl_incmap : laws imap_impl imap_abs.
Proof. exact imap_laws. Qed.
Print Assumptions trl_incmap.

(* nestedArchetype (the outer resource forwards every operation as a request to the nested system and takes its
   acknowledgement, "aborted" or silence) over ANY lawful nested system is lawful *)
Theorem trl_nested : forall (S O : Type) (I : impl S act) (X : absn S act O),
  laws I X -> laws (retarget_impl I nested_act (fun _ => false)) (retarget_abs X nested_act (fun _ => false)).
Proof. exact (@nested_laws_any). Qed.
Print Assumptions trl_nested.

Theorem trl_family : forall (K S A O : Type) (keqb : K -> K -> bool),
  (forall a b, keqb a b = true <-> a = b) ->
  forall (I : impl S A) (X : absn S A O), laws I X -> laws (fam_impl keqb I) (fam_abs keqb X).
Proof. exact (@fam_laws). Qed.
Print Assumptions trl_family.

(* ---------------------------------------------------------------------------------------------
   2. section_atomic, for ANY family of resources satisfying TRL, any body (finite interaction
      tree of reads/writes with index paths, awaits, asserts), any placement of refusals in the
      body (fl) and any set of failing PreCommits (pf):
        Committed     => every resource quiescent, dirty set empty, and the published view is
                         exactly the atomic execution of the body on the previous published view;
        Aborted       => every resource quiescent, dirty set empty, published view unchanged
                         (consumed inputs back in front, in order; unsent outputs gone);
        Crashed       => published view unchanged;
        AbortPanicked => published view unchanged and some touched resource refuses to abort. *)
Theorem section_atomic_any_family :
  forall (K S A O : Type) (keqb : K -> K -> bool),
  (forall a b, keqb a b = true <-> a = b) ->
  forall (I : impl S A) (X : absn S A O), laws I X ->
  forall (touch : A -> nat -> A) f p fl pf f' out,
    x_inv (fam_abs keqb X) f -> x_qui (fam_abs keqb X) f ->
    run_section keqb I touch f p fl pf = (f', out) ->
    section_post keqb I X f p f' out.
Proof. exact (@section_atomic_gen). Qed.
Print Assumptions section_atomic_any_family.

(* the MPCalContext over the modelled kinds *)
Theorem section_atomic : forall (c : ctx) p fl pf c' out,
  x_inv ctx_abs c -> x_qui ctx_abs c ->
  ctx_run_section c p fl pf = (c', out) -> ctx_post c p c' out.
Proof. exact ctx_section_atomic. Qed.
Print Assumptions section_atomic.

Theorem dirty_set_empty_afterwards : forall (c : ctx) p fl pf c' out,
  x_inv ctx_abs c -> x_qui ctx_abs c ->
  ctx_run_section c p fl pf = (c', out) -> out = Committed \/ out = Aborted -> fdirty c' = [].
Proof. exact ctx_dirty_empty. Qed.
Print Assumptions dirty_set_empty_afterwards.

(* 3. lifting over any list of sections with any faults: the committed ones act atomically and
      in order on the published view, all others leave no trace *)
Theorem sections_atomic : forall secs (c c' : ctx) outs,
  x_inv ctx_abs c -> x_qui ctx_abs c ->
  ctx_run_sections c secs = (c', outs) ->
  ctx_spec_sections (x_obs ctx_abs c) secs outs /\
  (Forall (fun o => o = Committed \/ o = Aborted) outs -> x_inv ctx_abs c' /\ x_qui ctx_abs c').
Proof. exact ctx_sections_atomic. Qed.
Print Assumptions sections_atomic.

(* 4. a section aborts only if the specification blocks (false await, empty queue, lock held
      elsewhere, peer down) or a refusal / PreCommit failure was injected *)
Theorem abort_only_if_blocked : forall (c : ctx) p fl pf c',
  x_inv ctx_abs c -> x_qui ctx_abs c ->
  no_faults fl -> (forall k, pf k = false) ->
  ctx_run_section c p fl pf = (c', Aborted) ->
  ctx_spec_run (x_obs ctx_abs c) p = Refuse.
Proof. exact ctx_abort_only_if_blocked. Qed.
Print Assumptions abort_only_if_blocked.

(* 5. the retry starts from exactly the state of the last commit: quiescent contexts with the
      same published view are indistinguishable by any later section *)
Theorem retry_starts_from_last_commit : forall (c d : ctx) p,
  x_inv ctx_abs c -> x_qui ctx_abs c -> x_inv ctx_abs d -> x_qui ctx_abs d ->
  x_oeq ctx_abs (x_obs ctx_abs c) (x_obs ctx_abs d) ->
  rres_eq String.eqb node_abs (ctx_spec_run (x_obs ctx_abs c) p) (ctx_spec_run (x_obs ctx_abs d) p).
Proof.
  intros c d p H1 H2 H3 H4 H5.
  exact (retry_same String.eqb str_eqb_eq node_impl node_abs node_laws c d p H1 H2 H3 H4 H5).
Qed.
Print Assumptions retry_starts_from_last_commit.

(* 6. contexts made of transactional kinds only (everything except SingleOutputChan and
      relaxedMailboxesRemote) never end an attempt in AbortPanicked: the statement holds for
      them unconditionally *)
Theorem transactional_kinds_never_panic : forall (c : ctx) p fl pf c' out,
  x_inv ctx_abs_tx c -> x_qui ctx_abs_tx c ->
  ctx_run_section c p fl pf = (c', out) -> out <> AbortPanicked.
Proof. exact ctx_tx_never_panics. Qed.
Print Assumptions transactional_kinds_never_panic.

(* on quiescent states the published view of the two non-transactional kinds is what their
   peer really holds *)
Theorem published_is_real_when_quiescent : forall s,
  leaf_inv s -> leaf_qui s -> leaf_real s = leaf_obs s.
Proof. exact leaf_real_qui. Qed.
Print Assumptions published_is_real_when_quiescent.

(* ---------------------------------------------------------------------------------------------
   7. The unconditional statement — after ANY failed attempt nothing the attempt did is visible
      to anybody, for EVERY resource kind — is false for SingleOutputChan and
      relaxedMailboxesRemote: they put the value on the wire inside WriteValue and panic in
      Abort (documented design of pgo; known finding). *)
Definition full_statement : Prop := full_statement_on (x_inv ctx_abs) (x_qui ctx_abs).

Theorem full_statement_refuted_single_output_chan : ~ full_statement.
Proof. exact full_refuted_sout. Qed.
Print Assumptions full_statement_refuted_single_output_chan.

Theorem full_statement_refuted_relaxed_mailbox : ~ full_statement.
Proof. exact full_refuted_relaxed. Qed.
Print Assumptions full_statement_refuted_relaxed_mailbox.

(* the same statement restricted to transactional kinds is a theorem *)
Theorem full_statement_transactional : full_statement_on (x_inv ctx_abs_tx) (x_qui ctx_abs_tx).
Proof. exact full_tx. Qed.
Print Assumptions full_statement_transactional.

(* ---------------------------------------------------------------------------------------------
   Non-vacuity: a context with a local, an input channel, an output channel and an IncMap of
   files; a section that reads the channel, writes all of them, and whose PreCommit is made to
   fail on the map: the hypotheses hold, the attempt aborts, and the retry (no fault) commits
   with all four effects. *)
Example c01_nonvacuous :
  x_inv ctx_abs ex_ctx /\ x_qui ctx_abs ex_ctx /\ x_inv ctx_abs_tx ex_ctx /\
  let q := [("x", []); ("out", []); ("fs", [VS "f"])]%string in
  run_attempts ex_ctx
    [mkAttempt [] ex_ops [] ["fs"%string] [];          (* PreCommit of the map fails: abort *)
     mkAttempt [] ex_ops [None; None; Some 1%nat] [] []; (* refusal inside the write to the map *)
     mkAttempt [] ex_ops [] [] []] q                    (* retry commits *)
  = [(1, [VT [VI 10; VD; VD; VD; VS "new"]; VR [(VS "a", VI 1); (VS "b", VI 2)]; VT []; VT [VT [VS "old"]]]);
     (1, [VT [VI 10; VD]; VR [(VS "a", VI 1); (VS "b", VI 2)]; VT []; VT [VT [VS "old"]]]);
     (0, [VT [VI 10; VD; VD; VD; VS "new"]; VR [(VS "a", VI 1); (VS "b", VI 10)]; VT [VI 5]; VT [VT [VS "new"]]])]%string.
Proof.
  split; [exact (proj1 ex_ctx_ok)|]. split; [reflexivity|]. split; [exact (proj1 ex_ctx_ok_tx)|].
  vm_compute. reflexivity.
Qed.
