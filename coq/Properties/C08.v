(* C08 — Generated Raft KV store keeps the Raft safety invariants.
   Only the property theorems, each closed by `exact <lemma>`, with Print Assumptions beneath.
   Model: C08/Model.v (typed transition system transcribed label by label from systems/raftkvs/raftkvs.tla = raftkvs.go;
   tied to the generated Go by the correspondence check, ./check C08).
   An execution is a list of events `evs` every one of which commits: `exec cfg (init cfg) evs = Some s`.
   cfg is arbitrary: any number of servers and clients, any buffer size, per-link FIFO or bag delivery (where a theorem
   needs FIFO it says so), ExploreFail on or off. Crashes, message loss, timeouts, failure-detector outputs are events. *)
From PGV Require Import C08.Model C08.Proofs1 C08.Proofs2 C08.Proofs3 C08.Proofs4 C08.Proofs5 C08.Proofs6.

(* ElectionSafety == \lnot (\E i, j \in ServerSet: i /= j /\ currentTerm[i] = currentTerm[j]
                                                     /\ state[i] = Leader /\ state[j] = Leader) *)
Theorem election_safety : forall cfg evs s,
  exec cfg (init cfg) evs = Some s ->
  ~ (exists i j, is_server cfg i = true /\ is_server cfg j = true /\ i <> j /\
                 s_term (srv s i) = s_term (srv s j) /\
                 s_role (srv s i) = Leader /\ s_role (srv s j) = Leader).
Proof. intros cfg evs s H. exact (election_safety_lemma cfg s (exec_reachable cfg evs s H)). Qed.
Print Assumptions election_safety.

(* LogMatching == \A i, j \in ServerSet: \A k \in 1..Min({Len(log[i]), Len(log[j])}):
                    log[i][k].term = log[j][k].term => SubSeq(log[i], 1, k) = SubSeq(log[j], 1, k)
   (holds for bag delivery as well: no hypothesis on cfg_fifo) *)
Theorem log_matching : forall cfg evs s,
  exec cfg (init cfg) evs = Some s ->
  forall i j k, is_server cfg i = true -> is_server cfg j = true ->
    1 <= k -> k <= Nat.min (List.length (s_log (srv s i))) (List.length (s_log (srv s j))) ->
    term_at (s_log (srv s i)) k = term_at (s_log (srv s j)) k ->
    firstn k (s_log (srv s i)) = firstn k (s_log (srv s j)).
Proof. intros cfg evs s H. exact (log_matching_lemma cfg s (exec_reachable cfg evs s H)). Qed.
Print Assumptions log_matching.

(* LeaderAppendOnly == [][\A i \in ServerSet: (state[i] = Leader /\ state'[i] = Leader)
                              => log[i] = SubSeq(log'[i], 1, Len(log[i]))]_vars      (every step of every execution) *)
Theorem leader_append_only : forall cfg evs s ev s' i,
  exec cfg (init cfg) evs = Some s -> step cfg s ev = Commit s' ->
  s_role (srv s i) = Leader -> s_role (srv s' i) = Leader ->
  s_log (srv s i) = firstn (List.length (s_log (srv s i))) (s_log (srv s' i)).
Proof. intros cfg evs s ev s' i _ H. exact (leader_append_only_step cfg s ev s' i H). Qed.
Print Assumptions leader_append_only.

(* currentTerm and commitIndex of every server never decrease along an execution *)
Theorem term_monotone : forall cfg evs1 evs2 s1 s2 i,
  exec cfg (init cfg) evs1 = Some s1 -> exec cfg s1 evs2 = Some s2 ->
  s_term (srv s1 i) <= s_term (srv s2 i).
Proof. intros cfg evs1 evs2 s1 s2 i _ H. exact (term_monotone_steps cfg s1 s2 i (exec_steps cfg s1 evs2 s2 H)). Qed.
Print Assumptions term_monotone.

Theorem commit_monotone : forall cfg evs1 evs2 s1 s2 i,
  exec cfg (init cfg) evs1 = Some s1 -> exec cfg s1 evs2 = Some s2 ->
  s_commit (srv s1 i) <= s_commit (srv s2 i).
Proof. intros cfg evs1 evs2 s1 s2 i _ H. exact (commit_monotone_steps cfg s1 s2 i (exec_steps cfg s1 evs2 s2 H)). Qed.
Print Assumptions commit_monotone.

(* LeaderCompleteness, as the property states it ("an entry committed in a term is in the log of every leader of a later term"),
   along every execution with per-link FIFO delivery: if at some point server i, being in term T, has idx within its commitIndex,
   then at that point and at every later point of the execution every Leader whose term is >= T holds the same entry at idx.
   (The invariant of the same name in raftkvs.tla compares with the term of the ENTRY instead and is false: see
   spec_leader_completeness_as_written_refuted below.) *)
Theorem leader_completeness : forall cfg evs1 evs2 s1 s2,
  cfg_fifo cfg = true ->
  exec cfg (init cfg) evs1 = Some s1 -> exec cfg s1 evs2 = Some s2 ->
  forall i j idx, is_server cfg i = true -> is_server cfg j = true ->
    1 <= idx -> idx <= s_commit (srv s1 i) ->
    s_role (srv s2 j) = Leader -> s_term (srv s1 i) <= s_term (srv s2 j) ->
    log_at (s_log (srv s2 j)) idx = log_at (s_log (srv s1 i)) idx /\ log_at (s_log (srv s1 i)) idx <> None.
Proof.
  intros cfg evs1 evs2 s1 s2 Hf H1 H2.
  exact (leader_completeness_lemma cfg s1 s2 Hf (exec_reachable cfg evs1 s1 H1) (exec_steps cfg s1 evs2 s2 H2)).
Qed.
Print Assumptions leader_completeness.

(* StateMachineSafety == \A i, j \in ServerSet: \A k \in 1..Min({commitIndex[i], commitIndex[j]}): log[i][k] = log[j][k]
   (and both entries exist) *)
Theorem state_machine_safety : forall cfg evs s,
  cfg_fifo cfg = true -> exec cfg (init cfg) evs = Some s ->
  forall i j k, is_server cfg i = true -> is_server cfg j = true ->
    1 <= k -> k <= Nat.min (s_commit (srv s i)) (s_commit (srv s j)) ->
    log_at (s_log (srv s i)) k = log_at (s_log (srv s j)) k /\ log_at (s_log (srv s i)) k <> None.
Proof. intros cfg evs s Hf H. exact (state_machine_safety_lemma cfg s Hf (exec_reachable cfg evs s H)). Qed.
Print Assumptions state_machine_safety.

(* ApplyLogOK == \A i, j \in ServerSet: commitIndex[i] = commitIndex[j] => sm[i] = sm[j] /\ smDomain[i] = smDomain[j] *)
Theorem apply_log_ok : forall cfg evs s,
  cfg_fifo cfg = true -> exec cfg (init cfg) evs = Some s ->
  forall i j, is_server cfg i = true -> is_server cfg j = true ->
    s_commit (srv s i) = s_commit (srv s j) ->
    s_sm (srv s i) = s_sm (srv s j) /\ s_smdom (srv s i) = s_smdom (srv s j).
Proof. intros cfg evs s Hf H. exact (apply_log_ok_lemma cfg s Hf (exec_reachable cfg evs s H)). Qed.
Print Assumptions apply_log_ok.

(* plogOK == \A i \in ServerSet: log[i] = plog[i] *)
Theorem plog_eq_log : forall cfg evs s, exec cfg (init cfg) evs = Some s -> forall i, s_plog (srv s i) = s_log (srv s i).
Proof. intros cfg evs s H. exact (plog_eq_log_lemma cfg s (exec_reachable cfg evs s H)). Qed.
Print Assumptions plog_eq_log.

(* ---------- non-vacuity: a concrete execution with two elections, a client request, replication and a commit ---------- *)
Definition ex_cfg := mkConfig 3 1 10 true true true.
Definition ex_evs : list event := [
 ERVTimeout 1 true 0; ERVSend 1 0 true; ERVSend 1 0 true; ERVSend 1 0 true; ERVSend 1 0 true;
 EServerLoop 2 0; EHandleMsg 2 0 true; EServerLoop 1 0; EHandleMsg 1 0 true; EBecomeLeader 1 0;
 EClientLoop 19 (mkReq CPut 1 1); EClientSnd 19 1 0 true; EServerLoop 1 0; EHandleMsg 1 0 true;
 ERVTimeout 2 true 0; ERVSend 2 0 true; ERVSend 2 0 true; ERVSend 2 0 true; ERVSend 2 0 true;
 EServerLoop 3 1; EHandleMsg 3 0 true; EServerLoop 2 0; EHandleMsg 2 0 true; EBecomeLeader 2 0;
 EServerLoop 1 0; EHandleMsg 1 0 true;
 ERVTimeout 1 true 0; ERVSend 1 0 true; ERVSend 1 0 true; ERVSend 1 0 true; ERVSend 1 0 true;
 EServerLoop 3 0; EHandleMsg 3 0 true; EServerLoop 3 0; EHandleMsg 3 0 true;
 EServerLoop 1 0; EHandleMsg 1 0 true; EServerLoop 1 0; EHandleMsg 1 0 true; EBecomeLeader 1 0;
 EClientTimeout 19 false 0 true; EClientSnd 19 1 0 true; EServerLoop 1 0; EHandleMsg 1 0 true;
 EAELoop 1 0; EAESend 1 0 true; EAESend 1 0 true; EAESend 1 0 true; EAESend 1 0 true;
 EServerLoop 3 0; EHandleMsg 3 0 true; EServerLoop 1 0; EHandleMsg 1 0 true;
 EAELoop 1 0; EAESend 1 0 true; EAESend 1 0 true; EAESend 1 0 true; EAESend 1 0 true;
 EServerLoop 3 0; EHandleMsg 3 0 true; EServerLoop 1 0; EHandleMsg 1 0 true;
 EAdvance 1; EApply 1; EApply 1 ].

(* the execution exists (all 65 events commit); it ends with leaders in terms 3 and 4, a 2-entry log committed at the
   leader of term 4 and replicated on server 3 *)
Example c08_nonvacuous :
  match exec ex_cfg (init ex_cfg) ex_evs with
  | Some s => map (fun i => (s_role (srv s i), s_term (srv s i), List.length (s_log (srv s i)), s_commit (srv s i))) [1; 2; 3]
              = [(Leader, 4, 2, 2); (Leader, 3, 0, 0); (Follower, 4, 2, 0)]
  | None => False
  end.
Proof. vm_compute. reflexivity. Qed.

(* ... and after one more round of AppendEntries server 3 also has commitIndex 2 and the same store: the hypotheses of
   state_machine_safety (k = 1, 2), apply_log_ok (commitIndex equal, non-empty store) and leader_completeness (committed index 2,
   leader of term 4) are met by a concrete execution *)
Definition ex_evs2 : list event :=
  ex_evs ++ [EAELoop 1 0; EAESend 1 0 true; EAESend 1 0 true; EAESend 1 0 true; EAESend 1 0 true; EServerLoop 3 0; EHandleMsg 3 0 true].
Example c08_nonvacuous2 :
  cfg_fifo ex_cfg = true /\
  match exec ex_cfg (init ex_cfg) ex_evs2 with
  | Some s => map (fun i => (s_role (srv s i), s_term (srv s i), List.length (s_log (srv s i)), s_commit (srv s i), s_sm (srv s i))) [1; 3]
              = [(Leader, 4, 2, 2, [(1, 1)]); (Follower, 4, 2, 2, [(1, 1)])]
  | None => False
  end.
Proof. split; [reflexivity|]. vm_compute. reflexivity. Qed.

(* The invariant LeaderCompleteness AS WRITTEN in raftkvs.tla compares the leader's term with the term of the ENTRY
   (log[i][logIdx].term) instead of the term in which the entry was committed; it is false in the state above
   (server 2 is still Leader of term 3 >= 2 = term of the entry committed at index 1 in term 4, with an empty log).
   This is a defect of the spec's formulation, not of the property C08 states ("an entry committed in a term is in the
   log of every leader of a LATER term"); replayed on the real generated Go by the check (corpus/C08/stale_leader.json). *)
Theorem spec_leader_completeness_as_written_refuted :
  exists evs s, exec ex_cfg (init ex_cfg) evs = Some s /\ leader_completeness_spec_b ex_cfg s = false.
Proof. exists ex_evs. eexists. split; [vm_compute; reflexivity | vm_compute; reflexivity]. Qed.
Print Assumptions spec_leader_completeness_as_written_refuted.

(* Under the spec's own network discipline (mapping macro ReliableFIFOLink reads ANY element of the bag) the invariants fail:
   AppendEntries accept truncates unconditionally (log := SubSeq(log, 1, prevLogIndex) \o mentries), so an older heartbeat
   delivered after a newer AppendEntries removes an acknowledged and committed entry, and the next leader lacks it.
   Outside the property's quantifier (per-link FIFO) and outside TLC's bounds in raftkvs.cfg (MaxTerm 3, MaxCommitIndex 2);
   replayed on the generated Go with the bag network by the check (corpus/C08/bag_reorder.json). *)
Definition bag_cfg := mkConfig 3 1 10 false true true.
Definition bag_evs : list event := [
 ERVTimeout 1 true 0; ERVSend 1 0 true; ERVSend 1 0 true; ERVSend 1 1 true; ERVSend 1 0 true; EServerLoop 2 0; EHandleMsg 2 0 true;
 EServerLoop 1 0; EHandleMsg 1 0 true; EBecomeLeader 1 0; EAELoop 1 0; EAESend 1 1 true; EAESend 1 0 true; EAESend 1 1 true;
 EAESend 1 0 true; EClientLoop 19 (mkReq CPut 1 1); EClientSnd 19 1 0 true; EServerLoop 1 0; EHandleMsg 1 0 true; EAELoop 1 0;
 EAESend 1 1 true; EAESend 1 0 true; EAESend 1 1 true; EAESend 1 0 true; EServerLoop 2 1; EHandleMsg 2 0 true; EServerLoop 1 0;
 EHandleMsg 1 0 true; EAdvance 1; EApply 1; EServerLoop 2 0; EHandleMsg 2 0 true; ERVTimeout 2 true 0; ERVSend 2 1 true;
 ERVSend 2 0 true; ERVSend 2 0 true; ERVSend 2 0 true; EServerLoop 3 0; EHandleMsg 3 0 true; EServerLoop 2 0; EHandleMsg 2 0 true;
 EBecomeLeader 2 0].
Theorem bag_network_refuted :
  exists evs s, cfg_fifo bag_cfg = false /\ exec bag_cfg (init bag_cfg) evs = Some s /\ leader_completeness_b bag_cfg s = false.
Proof. exists bag_evs. eexists. split; [reflexivity|]. split; vm_compute; reflexivity. Qed.
Print Assumptions bag_network_refuted.
