From PGV Require Import Base.Value C05.Model C05.Proofs.

Theorem Equal_default : Equal VDefault VDefault = true.
Proof. exact Equal_default_refl. Qed.
Print Assumptions Equal_default.
