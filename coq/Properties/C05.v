(* C05 — Value equality, hashing, printing and wire encoding are coherent.
   Only the property theorems (each closed by `exact <lemma>`), Print Assumptions, and
   non-vacuity Examples.  Model: C05/Model.v (tied to distsys/tla/value.go, vclock.go and
   distsys/hashmap/hashmap.go by the correspondence check, ./check C05). *)
From PGV Require Import Base.Value Base.ValueFacts C05.Model C05.Proofs C05.ProofsPrint.
Open Scope N_scope.

(* (1) Equality is exactly equality of the denoted TLA+ values: for every two representations
   (any nesting depth, any iteration order of sets and functions) that the builders can
   produce, a.Equal(b) holds iff both denote the same canonical value.  Reflexivity,
   symmetry, transitivity and independence of construction order are corollaries. *)
Theorem Equal_spec : forall a b, rep_ok a -> rep_ok b ->
  (Equal a b = true <-> canon a = canon b).
Proof. exact Equal_spec_lemma. Qed.
Print Assumptions Equal_spec.

Theorem Equal_equivalence :
  (forall a, rep_ok a -> Equal a a = true) /\
  (forall a b, rep_ok a -> rep_ok b -> Equal a b = Equal b a) /\
  (forall a b c, rep_ok a -> rep_ok b -> rep_ok c ->
     Equal a b = true -> Equal b c = true -> Equal a c = true).
Proof. exact (conj Equal_refl (conj Equal_sym Equal_trans)). Qed.
Print Assumptions Equal_equivalence.

(* the invariant is decided by the runtime's own equality: no two Equal members in a set /
   no two Equal keys in a function, recursively *)
Theorem rep_ok_decided : forall v, rep_okb v = true <-> rep_ok v.
Proof. exact rep_okb_spec. Qed.
Print Assumptions rep_ok_decided.

(* (2) Equal values hash equally (fnv1a bit-exact, XOR-combined for sets and functions,
   sequential for tuples). With (1) this is the lawfulness of tla.ValueHasher that
   immutable.Map needs for set membership and function lookup. *)
Theorem Hash_Equal : forall a b, rep_ok a -> rep_ok b -> Equal a b = true -> Hash a = Hash b.
Proof. exact Hash_Equal_lemma. Qed.
Print Assumptions Hash_Equal.

(* (3) hashmap.HashMap: every sequence of Set / Clear operations with keys that are proper
   representations behaves as an association map keyed by the denoted value; Keys() lists each
   key once, in first-insertion order. *)
Theorem hashmap_refines : forall (V : Type) (ops : list (hop V)),
  Forall hop_ok ops ->
  (forall k, rep_ok k -> hm_get (hm_run ops) k = amap_get (amap_run ops) (canon k)) /\
  map canon (hm_keys (hm_run ops)) = map fst (amap_run ops) /\
  NoDup (map fst (amap_run ops)).
Proof. exact (@hashmap_refines_lemma). Qed.
Print Assumptions hashmap_refines.

(* causal (vector-clock) wrapping is transparent for equality and hashing, at every depth *)
Theorem EqualC_transparent : forall a b, EqualC a b = Equal (strip a) (strip b).
Proof. exact EqualC_transparent_lemma. Qed.
Print Assumptions EqualC_transparent.

Theorem HashC_transparent : forall c, HashC c = Hash (strip c).
Proof. exact HashC_transparent_lemma. Qed.
Print Assumptions HashC_transparent.

(* the constructors establish the invariant and denote the set of their arguments *)
Theorem MakeSet_establishes_rep_ok : forall xs, (forall y, In y xs -> rep_ok y) ->
  rep_ok (MakeSet xs) /\ canon (MakeSet xs) = canon (VSet xs).
Proof. exact MakeSet_ok. Qed.
Print Assumptions MakeSet_establishes_rep_ok.

(* (4) gob: a value (with causal wrappers and their vector clocks at any depth) written by a gob
   encoder and read back by a gob decoder is the same value: Equal, same denotation, same clocks.
   encoding/gob itself is the hypothesis de (ser l) = Some l about an abstract byte type: what an
   Encoder wrote (a sequence of interface values of registered types, GobEncoder byte slices,
   RecordField structs, ints), a Decoder reads back. *)
Theorem gob_roundtrip :
  forall (bytes : Type) (ser : list (@gitem bytes) -> bytes) (de : bytes -> option (list (@gitem bytes))),
  (forall l, de (ser l) = Some l) ->
  forall c, cokb c = true ->
  exists c', dec_value de (cdepth c) (enc_value ser c) = Some c' /\ c' = c /\
             canon (strip c') = canon (strip c) /\ EqualC c c' = Equal (strip c) (strip c).
Proof. exact (@gob_roundtrip_lemma). Qed.
Print Assumptions gob_roundtrip.

Theorem cok_rep_ok : forall c, cokb c = true -> rep_ok (strip c).
Proof. intros c H. apply rep_okb_spec, cokb_rep_ok, H. Qed.
Print Assumptions cok_rep_ok.

(* (5) String(): the printed form of every value, read as a TLA+ constant expression by the lexer and
   recursive-descent parser of C05/Model.v, is exactly that value — at byte level, for every nesting
   depth and every string (quotes and backslashes escaped as strconv.Quote does on printable ASCII;
   bytes outside printable ASCII are outside the model of Quote, see notes).
   Proof: the byte printer is the rendering of the token printer (print_is_rendered_tokens); the
   parser inverts the token printer (parse_print_tokens); the lexer inverts the rendering of every
   token sequence in which a number is never directly followed by a number (decimal numerals,
   escaped strings, keywords with pairwise different first bytes), which the printer's are. *)
Theorem print_is_rendered_tokens : forall v, print v = render (print_tokens v).
Proof. exact print_render. Qed.
Print Assumptions print_is_rendered_tokens.

Theorem parse_print_tokens : forall v, parse_tokens (print_tokens v) = Some v.
Proof. exact parse_print_tokens_lemma. Qed.
Print Assumptions parse_print_tokens.

Theorem lexer_inverts_render : forall ts f, wsep ts -> (List.length ts < f)%nat -> lex f (render ts) = Some ts.
Proof. exact lex_render. Qed.
Print Assumptions lexer_inverts_render.

Theorem print_parse : forall v, parse (print v) = Some v.
Proof. exact print_parse_lemma. Qed.
Print Assumptions print_parse.

Theorem print_parse_statement :
  forall v, printable_val v = true -> exists v', parse (print v) = Some v' /\ canon v' = canon v.
Proof. intros v _. exists v. split; [exact (print_parse_lemma v)|reflexivity]. Qed.
Print Assumptions print_parse_statement.

(* ---- non-vacuity ---- *)
Definition ex_a : value :=
  VSet [VFun [(VStr [107], VTup [VNum 1; VDefault]); (VStr [118], VSet [VNum 2; VNum 3])];
        VTup []; VNum (-7)].
Definition ex_b : value :=
  VSet [VNum (-7);
        VFun [(VStr [118], VSet [VNum 3; VNum 2]); (VStr [107], VTup [VNum 1; VDefault])];
        VTup []].

Example c05_nonvacuous :
  rep_ok ex_a /\ rep_ok ex_b /\ ex_a <> ex_b /\ Equal ex_a ex_b = true /\ canon ex_a = canon ex_b
  /\ Hash ex_a = Hash ex_b /\ Hash ex_a = 2892818778.
Proof.
  split; [apply rep_okb_spec; vm_compute; reflexivity|].
  split; [apply rep_okb_spec; vm_compute; reflexivity|].
  split; [discriminate|]. repeat split; vm_compute; reflexivity.
Qed.

Example c05_hashmap_nonvacuous :
  let ops := [HSet ex_a 1%Z; HSet (VNum 5) 2%Z; HSet ex_b 3%Z; HClear; HSet ex_b 4%Z; HSet ex_a 5%Z] in
  Forall hop_ok ops /\ hm_get (hm_run ops) ex_a = Some 5%Z /\ List.length (hm_keys (hm_run ops)) = 1%nat.
Proof.
  cbn zeta. split.
  - repeat (apply Forall_cons; [first [exact I | apply rep_okb_spec; vm_compute; reflexivity]|]). apply Forall_nil.
  - split; vm_compute; reflexivity.
Qed.

Example c05_wrapped_nonvacuous :
  let w := CWrap [(CTup [CStr [65]; CNum 1], 2%Z)] CDefault in
  EqualC w w = true /\ EqualC w CDefault = true /\ EqualC CDefault w = true /\
  EqualC (CTup [w]) (CTup [CDefault]) = true /\ HashC w = 0.
Proof. vm_compute. repeat split. Qed.

Example c05_gob_nonvacuous :
  let w := CSet [CWrap [(CTup [CStr [65]; CNum 1], 2%Z); (CTup [CStr [66]; CStr [120]], 1%Z)] (CTup [CDefault; CNum 7]);
                 CFun [(CStr [107], CWrap [] (CSet [CNum 1; CNum 2]))]] in
  cokb w = true /\ cdepth w = 5%nat.
Proof. vm_compute. split; reflexivity. Qed.

Example c05_print_nonvacuous :
  parse (print ex_a) = Some ex_a /\ lex (S (List.length (print ex_a))) (print ex_a) = Some (print_tokens ex_a) /\
  printable_val ex_a = true.
Proof. vm_compute. repeat split. Qed.
