(* C05 — Value equality, hashing, printing and wire encoding are coherent.
   Only the property theorems (each closed by `exact <lemma>`), Print Assumptions, and
   non-vacuity Examples.  Model: C05/Model.v (tied to distsys/tla/value.go, vclock.go and
   distsys/hashmap/hashmap.go by the correspondence check, ./check C05). *)
From PGV Require Import Base.Value Base.ValueFacts C05.Model C05.Proofs.
Open Scope N_scope.

(* (1) Equality is exactly equality of the denoted TLA+ values: for every two representations
   (any nesting depth, any iteration order of sets and functions) that the builders can
   produce, a.Equal(b) holds iff both denote the same canonical value.  Reflexivity,
   symmetry, transitivity and independence of construction order are corollaries. *)
Theorem Equal_spec : forall a b, rep_ok a -> rep_ok b ->
  (Equal a b = true <-> canon a = canon b).
Proof. exact Equal_spec_lemma. Qed.
Print Assumptions Equal_spec.

Theorem Equal_equivalence :
  (forall a, rep_ok a -> Equal a a = true) /\
  (forall a b, rep_ok a -> rep_ok b -> Equal a b = Equal b a) /\
  (forall a b c, rep_ok a -> rep_ok b -> rep_ok c ->
     Equal a b = true -> Equal b c = true -> Equal a c = true).
Proof. exact (conj Equal_refl (conj Equal_sym Equal_trans)). Qed.
Print Assumptions Equal_equivalence.

(* the invariant is decided by the runtime's own equality: no two Equal members in a set /
   no two Equal keys in a function, recursively *)
Theorem rep_ok_decided : forall v, rep_okb v = true <-> rep_ok v.
Proof. exact rep_okb_spec. Qed.
Print Assumptions rep_ok_decided.

(* (2) Equal values hash equally (fnv1a bit-exact, XOR-combined for sets and functions,
   sequential for tuples). With (1) this is the lawfulness of tla.ValueHasher that
   immutable.Map needs for set membership and function lookup. *)
Theorem Hash_Equal : forall a b, rep_ok a -> rep_ok b -> Equal a b = true -> Hash a = Hash b.
Proof. exact Hash_Equal_lemma. Qed.
Print Assumptions Hash_Equal.

(* (3) hashmap.HashMap: every sequence of Set / Clear operations with keys that are proper
   representations behaves as an association map keyed by the denoted value; Keys() lists each
   key once, in first-insertion order. *)
Theorem hashmap_refines : forall (V : Type) (ops : list (hop V)),
  Forall hop_ok ops ->
  (forall k, rep_ok k -> hm_get (hm_run ops) k = amap_get (amap_run ops) (canon k)) /\
  map canon (hm_keys (hm_run ops)) = map fst (amap_run ops) /\
  NoDup (map fst (amap_run ops)).
Proof. exact (@hashmap_refines_lemma). Qed.
Print Assumptions hashmap_refines.

(* causal (vector-clock) wrapping is transparent for equality and hashing, at every depth *)
Theorem EqualC_transparent : forall a b, EqualC a b = Equal (strip a) (strip b).
Proof. exact EqualC_transparent_lemma. Qed.
Print Assumptions EqualC_transparent.

Theorem HashC_transparent : forall c, HashC c = Hash (strip c).
Proof. exact HashC_transparent_lemma. Qed.
Print Assumptions HashC_transparent.

(* ---- non-vacuity ---- *)
Definition ex_a : value :=
  VSet [VFun [(VStr [107], VTup [VNum 1; VDefault]); (VStr [118], VSet [VNum 2; VNum 3])];
        VTup []; VNum (-7)].
Definition ex_b : value :=
  VSet [VNum (-7);
        VFun [(VStr [118], VSet [VNum 3; VNum 2]); (VStr [107], VTup [VNum 1; VDefault])];
        VTup []].

Example c05_nonvacuous :
  rep_ok ex_a /\ rep_ok ex_b /\ ex_a <> ex_b /\ Equal ex_a ex_b = true /\ canon ex_a = canon ex_b
  /\ Hash ex_a = Hash ex_b /\ Hash ex_a = 2892818778.
Proof.
  split; [apply rep_okb_spec; vm_compute; reflexivity|].
  split; [apply rep_okb_spec; vm_compute; reflexivity|].
  split; [discriminate|]. repeat split; vm_compute; reflexivity.
Qed.

Example c05_hashmap_nonvacuous :
  let ops := [HSet ex_a 1%Z; HSet (VNum 5) 2%Z; HSet ex_b 3%Z; HClear; HSet ex_b 4%Z; HSet ex_a 5%Z] in
  Forall hop_ok ops /\ hm_get (hm_run ops) ex_a = Some 5%Z /\ List.length (hm_keys (hm_run ops)) = 1%nat.
Proof.
  cbn zeta. split.
  - repeat (apply Forall_cons; [first [exact I | apply rep_okb_spec; vm_compute; reflexivity]|]). apply Forall_nil.
  - split; vm_compute; reflexivity.
Qed.

Example c05_wrapped_nonvacuous :
  let w := CWrap [(CTup [CStr [65]; CNum 1], 2%Z)] CDefault in
  EqualC w w = true /\ EqualC w CDefault = true /\ EqualC CDefault w = true /\
  EqualC (CTup [w]) (CTup [CDefault]) = true /\ HashC w = 0.
Proof. vm_compute. repeat split. Qed.
