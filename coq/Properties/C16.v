(* C16 — The other generated systems keep their specs' safety invariants.
   Only the property theorems, each closed by `exact <lemma>`, with Print Assumptions beneath.
   One typed model per system under coq/C16/ (label by label from the PlusCal translation of the system's
   .tla), tied to the generated Go by the step-level correspondence check (./check C16).
   `exec … evs` is the state after the event list evs; quantifying over evs is quantifying over every
   interleaving and every resolution of the spec's nondeterminism. *)
From PGV Require C16.Dqueue C16.DqueueProofs.
From Coq Require Import List Arith.
Import ListNotations.

(* ================================================================== dqueue *)
Module Dq := PGV.C16.Dqueue.
Module DqP := PGV.C16.DqueueProofs.

(* no buffer exceeds its bound:  Len(network[i]) <= BUFFER_SIZE, for every NUM_CONSUMERS and BUFFER_SIZE *)
Theorem dqueue_buffer_bound : forall NC B evs i, List.length (Dq.net (Dq.exec NC B evs) i) <= B.
Proof. intros NC B evs. exact (DqP.buffer_bound_lemma NC B _ (DqP.exec_reachable NC B evs)). Qed.
Print Assumptions dqueue_buffer_bound.

(* each produced item is handed to exactly one consumer, the one whose request it answers, exactly once, in
   production order: per consumer, indices sent = indices consumed ++ indices in its mailbox; indices are
   pairwise distinct; a consumed index was sent to that consumer; no index is consumed by two consumers *)
Theorem dqueue_exactly_once_in_order : forall NC B evs,
  let s := Dq.exec NC B evs in
  (forall c, c >= 1 -> DqP.sent_to s c = Dq.got s c ++ map snd (Dq.net s c)) /\
  NoDup (map snd (Dq.sent s)) /\
  (forall c, c >= 1 -> NoDup (Dq.got s c)) /\
  (forall c k, c >= 1 -> In k (Dq.got s c) -> In (c, k) (Dq.sent s)) /\
  (forall c d k, c >= 1 -> d >= 1 -> In k (Dq.got s c) -> In k (Dq.got s d) -> c = d).
Proof. intros NC B evs. exact (DqP.exactly_once_in_order_lemma NC B _ (DqP.exec_reachable NC B evs)). Qed.
Print Assumptions dqueue_exactly_once_in_order.

(* the k-th produced item goes to the sender of the k-th request the producer received *)
Theorem dqueue_served_in_request_order : forall NC B evs,
  let s := Dq.exec NC B evs in
  Dq.reqs s = map fst (Dq.sent s) ++ DqP.pendR s /\ map snd (Dq.sent s) = seq 0 (List.length (Dq.sent s)).
Proof. intros NC B evs. exact (DqP.served_in_request_order_lemma NC B _ (DqP.exec_reachable NC B evs)). Qed.
Print Assumptions dqueue_served_in_request_order.

(* an item is in flight only to a consumer that is waiting for it (label c2), one at a time *)
Theorem dqueue_delivered_to_requesting : forall NC B evs c, c >= 1 ->
  let s := Dq.exec NC B evs in
  List.length (Dq.net s c) <= 1 /\ (Dq.net s c <> [] -> Dq.cpc_ s c = Dq.C2 /\ c <= NC).
Proof. intros NC B evs c Hc. exact (DqP.delivered_to_requesting_lemma NC B _ (DqP.exec_reachable NC B evs) c Hc). Qed.
Print Assumptions dqueue_delivered_to_requesting.

(* the item with production index k carries the k-th value of the cyclic stream *)
Theorem dqueue_item_values : forall NC B evs c v k, c >= 1 ->
  In (v, k) (Dq.net (Dq.exec NC B evs) c) -> v = (k + 1) mod B.
Proof. intros NC B evs. exact (DqP.item_values_lemma NC B _ (DqP.exec_reachable NC B evs)). Qed.
Print Assumptions dqueue_item_values.

(* no action is ill-typed (network[requester] with requester = defaultInitValue, x % 0): assertion-freedom *)
Theorem dqueue_type_safe : forall NC B evs p, Dq.step NC B (Dq.exec NC B evs) p <> Dq.TypeError.
Proof. intros NC B evs p. exact (DqP.type_safe_lemma NC B _ p (DqP.exec_reachable NC B evs)). Qed.
Print Assumptions dqueue_type_safe.

Theorem dqueue_invariant : forall NC B evs, DqP.Inv NC B (Dq.exec NC B evs).
Proof. intros NC B evs. exact (DqP.inv_reachable NC B _ (DqP.exec_reachable NC B evs)). Qed.
Print Assumptions dqueue_invariant.

(* non-vacuity: two consumers, buffer 2; consumer 2's request reaches the producer first; both are served *)
Example dqueue_nonvacuous :
  let s := Dq.exec 2 2 [2; 2; 1; 1; 0; 0; 0; 0; 0; 0; 2; 1] in
  Dq.reqs s = [2; 1] /\ Dq.sent s = [(2, 0); (1, 1)] /\ Dq.got s 2 = [0] /\ Dq.got s 1 = [1] /\ Dq.processor s = 0 /\ Dq.stream s = 0.
Proof. vm_compute. repeat split; reflexivity. Qed.
