(* C16 — The other generated systems keep their specs' safety invariants.
   Only the property theorems, each closed by `exact <lemma>`, with Print Assumptions beneath.
   One typed model per system under coq/C16/ (label by label from the PlusCal translation of the system's
   .tla), tied to the generated Go by the step-level correspondence check (./check C16).
   `exec … evs` is the state after the event list evs; quantifying over evs is quantifying over every
   interleaving and every resolution of the spec's nondeterminism. *)
From PGV Require C16.Dqueue C16.DqueueProofs.
From Coq Require Import List Arith.
Import ListNotations.

(* ================================================================== dqueue *)
Module Dq := PGV.C16.Dqueue.
Module DqP := PGV.C16.DqueueProofs.

(* no buffer exceeds its bound:  Len(network[i]) <= BUFFER_SIZE, for every NUM_CONSUMERS and BUFFER_SIZE *)
Theorem dqueue_buffer_bound : forall NC B evs i, List.length (Dq.net (Dq.exec NC B evs) i) <= B.
Proof. intros NC B evs. exact (DqP.buffer_bound_lemma NC B _ (DqP.exec_reachable NC B evs)). Qed.
Print Assumptions dqueue_buffer_bound.

(* each produced item is handed to exactly one consumer, the one whose request it answers, exactly once, in
   production order: per consumer, indices sent = indices consumed ++ indices in its mailbox; indices are
   pairwise distinct; a consumed index was sent to that consumer; no index is consumed by two consumers *)
Theorem dqueue_exactly_once_in_order : forall NC B evs,
  let s := Dq.exec NC B evs in
  (forall c, c >= 1 -> DqP.sent_to s c = Dq.got s c ++ map snd (Dq.net s c)) /\
  NoDup (map snd (Dq.sent s)) /\
  (forall c, c >= 1 -> NoDup (Dq.got s c)) /\
  (forall c k, c >= 1 -> In k (Dq.got s c) -> In (c, k) (Dq.sent s)) /\
  (forall c d k, c >= 1 -> d >= 1 -> In k (Dq.got s c) -> In k (Dq.got s d) -> c = d).
Proof. intros NC B evs. exact (DqP.exactly_once_in_order_lemma NC B _ (DqP.exec_reachable NC B evs)). Qed.
Print Assumptions dqueue_exactly_once_in_order.

(* the k-th produced item goes to the sender of the k-th request the producer received *)
Theorem dqueue_served_in_request_order : forall NC B evs,
  let s := Dq.exec NC B evs in
  Dq.reqs s = map fst (Dq.sent s) ++ DqP.pendR s /\ map snd (Dq.sent s) = seq 0 (List.length (Dq.sent s)).
Proof. intros NC B evs. exact (DqP.served_in_request_order_lemma NC B _ (DqP.exec_reachable NC B evs)). Qed.
Print Assumptions dqueue_served_in_request_order.

(* an item is in flight only to a consumer that is waiting for it (label c2), one at a time *)
Theorem dqueue_delivered_to_requesting : forall NC B evs c, c >= 1 ->
  let s := Dq.exec NC B evs in
  List.length (Dq.net s c) <= 1 /\ (Dq.net s c <> [] -> Dq.cpc_ s c = Dq.C2 /\ c <= NC).
Proof. intros NC B evs c Hc. exact (DqP.delivered_to_requesting_lemma NC B _ (DqP.exec_reachable NC B evs) c Hc). Qed.
Print Assumptions dqueue_delivered_to_requesting.

(* the item with production index k carries the k-th value of the cyclic stream *)
Theorem dqueue_item_values : forall NC B evs c v k, c >= 1 ->
  In (v, k) (Dq.net (Dq.exec NC B evs) c) -> v = (k + 1) mod B.
Proof. intros NC B evs. exact (DqP.item_values_lemma NC B _ (DqP.exec_reachable NC B evs)). Qed.
Print Assumptions dqueue_item_values.

(* no action is ill-typed (network[requester] with requester = defaultInitValue, x % 0): assertion-freedom *)
Theorem dqueue_type_safe : forall NC B evs p, Dq.step NC B (Dq.exec NC B evs) p <> Dq.TypeError.
Proof. intros NC B evs p. exact (DqP.type_safe_lemma NC B _ p (DqP.exec_reachable NC B evs)). Qed.
Print Assumptions dqueue_type_safe.

Theorem dqueue_invariant : forall NC B evs, DqP.Inv NC B (Dq.exec NC B evs).
Proof. intros NC B evs. exact (DqP.inv_reachable NC B _ (DqP.exec_reachable NC B evs)). Qed.
Print Assumptions dqueue_invariant.

(* non-vacuity: two consumers, buffer 2; consumer 2's request reaches the producer first; both are served *)
Example dqueue_nonvacuous :
  let s := Dq.exec 2 2 [2; 2; 1; 1; 0; 0; 0; 0; 0; 0; 2; 1] in
  Dq.reqs s = [2; 1] /\ Dq.sent s = [(2, 0); (1, 1)] /\ Dq.got s 2 = [0] /\ Dq.got s 1 = [1] /\ Dq.processor s = 0 /\ Dq.stream s = 0.
Proof. vm_compute. repeat split; reflexivity. Qed.

(* ================================================================== shcounter *)
(* assumption: cntr is one atomic variable (what C11 establishes for the 2PC-backed resource) *)
From PGV Require C16.Shcounter C16.ShcounterProofs.
Module Sh := PGV.C16.Shcounter.
Module ShP := PGV.C16.ShcounterProofs.

(* the counter is exactly the number of nodes that have passed `update` *)
Theorem shcounter_counts : forall N evs,
  Sh.cntr (Sh.exec N evs) = ShP.count (Sh.pc (Sh.exec N evs)) 1 N.
Proof. intros N evs. exact (ShP.i_count _ _ (ShP.inv_reachable _ _ (ShP.exec_reachable N evs))). Qed.
Print Assumptions shcounter_counts.

Theorem shcounter_never_exceeds : forall N evs, Sh.cntr (Sh.exec N evs) <= N.
Proof. intros N evs. exact (ShP.never_exceeds_lemma N _ (ShP.exec_reachable N evs)). Qed.
Print Assumptions shcounter_never_exceeds.

(* the counter never decreases: along any continuation evs2 of any execution evs1 *)
Theorem shcounter_monotone : forall N evs1 evs2,
  Sh.cntr (Sh.exec N evs1) <= Sh.cntr (Sh.run N (Sh.exec N evs1) evs2).
Proof. intros N evs1 evs2. exact (ShP.monotone_lemma N evs2 (Sh.exec N evs1)). Qed.
Print Assumptions shcounter_monotone.

(* it ends at exactly NUM_NODES: whenever a node has passed `wait` (in particular at termination) cntr = NUM_NODES *)
Theorem shcounter_ends_at_num_nodes : forall N evs p,
  Sh.pc (Sh.exec N evs) p = Sh.Done -> Sh.cntr (Sh.exec N evs) = N.
Proof. intros N evs p. exact (ShP.ends_at_N_lemma N _ p (ShP.exec_reachable N evs)). Qed.
Print Assumptions shcounter_ends_at_num_nodes.

(* and stays there (the safety half of CntrValueOK == <>[](cntr = NUM_NODES)) *)
Theorem shcounter_stable : forall N evs1 evs2,
  Sh.cntr (Sh.exec N evs1) = N -> Sh.cntr (Sh.run N (Sh.exec N evs1) evs2) = N.
Proof. intros N evs1 evs2. exact (ShP.stable_lemma N _ evs2 (ShP.exec_reachable N evs1)). Qed.
Print Assumptions shcounter_stable.

(* bounded progress: from any reachable state, one step of every node reaches NUM_NODES *)
Theorem shcounter_can_finish : forall N evs, Sh.cntr (Sh.run N (Sh.exec N evs) (seq 1 N)) = N.
Proof. intros N evs. exact (ShP.can_finish_lemma N _ (ShP.exec_reachable N evs)). Qed.
Print Assumptions shcounter_can_finish.

Example shcounter_nonvacuous :
  Sh.cntr (Sh.exec 3 [2; 2; 1; 3; 2]) = 3 /\ Sh.pc (Sh.exec 3 [2; 2; 1; 3; 2]) 2 = Sh.Done /\
  Sh.out_code (Sh.step 3 (Sh.exec 3 [2]) 2) = 1.
Proof. vm_compute. repeat split; reflexivity. Qed.

(* ================================================================== loadbalancer *)
From PGV Require C16.LoadBalancer C16.LoadBalancerProofs C16.LoadBalancerProofs2.
Module Lb := PGV.C16.LoadBalancer.
Module LbP := PGV.C16.LoadBalancerProofs.
Module LbP2 := PGV.C16.LoadBalancerProofs2.

(* the spec's invariant BuffersOk, for every NUM_SERVERS, NUM_CLIENTS, BUFFER_SIZE and every interleaving *)
Theorem loadbalancer_buffers_ok : forall NS NC B evs node,
  0 <= List.length (Lb.net (Lb.exec NS NC B evs) node) /\ List.length (Lb.net (Lb.exec NS NC B evs) node) <= B.
Proof. intros NS NC B evs. exact (LbP.buffers_ok_lemma NS NC B _ (LbP.exec_reachable NS NC B evs)). Qed.
Print Assumptions loadbalancer_buffers_ok.

(* no assertion fails (assert msg.message_type = GET_PAGE; assert FALSE in WebPages.write) and no action is
   ill-typed, under the spec's ASSUME NUM_SERVERS > 0 *)
Theorem loadbalancer_assertion_free : forall NS NC B evs p, NS >= 1 ->
  Lb.step NS NC B (Lb.exec NS NC B evs) p <> Lb.AssertFail /\ Lb.step NS NC B (Lb.exec NS NC B evs) p <> Lb.TypeError.
Proof. intros NS NC B evs p H. exact (LbP.safe_lemma NS NC B _ p H (LbP.exec_reachable NS NC B evs)). Qed.
Print Assumptions loadbalancer_assertion_free.

(* messages are where they belong: requests at the balancer, forwarded requests at servers, pages at clients *)
Theorem loadbalancer_well_formed : forall NS NC B evs, LbP.Wf NS NC B (Lb.exec NS NC B evs).
Proof. intros NS NC B evs. exact (LbP.wf_reachable NS NC B _ (LbP.exec_reachable NS NC B evs)). Qed.
Print Assumptions loadbalancer_well_formed.

(* every request is answered by exactly one server: (client, request number) pairs of the pages sent are pairwise
   distinct; every entry is a real request of a real client answered by a real server; every issued request, except
   a current one whose page has not been sent yet, has exactly one answering server *)
Theorem loadbalancer_exactly_one_server : forall NS NC B evs,
  let s := Lb.exec NS NC B evs in
  NoDup (map LbP2.key (Lb.answered s)) /\
  (forall c r j, In (c, r, j) (Lb.answered s) -> NS < c <= NS + NC /\ 1 <= j <= NS /\ r < Lb.nreq s c) /\
  (forall c r, NS < c <= NS + NC -> r < Lb.nreq s c ->
     (r < Lb.nreq s c - 1 \/ Lb.loc s c = Lb.InReply \/ Lb.loc s c = Lb.Idle) ->
     exists j, In (c, r, j) (Lb.answered s) /\ forall j', In (c, r, j') (Lb.answered s) -> j' = j).
Proof. intros NS NC B evs. exact (LbP2.exactly_one_server_lemma NS NC B _ (LbP.exec_reachable NS NC B evs)). Qed.
Print Assumptions loadbalancer_exactly_one_server.

(* a client has at most one page in its mailbox, only while it waits at clientReceive, and it waits there exactly
   while its request or page is somewhere in the pipeline (the ghost location is not Idle) *)
Theorem loadbalancer_one_outstanding : forall NS NC B evs c, NS < c <= NS + NC ->
  let s := Lb.exec NS NC B evs in
  List.length (Lb.net s c) <= 1 /\ (Lb.net s c <> [] -> Lb.cpc_ s c = Lb.CRcv) /\
  (Lb.cpc_ s c = Lb.CRcv <-> Lb.loc s c <> Lb.Idle).
Proof. intros NS NC B evs c Hc. exact (LbP2.one_outstanding_lemma NS NC B _ (LbP.exec_reachable NS NC B evs) c Hc). Qed.
Print Assumptions loadbalancer_one_outstanding.

(* the request of a waiting client is in exactly one place of the pipeline (the location invariant) *)
Theorem loadbalancer_location_invariant : forall NS NC B evs,
  LbP2.Loc NS NC (Lb.exec NS NC B evs) /\ LbP2.Hist NS NC (Lb.exec NS NC B evs).
Proof. intros NS NC B evs. exact (LbP2.inv2_reachable NS NC B _ (LbP.exec_reachable NS NC B evs)). Qed.
Print Assumptions loadbalancer_location_invariant.

Example loadbalancer_nonvacuous :
  let s := Lb.exec 2 1 1 [3; 3; 0; 0; 0; 1; 1; 1; 3] in
  Lb.out_ s = Some Lb.Page /\ Lb.answered s = [(3, 0, 1)] /\ Lb.lnext s = 1 /\ Lb.nreq s 3 = 1 /\ Lb.loc s 3 = Lb.Idle.
Proof. vm_compute. repeat split; reflexivity. Qed.

(* ================================================================== gcounter *)
From PGV Require C16.Gcounter C16.GcounterProofs.
Module Gc := PGV.C16.Gcounter.
Module GcP := PGV.C16.GcounterProofs.

(* the spec's StrongConvergence: replicas with equal knowledge (c[i] = c[j]) have equal state, for every
   NUM_NODES and every interleaving of updates, waits and merges (any pairs, any order) *)
Theorem gcounter_strong_convergence : forall N evs i j,
  (forall k, Gc.hist (Gc.exec N evs) i k = Gc.hist (Gc.exec N evs) j k) ->
  forall k, Gc.cnt (Gc.exec N evs) i k = Gc.cnt (Gc.exec N evs) j k.
Proof. intros N evs. exact (GcP.strong_convergence_lemma N _ (GcP.exec_reachable N evs)). Qed.
Print Assumptions gcounter_strong_convergence.

(* replicas with equal knowledge read equal values *)
Theorem gcounter_equal_knowledge_equal_reads : forall N evs i j,
  (forall k, Gc.hist (Gc.exec N evs) i k = Gc.hist (Gc.exec N evs) j k) ->
  Gc.read N (Gc.exec N evs) i = Gc.read N (Gc.exec N evs) j.
Proof. intros N evs. exact (GcP.equal_reads_lemma N _ (GcP.exec_reachable N evs)). Qed.
Print Assumptions gcounter_equal_knowledge_equal_reads.

(* counters never decrease: every component of every replica along every continuation, and the value read *)
Theorem gcounter_monotone : forall N evs1 evs2 i k,
  Gc.cnt (Gc.exec N evs1) i k <= Gc.cnt (Gc.run N (Gc.exec N evs1) evs2) i k.
Proof. intros N evs1 evs2. exact (GcP.monotone_lemma N evs2 (Gc.exec N evs1)). Qed.
Print Assumptions gcounter_monotone.

Theorem gcounter_read_monotone : forall N evs1 evs2 i,
  Gc.read N (Gc.exec N evs1) i <= Gc.read N (Gc.run N (Gc.exec N evs1) evs2) i.
Proof. intros N evs1 evs2. exact (GcP.read_monotone_lemma N evs2 (Gc.exec N evs1)). Qed.
Print Assumptions gcounter_read_monotone.

Theorem gcounter_read_bounded : forall N evs i, Gc.read N (Gc.exec N evs) i <= N.
Proof. intros N evs. exact (GcP.read_bounded_lemma N _ (GcP.exec_reachable N evs)). Qed.
Print Assumptions gcounter_read_bounded.

(* the state of a replica is a function of its knowledge: localcntrs[i][k] = 1 iff <<k,1>> \in c[i] *)
Theorem gcounter_state_is_knowledge : forall N evs i k,
  Gc.cnt (Gc.exec N evs) i k = GcP.b2n (Gc.hist (Gc.exec N evs) i k).
Proof. intros N evs. exact (GcP.i_know _ _ (GcP.inv_reachable N _ (GcP.exec_reachable N evs))). Qed.
Print Assumptions gcounter_state_is_knowledge.

Theorem gcounter_assertion_free : forall N evs e, Gc.step N (Gc.exec N evs) e <> Gc.AssertFail.
Proof. intros N evs e. exact (GcP.assertion_free_lemma N _ e). Qed.
Print Assumptions gcounter_assertion_free.

Example gcounter_nonvacuous :
  let s := Gc.exec 3 [Gc.ENode 1; Gc.ENode 2; Gc.EMerge 2 (Some 1); Gc.ENode 3; Gc.EMerge 3 (Some 1)] in
  Gc.read 3 s 1 = 3 /\ Gc.read 3 s 2 = 2 /\ Gc.read 3 s 3 = 3 /\ Gc.hist s 2 3 = false /\
  Gc.out_code (Gc.step 3 s (Gc.ENode 2)) = 1 /\ Gc.out_code (Gc.step 3 s (Gc.ENode 1)) = 0.
Proof. vm_compute. repeat split; reflexivity. Qed.

(* ================================================================== proxy *)
(* with the perfect failure detector (mapping fd[_] via PerfectFD) and NUM_SERVERS < FAIL = 100 (a server's id is
   the body of its answers, so id 100 would be indistinguishable from FAIL) *)
From PGV Require C16.Proxy C16.ProxyProofs C16.ProxyProofs2.
Module Px := PGV.C16.Proxy.
Module PxP := PGV.C16.ProxyProofs.
Module PxP2 := PGV.C16.ProxyProofs2.

(* the spec's invariant ProxyOK, for every configuration, every interleaving, every resolution of the
   `either`s (in particular every crash sequence of backends: mayFail) *)
Theorem proxy_ok : forall g evs r j, Px.NS g < Px.FAIL ->
  Px.ppc_ (Px.exec g evs) = Px.PSend -> Px.p_proxyResp (Px.exec g evs) = Some r -> Px.m_body r = Px.FAIL ->
  1 <= j <= Px.NS g -> Px.spc_ (Px.exec g evs) j = Px.SFail \/ Px.spc_ (Px.exec g evs) j = Px.SDone.
Proof. intros g evs r j Hb Hpc Hr Hf. exact (PxP.proxy_ok_lemma g Hb _ (PxP.exec_reachable g evs) r Hpc Hr Hf j). Qed.
Print Assumptions proxy_ok.

(* the proxy reports failure only when every backend has failed: a FAIL answer in flight to a client, or
   delivered as output, implies every server has stopped *)
Theorem proxy_fail_reported_only_if_all_failed : forall g evs, Px.NS g < Px.FAIL ->
  let s := Px.exec g evs in
  (forall c m, In m (Px.queue s c Px.RESP) -> Px.m_body m = Px.FAIL -> forall j, 1 <= j <= Px.NS g -> Px.spc_ s j = Px.SDone) /\
  (forall m, Px.output s = Some m -> Px.m_body m = Px.FAIL -> forall j, 1 <= j <= Px.NS g -> Px.spc_ s j = Px.SDone).
Proof. intros g evs Hb. exact (PxP.fail_reported_only_if_all_failed_lemma g Hb _ (PxP.exec_reachable g evs)). Qed.
Print Assumptions proxy_fail_reported_only_if_all_failed.

(* the perfect detector never suspects a running server *)
Theorem proxy_fd_accurate : forall g evs j, Px.NS g < Px.FAIL ->
  Px.fd (Px.exec g evs) j = true -> Px.spc_ (Px.exec g evs) j = Px.SDone.
Proof. intros g evs j Hb. exact (PxP.fd_accurate_lemma g Hb _ (PxP.exec_reachable g evs) j). Qed.
Print Assumptions proxy_fd_accurate.

(* no assertion of the spec fails (message routing asserts of proxy / servers / clients, `assert enabled` of
   ReliableFIFOLink.read, and the client's `resp.id = reqId`) and no action is ill-typed, in any reachable state, for any
   event, for every configuration (either failure-detector mapping: the invariant does not mention fd) *)
Theorem proxy_assertion_free : forall g evs e,
  Px.step g (Px.exec g evs) e <> Px.AssertFail /\ Px.step g (Px.exec g evs) e <> Px.TypeError.
Proof. intros g evs e. exact (PxP2.safe_lemma g _ e (PxP.exec_reachable g evs)). Qed.
Print Assumptions proxy_assertion_free.

(* while a client waits, its request is in exactly one place: the proxy's mailbox, the proxy's hands, or answered in
   the client's mailbox; a client that does not wait has nothing outstanding *)
Theorem proxy_one_outstanding : forall g evs c, Px.NS g + 1 <= c <= Px.NS g + Px.NC g ->
  let s := Px.exec g evs in
  PxP2.cntf c (Px.queue s (Px.ProxyID g) Px.REQ) + PxP2.held s c + List.length (Px.queue s c Px.RESP)
  = PxP2.waiting (Px.cpc_ s c).
Proof. intros g evs c Hc. exact (PxP2.one_outstanding_lemma g _ (PxP.exec_reachable g evs) c Hc). Qed.
Print Assumptions proxy_one_outstanding.

(* non-vacuity: one server, one client; the server fails at once, the proxy skips it and reports FAIL *)
Example proxy_nonvacuous :
  let g := Px.mkCfg 1 1 true true in
  let s := Px.exec g [(2, 0); (1, 1); (1, 0); (3, 0); (3, 1); (3, 0)] in
  Px.ppc_ s = Px.PSend /\ Px.spc_ s 1 = Px.SDone /\ Px.fd s 1 = true /\ Px.p_idx s = Some 2 /\
  exists r, Px.p_proxyResp s = Some r /\ Px.m_body r = Px.FAIL.
Proof. vm_compute. repeat split; try reflexivity. eexists. split; reflexivity. Qed.

(* ================================================================== shopcart *)
(* the system the spec instantiates: Node = ANodeBench with crdt[_] via AWORSet, and the merge process UpdateCRDT *)
From PGV Require C16.Shopcart C16.ShopcartProofs.
Module Sc := PGV.C16.Shopcart.
Module ScP := PGV.C16.ShopcartProofs.

(* the spec's StrongConvergence: replicas with equal knowledge (c[i] = c[j]) have equal CRDT state, for every
   NumNodes, BenchNumRounds, ElemSet size and every interleaving of node labels and merges *)
Theorem shopcart_strong_convergence : forall g evs i j,
  (forall e, Sc.know (Sc.exec g evs) i e = Sc.know (Sc.exec g evs) j e) ->
  forall e n, Sc.addm (Sc.exec g evs) i e n = Sc.addm (Sc.exec g evs) j e n /\
              Sc.remm (Sc.exec g evs) i e n = Sc.remm (Sc.exec g evs) j e n.
Proof. intros g evs. exact (ScP.strong_convergence_lemma g _ (ScP.exec_reachable g evs)). Qed.
Print Assumptions shopcart_strong_convergence.

(* the spec's invariant QueryOK: equal CRDT states give equal query results (in every state) *)
Theorem shopcart_query_ok : forall g s i j,
  (forall e n, Sc.addm s i e n = Sc.addm s j e n /\ Sc.remm s i e n = Sc.remm s j e n) -> Sc.query g s i = Sc.query g s j.
Proof. exact ScP.query_ok_lemma. Qed.
Print Assumptions shopcart_query_ok.

(* replicas with equal knowledge read equal values *)
Theorem shopcart_equal_knowledge_equal_query : forall g evs i j,
  (forall e, Sc.know (Sc.exec g evs) i e = Sc.know (Sc.exec g evs) j e) ->
  Sc.query g (Sc.exec g evs) i = Sc.query g (Sc.exec g evs) j.
Proof. intros g evs. exact (ScP.equal_knowledge_equal_query_lemma g _ (ScP.exec_reachable g evs)). Qed.
Print Assumptions shopcart_equal_knowledge_equal_query.

(* counters never decrease: every component of every add-clock of every replica, along every continuation *)
Theorem shopcart_monotone : forall g evs1 evs2 i e n,
  Sc.addm (Sc.exec g evs1) i e n <= Sc.addm (Sc.run g (Sc.exec g evs1) evs2) i e n.
Proof. intros g evs1 evs2. exact (ScP.monotone_lemma g evs2 _ (ScP.exec_reachable g evs1)). Qed.
Print Assumptions shopcart_monotone.

(* the state is a function of the knowledge, and the remove maps stay Null (nobody removes) *)
Theorem shopcart_invariant : forall g evs, ScP.Inv g (Sc.exec g evs).
Proof. intros g evs. exact (ScP.inv_reachable g _ (ScP.exec_reachable g evs)). Qed.
Print Assumptions shopcart_invariant.

(* no ill-typed step and no failing assertion when ElemSet covers the elements the nodes add *)
Theorem shopcart_safe : forall g evs ev, Sc.E g >= Sc.N g * Sc.R g ->
  Sc.step g (Sc.exec g evs) ev <> Sc.TypeError /\ Sc.step g (Sc.exec g evs) ev <> Sc.AssertFail.
Proof. intros g evs ev H. exact (ScP.safe_lemma g _ ev (ScP.exec_reachable g evs) H). Qed.
Print Assumptions shopcart_safe.

Example shopcart_nonvacuous :
  let g := Sc.mkCfg 2 1 2 in
  let s := Sc.exec g [Sc.ENode 1; Sc.ENode 1; Sc.ENode 2; Sc.ENode 2; Sc.EMerge 1 (Some 2)] in
  Sc.query g s 1 = [0; 1] /\ Sc.query g s 2 = [0; 1] /\ Sc.know s 2 0 = true /\
  Sc.out_code (Sc.step g s (Sc.ENode 1)) = 0 /\ Sc.out_code (Sc.step g (Sc.exec g [Sc.ENode 1; Sc.ENode 1]) (Sc.ENode 1)) = 1.
Proof. vm_compute. repeat split; reflexivity. Qed.

(* ================================================================== nestedcrdtimpl *)
(* the generated archetype ACRDTResource with the grow-only counter the deployment plugs into the spec's CONSTANT
   operators, driven by the spec's Node process *)
From PGV Require C16.Nested C16.NestedProofs C16.NestedProofs2 C16.NestedProofs3.
Module Ne := PGV.C16.Nested.
Module NeP := PGV.C16.NestedProofs.
Module NeP2 := PGV.C16.NestedProofs2.
Module NeP3 := PGV.C16.NestedProofs3.

(* the spec's MonotonicState: in every step (every configuration, every interleaving, every branch of the `either`,
   every target of the `with`) no component of any replica's state decreases *)
Theorem nested_monotonic_state : forall g evs e s', Ne.step g (Ne.exec g evs) e = Ne.Ok s' ->
  forall r k, Ne.st (Ne.exec g evs) r k <= Ne.st s' r k.
Proof. intros g evs e s'. exact (NeP.step_monotone g (Ne.exec g evs) e s'). Qed.
Print Assumptions nested_monotonic_state.

(* ... hence along every continuation, and the value a replica shows (VIEW_FN) never decreases *)
Theorem nested_counters_never_decrease : forall g evs1 evs2 r k,
  Ne.st (Ne.exec g evs1) r k <= Ne.st (Ne.run g (Ne.exec g evs1) evs2) r k.
Proof. intros g evs1 evs2. exact (NeP.run_monotone g evs2 (Ne.exec g evs1)). Qed.
Print Assumptions nested_counters_never_decrease.

Theorem nested_view_never_decreases : forall g evs1 evs2 r,
  Ne.VIEW g (Ne.st (Ne.exec g evs1) r) <= Ne.VIEW g (Ne.st (Ne.run g (Ne.exec g evs1) evs2) r).
Proof. intros g evs1 evs2. exact (NeP.view_monotone g evs2 (Ne.exec g evs1)). Qed.
Print Assumptions nested_view_never_decreases.

(* StateSanity exactly as written in NestedCRDTImpl.tla sums SETS of values (equal values collapse) and is false in a
   reachable state: two nodes, one committed write each, replicas synchronised: Sum({2,2}) = 2 > Sum({1,1}) = 1.
   This is a defect of the spec's formula, not of the generated code (the bound it intends holds in that state). *)
Theorem nested_state_sanity_as_written_refuted :
  exists g evs, Ne.state_sanity_as_written g (Ne.exec g evs) = false /\ Ne.state_sanity_intended g (Ne.exec g evs) = true.
Proof. exact NeP.state_sanity_as_written_refuted_lemma. Qed.
Print Assumptions nested_state_sanity_as_written_refuted.

(* the bound StateSanity evidently intends, for every configuration and every interleaving: no replica shows more
   than the writes the nodes have issued (pending + achieved, summed as a bag) *)
Theorem nested_state_sanity_intended : forall g evs r,
  Ne.VIEW g (Ne.st (Ne.exec g evs) r) <= Ne.total_writes g (Ne.exec g evs).
Proof. intros g evs. exact (NeP2.state_sanity_intended_lemma g _ (NeP.exec_reachable g evs)). Qed.
Print Assumptions nested_state_sanity_intended.

Theorem nested_state_sanity_intended_bool : forall g evs, Ne.state_sanity_intended g (Ne.exec g evs) = true.
Proof. intros g evs. exact (NeP2.state_sanity_intended_bool g _ (NeP.exec_reachable g evs)). Qed.
Print Assumptions nested_state_sanity_intended_bool.

(* a replica's own component is bounded by its node's writes, and nobody knows more about it than the replica itself;
   the request/acknowledgement handshake and the write accounting hold for every node *)
Theorem nested_invariants : forall g evs, NeP2.MInv (Ne.exec g evs) /\ NeP2.NInv g (Ne.exec g evs).
Proof. intros g evs. exact (NeP2.invariants_reachable g _ (NeP.exec_reachable g evs)). Qed.
Print Assumptions nested_invariants.

(* the Node process's assertions (the acknowledgement has the expected type) never fail *)
Theorem nested_node_assertion_free : forall g evs n br, 1 <= n <= Ne.K g ->
  Ne.node_step g (Ne.exec g evs) n br <> Ne.AssertFail.
Proof. intros g evs n br Hn. exact (NeP2.node_assertion_free_lemma g _ n br (NeP.exec_reachable g evs) Hn). Qed.
Print Assumptions nested_node_assertion_free.

(* no TLA+ type error: the target ACRDTResource's `with (target \in remainingPeersToUpdate)` chooses is always a resource
   id (remainingPeersToUpdate only ever holds peers), so net[target] is defined — for every configuration and interleaving *)
Theorem nested_type_safe : forall g evs e, Ne.step g (Ne.exec g evs) e <> Ne.TypeError.
Proof. intros g evs e. exact (NeP3.type_safe_lemma g _ e (NeP.exec_reachable g evs)). Qed.
Print Assumptions nested_type_safe.

Theorem nested_remaining_peers_are_resources : forall g evs r t,
  In t (Ne.rem_ (Ne.exec g evs) r) -> In t (Ne.resources g).
Proof. intros g evs. exact (NeP3.rinv_reachable g _ (NeP.exec_reachable g evs)). Qed.
Print Assumptions nested_remaining_peers_are_resources.

Example nested_nonvacuous :
  let g := Ne.mkCfg 2 1 1 in
  let s := Ne.exec g NeP.sanity_witness in
  Ne.VIEW g (Ne.st s 3) = 2 /\ Ne.VIEW g (Ne.st s 4) = 2 /\ Ne.wAch s 1 = 1 /\ Ne.wAch s 2 = 1 /\ Ne.npc_ s 1 = Ne.NCrit.
Proof. vm_compute. repeat split; reflexivity. Qed.

(* ================================================================== shopcart: the interactive archetype ANode *)
From PGV Require C16.ShopNode C16.ShopNodeProofs.
Module Sn := PGV.C16.ShopNode.
Module SnP := PGV.C16.ShopNodeProofs.

(* ANode with the WHOLE AWORSet mapping (Add and Remove) over a shared input queue, plus the spec's merge process; for every
   number of nodes, element set size, input command sequence and interleaving: clocks live on NodeSet, an element never has
   both an add clock and a remove clock, and the input queue is a suffix of the input *)
Theorem shopcart_node_invariant : forall g evs, SnP.Inv g (Sn.exec g evs).
Proof. intros g evs. exact (SnP.inv_reachable g _ (SnP.exec_reachable g evs)). Qed.
Print Assumptions shopcart_node_invariant.

(* what a replica answers (Query) is exactly the elements of ElemSet that have an add clock *)
Theorem shopcart_node_query_is_added : forall g evs i e,
  In e (Sn.query g (Sn.exec g evs) i) <-> e < Sn.E g /\ ~ SnP.zero (Sn.addm (Sn.exec g evs) i e).
Proof. intros g evs i e. exact (SnP.query_spec g _ i e (SnP.inv_reachable g _ (SnP.exec_reachable g evs))). Qed.
Print Assumptions shopcart_node_query_is_added.

(* rcvResp answers with the query of the node's own replica *)
Theorem shopcart_node_answer_is_query : forall g evs p s', Sn.step g (Sn.exec g evs) (Sn.ENode p) = Sn.Ok s' ->
  Sn.pc (Sn.exec g evs) p = Sn.NResp -> Sn.out_ s' = Some (Sn.query g (Sn.exec g evs) p).
Proof. intros g evs p s'. exact (SnP.answer_is_query g _ p s'). Qed.
Print Assumptions shopcart_node_answer_is_query.

(* the assertions inside the spec's Merge (crdt[i1].addMap = crdt[i2].addMap, remMap likewise, crdt[i1] = crdt[i2]) *)
Theorem shopcart_node_merge_equalises : forall g evs i1 i2 s', Sn.step g (Sn.exec g evs) (Sn.EMerge i1 (Some i2)) = Sn.Ok s' ->
  forall e n, Sn.addm s' i1 e n = Sn.addm s' i2 e n /\ Sn.remm s' i1 e n = Sn.remm s' i2 e n.
Proof. intros g evs i1 i2 s'. exact (SnP.merge_equalises g _ i1 i2 s'). Qed.
Print Assumptions shopcart_node_merge_equalises.

(* no ill-typed step (addMap[elem] / remMap[elem] outside ElemSet) when the input only names elements of ElemSet *)
Theorem shopcart_node_type_safe : forall g evs e, Forall (fun c => snd c < Sn.E g) (Sn.INPUT g) ->
  Sn.step g (Sn.exec g evs) e <> Sn.TypeError.
Proof. intros g evs e. exact (SnP.type_safe_lemma g _ e (SnP.exec_reachable g evs)). Qed.
Print Assumptions shopcart_node_type_safe.

(* with removes the raw vector clocks are not monotone ("counters never decrease" is a statement about ANodeBench's
   add-only use, proved above as shopcart_monotone): remove at node 1, merge, add at node 2 *)
Theorem shopcart_node_clock_monotone_refuted : exists g evs e i el n,
  SnP.clock (Sn.exec g (evs ++ [e])) i el n < SnP.clock (Sn.exec g evs) i el n.
Proof.
  exists SnP.nonmonotone_cfg, SnP.nonmonotone_prefix, (Sn.ENode 2), 2, 0, 1.
  destruct SnP.clock_not_monotone_lemma as [A B]. rewrite A, B. constructor.
Qed.
Print Assumptions shopcart_node_clock_monotone_refuted.

Example shopcart_node_nonvacuous :
  let g := Sn.mkCfg 2 2 [(true, 0); (true, 1); (false, 0)] in
  let s := Sn.exec g [Sn.ENode 1; Sn.ENode 1; Sn.ENode 2; Sn.EMerge 1 (Some 2); Sn.ENode 1; Sn.ENode 2; Sn.ENode 2] in
  Sn.query g s 1 = [1] /\ Sn.query g s 2 = [0; 1] /\ Sn.out_ s = Some [0; 1] /\ Sn.inq s = [].
Proof. vm_compute. repeat split; reflexivity. Qed.

(* ================================================================== replicatedkv *)
From PGV Require C16.Rkv C16.RkvProofs C16.RkvProofs2.
Module Rk := PGV.C16.Rkv.
Module RkP := PGV.C16.RkvProofs.
Module RkP2 := PGV.C16.RkvProofs2.

(* replicated_kv.tla states no invariant; what the property asks of it is that no assertion written in the
   specification fails.  The model has the spec's 28 labels (13 of the replica, 5 + 7 + 3 + 4 of the Get, Put,
   Disconnect and ClockUpdate clients) and its four assertions:
     replicaGetRequest   assert msg.client \in liveClients
     findMinClient       assert firstPending.op = GET_MSG \/ firstPending.op = PUT_MSG
     getReply            assert getResp.type = GET_RESPONSE
     putResponse         assert putResp.type = PUT_RESPONSE
   For every configuration (number of replicas and clients, buffer bound, spinning or not), every interleaving and
   every resolution of the `with`s, from the state reached no event makes any of them fail. *)
Theorem replicatedkv_assertion_free : forall g evs e, Rk.step g (Rk.exec g evs) e <> Rk.AssertFail.
Proof. intros g evs e. exact (RkP2.rkv_assertion_free_exec g evs e). Qed.
Print Assumptions replicatedkv_assertion_free.

(* the first assertion rests on this: once a replica has removed c from liveClients (it processed c's DISCONNECT_MSG),
   its queue holds no Get of c — queues are FIFO and a client sends nothing after its clock is set to -1 *)
Theorem replicatedkv_no_get_after_disconnect : forall g evs r c,
  Rk.mem c (Rk.live (Rk.rep (Rk.exec g evs) r)) = false ->
  RkP2.no_get c (Rk.repNet (Rk.exec g evs) r) = true.
Proof. intros g evs r c. exact (RkP2.rkv_no_get_after_disconnect g _ r c (RkP.exec_reachable g evs)). Qed.
Print Assumptions replicatedkv_no_get_after_disconnect.

(* the other three rest on typing of what travels: pending and stable requests are Gets or Puts; a Get client's mailbox
   holds only GET_RESPONSEs and a Put client's only PUT_RESPONSEs *)
Theorem replicatedkv_message_typing : forall g evs, RkP.TInv g (Rk.exec g evs).
Proof. intros g evs. exact (RkP2.rkv_typed g _ (RkP.exec_reachable g evs)). Qed.
Print Assumptions replicatedkv_message_typing.

(* non-vacuity: with one replica and one client, the Get client's request reaches the replica, passes the liveClients
   assertion and is queued as pending; then the client disconnects: its clock is -1 and the DISCONNECT_MSG is queued *)
Example replicatedkv_nonvacuous :
  let g := Rk.mkCfg 1 1 2 true in
  let s := Rk.exec g [Rk.EGet 1 None; Rk.EGet 1 (Some 0); Rk.ERep 0 None; Rk.ERep 0 None; Rk.ERep 0 None; Rk.ERep 0 None;
                      Rk.EDisc 3; Rk.EDisc 3] in
  Rk.pend (Rk.rep s 0) 1 = [Rk.MGet 0 1 1 1] /\ Rk.rpc_ (Rk.rep s 0) = Rk.RPutReq /\
  Rk.clocks s 1 = None /\ Rk.repNet s 0 = [Rk.MDisc 1].
Proof. vm_compute. repeat split; reflexivity. Qed.

(* ================================================================== the *.gotests programs (pgo/test/files/general) *)
From PGV Require C16.GtIndexing C16.GtNonDet.
Module GI := PGV.C16.GtIndexing.
Module GN := PGV.C16.GtNonDet.

(* IndexingLocals.tla: no indexed write leaves DOMAIN and no field write hits a number (the TLA+ type errors the runtime
   would report); it always can finish, and when it has, log = <<3, 21, 999, [foo |-> 43]>> and p = 3 *)
Theorem gotests_indexinglocals_type_safe : forall evs e, GI.step (GI.exec evs) e <> GI.TypeError.
Proof. exact GI.type_safe_lemma. Qed.
Print Assumptions gotests_indexinglocals_type_safe.

Theorem gotests_indexinglocals_result : forall evs, GI.pc (GI.exec evs) = GI.IDone ->
  GI.log (GI.exec evs) = [GI.INum 3; GI.INum 21; GI.INum 999; GI.IFoo 43] /\ GI.p (GI.exec evs) = Some (GI.INum 3).
Proof. exact GI.result_lemma. Qed.
Print Assumptions gotests_indexinglocals_result.

Theorem gotests_indexinglocals_can_finish : forall evs, exists evs', GI.pc (GI.run (GI.exec evs) evs') = GI.IDone.
Proof. exact GI.terminates_lemma. Qed.
Print Assumptions gotests_indexinglocals_can_finish.

(* NonDetExploration.tla: ACoverage and ACoincidence have no assertion to fail. AComplex's
   `assert \A a \in TheSet : a \in mark` fails EXACTLY when its with chose the same element all 20 times (the spec's own
   comment: "with high probability (1 - 2 / 2^20) this assertion is true") — so "no assertion written in the
   specification fails" is false for this program, by the spec's design; the witness is replayed on the generated code
   (corpus/C16/gotests_nondet_complex_same_element.json). *)
Theorem gotests_nondet_assertion_fails_exactly_when : forall evs e,
  GN.step (GN.exec evs) e = GN.AssertFail <->
  (exists a, e = GN.ECx a) /\ GN.cx (GN.exec evs) = GN.XLoop /\
  exists b, (b = 1 \/ b = 2) /\ GN.picked (GN.exec evs) = repeat b GN.LIMIT.
Proof. intros evs e. exact (GN.assert_iff_lemma _ e (GN.exec_reachable evs)). Qed.
Print Assumptions gotests_nondet_assertion_fails_exactly_when.

Theorem gotests_nondet_complex_assertion_free_refuted : exists evs e, GN.step (GN.exec evs) e = GN.AssertFail.
Proof. exists GN.all_same_witness, (GN.ECx 0). exact GN.assert_reachable_lemma. Qed.
Print Assumptions gotests_nondet_complex_assertion_free_refuted.

Theorem gotests_nondet_coverage_coincidence_assertion_free : forall evs e, (forall a, e <> GN.ECx a) ->
  GN.step (GN.exec evs) e <> GN.AssertFail.
Proof. intros evs e. exact (GN.other_archetypes_assertion_free _ e (GN.exec_reachable evs)). Qed.
Print Assumptions gotests_nondet_coverage_coincidence_assertion_free.

Example gotests_nonvacuous :
  let s := GN.exec GN.finishing_run in
  GN.cov s = GN.CDone /\ GN.coin s = GN.KDone /\ GN.cx s = GN.XDone /\ GN.xi s = 20 /\
  GI.pc (GI.exec [0; 0; 0; 0]) = GI.IDone.
Proof. vm_compute. repeat split; reflexivity. Qed.
