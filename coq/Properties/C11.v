(* C11 — The two-phase-commit variable behaves as one copy and does not livelock.
   Only the property theorems, each closed by `exact <lemma>`, Print Assumptions beneath, and
   non-vacuity examples. Model: C11/Model.v (tied to distsys/resources/twopc.go by ./check C11).
   `cfg tr` is the repaired code (commits 8fb21428, f44e10ca, 718e9920, 84372a69, 2512b762) over transport tr
   (Local = in-process handle, pointers preserved; Rpc = every delivered tla.Value re-allocated).
   Every theorem quantifies over: any number n of replicas, any initial value, every event list
   (= every interleaving of application calls, deliveries in any order, any number of times or never,
   replies consumed in any order or replaced by a timeout), any written values, any clock readings that
   increase per node. *)
From PGV Require Import C11.Model C11.Proofs0 C11.Proofs1 C11.Proofs2 C11.Proofs3 C11.Proofs4 C11.Proofs5
  C11.ProofsT C11.ProofsL C11.ProofsD.
From Coq Require Import Lia.

(* versions only grow: between any two states of an execution *)
Theorem version_monotone : forall tr n z es1 es2 s1 s2 i x y,
  run (cfg tr) (init_state n z) es1 = Some s1 -> run (cfg tr) s1 es2 = Some s2 ->
  get s1 i = Some x -> get s2 i = Some y -> n_ver x <= n_ver y.
Proof. intros tr n z es1 es2 s1 s2 i x y _. exact (version_monotone_lemma tr es2 s1 s2 i x y). Qed.
Print Assumptions version_monotone.

(* agreement: any two installs of version k, at any replicas, at any time, installed the same value *)
Theorem agreement : forall tr n z es s i j k v v',
  run (cfg tr) (init_state n z) es = Some s ->
  In (i, k, v) (g_installed s) -> In (j, k, v') (g_installed s) -> v = v'.
Proof. intros tr n z es s i j k v v' H. exact (agreement_lemma tr n z s i j k v v' (ex_intro _ es H)). Qed.
Print Assumptions agreement.

(* ... and two replicas that are at the same version hold the same committed value *)
Theorem agreement_state : forall tr n z es s i j x y,
  run (cfg tr) (init_state n z) es = Some s ->
  get s i = Some x -> get s j = Some y -> n_ver x = n_ver y -> 1 <= n_ver x -> n_old x = n_old y.
Proof. intros tr n z es s i j x y H. exact (agreement_state_lemma tr n z s i j x y (ex_intro _ es H)). Qed.
Print Assumptions agreement_state.

(* at most one proposer ever sends a Commit for a version, with one value *)
Theorem one_winner_per_version : forall tr n z es s c1 c2,
  run (cfg tr) (init_state n z) es = Some s ->
  In c1 (g_sent s) -> In c2 (g_sent s) -> r_type c1 = RCommit -> r_type c2 = RCommit -> r_ver c1 = r_ver c2 ->
  r_from c1 = r_from c2 /\ r_val c1 = r_val c2.
Proof. intros tr n z es s c1 c2 H. exact (one_winner_lemma tr n z s c1 c2 (ex_intro _ es H)). Qed.
Print Assumptions one_winner_per_version.

(* ... and no two proposers are at the same time between a successful PreCommit and their Commit of one version *)
Theorem one_pending_winner : forall tr n z es s i j x y,
  run (cfg tr) (init_state n z) es = Some s ->
  get s i = Some x -> get s j = Some y -> n_preok x = true -> n_op x = OpNone ->
  n_preok y = true -> n_op y = OpNone -> n_ver x = n_ver y -> i = j.
Proof. intros tr n z es s i j x y H. exact (one_pending_winner_lemma tr n z s i j x y (ex_intro _ es H)). Qed.
Print Assumptions one_pending_winner.

(* a section that read a value which has been overwritten cannot commit: whenever a proposer may call Commit
   (its PreCommit succeeded), no replica installed anything since its section began and nobody anywhere has
   sent a Commit for a later version than the one it read *)
Theorem stale_read_aborts : forall tr n z es s i x,
  run (cfg tr) (init_state n z) es = Some s ->
  get s i = Some x -> n_preok x = true -> n_op x = OpNone ->
  n_secver x = n_ver x /\ forall c, In c (g_sent s) -> r_type c = RCommit -> r_ver c <= n_secver x.
Proof. intros tr n z es s i x H. exact (stale_read_lemma tr n z s i x (ex_intro _ es H)). Qed.
Print Assumptions stale_read_aborts.

(* the assertions of twopc.go (Commit(): state is hasPreCommitted and no pre-commit accepted; doPreCommit: state
   still inPreCommit; broadcastAbortOrCommit: a rejection carries a later version) never fail *)
Theorem no_panic : forall tr n z es s,
  run (cfg tr) (init_state n z) es = Some s -> g_panic s = false.
Proof. intros tr n z es s H. exact (no_panic_lemma tr n z s (ex_intro _ es H)). Qed.
Print Assumptions no_panic.

(* abort_releases: while a proposer w is rolling back with Abort request a (its q-th request), delivering a to
   any replica j that holds w's pre-commit of that version is possible and leaves j in its initial 2PC state
   (the stale-message filter lets it through, sender and version match), at the same version *)
Theorem abort_releases : forall tr n z es s w q j xw x a ov acks fp,
  run (cfg tr) (init_state n z) es = Some s ->
  get s w = Some xw -> n_op xw = OpAbort a ov acks fp -> lookup_req s w q = Some a ->
  get s j = Some x -> j <> w -> holds_lock x w (r_ver a) ->
  exists s', step (cfg tr) s (EDeliver w q j) = Some s' /\
             forall y, get s' j = Some y -> n_tpc y = false /\ n_ver y = n_ver x.
Proof.
  intros tr n z es s w q j xw x a ov acks fp H.
  exact (abort_releases_lemma tr n z s w q j xw x a ov acks fp (ex_intro _ es H)).
Qed.
Print Assumptions abort_releases.

(* contenders_progress: see C11/ProofsL.v for `released` (no operation in flight and no accepted pre-commit held
   at any replica: what abort_releases leads to). From every reachable released state, for every replica i that is
   at the highest version and every set Q of other replicas that together with i form a majority (the reachable
   ones; the others take no step and receive nothing), there is a finite continuation - explicitly constructed:
   i runs one section, only fresh messages are used, each delivered once to the members of Q and answered - after
   which i and every member of Q have installed i's new value as the next version. *)
Theorem contenders_progress : forall tr n z es s i xi v Q,
  run (cfg tr) (init_state n z) es = Some s ->
  released s -> get s i = Some xi -> (forall j y, get s j = Some y -> n_ver y <= n_ver xi) ->
  NoDup Q -> (forall j, In j Q -> j < n /\ j <> i) -> required n <= List.length Q ->
  exists es' s', run (cfg tr) s es' = Some s' /\
    forall j y, j = i \/ In j Q -> get s' j = Some y -> n_ver y = n_ver xi + 1 /\ n_old y = v.
Proof. intros tr n z es s i xi v Q H. exact (progress_majority_lemma tr n z s i xi v Q (ex_intro _ es H)). Qed.
Print Assumptions contenders_progress.

(* ... and with every replica reachable all of them install it *)
Theorem contenders_progress_all : forall tr n z es s i xi v,
  run (cfg tr) (init_state n z) es = Some s ->
  2 <= n -> released s -> get s i = Some xi -> (forall j y, get s j = Some y -> n_ver y <= n_ver xi) ->
  exists es' s', run (cfg tr) s es' = Some s' /\
    forall j y, get s' j = Some y -> n_ver y = n_ver xi + 1 /\ n_old y = v.
Proof. intros tr n z es s i xi v H. exact (progress_lemma tr n z s i xi v (ex_intro _ es H)). Qed.
Print Assumptions contenders_progress_all.

(* aborts_drain: see C11/ProofsD.v for `draining` (every replica is idle or rolling back, and every accepted
   pre-commit is held for a proposer that is rolling back its attempt of that version - the situation after
   rejected or aborted proposals, however many overlap). Delivering every such proposer's Abort once to every other
   replica and answering it is possible and ends in a released state: each Abort passes the stale-message filter,
   matches sender and version, and the broadcasts complete. *)
Theorem aborts_drain : forall tr n z es s,
  run (cfg tr) (init_state n z) es = Some s -> draining s ->
  exists es' s', run (cfg tr) s es' = Some s' /\ released s'.
Proof.
  intros tr n z es s H D. destruct (aborts_drain_lemma tr n z s (ex_intro _ es H) D) as (es' & s' & h1 & _ & h2). eauto.
Qed.
Print Assumptions aborts_drain.

(* ... hence, from every such state, after finitely many deliveries some contender commits a new version that every
   replica installs: abort_releases and contenders_progress in one continuation *)
Theorem aborted_proposals_then_progress : forall tr n z es s v,
  run (cfg tr) (init_state n z) es = Some s -> 2 <= n -> draining s ->
  exists es' s' k, run (cfg tr) s es' = Some s' /\
    (forall j x, get s j = Some x -> n_ver x < k) /\
    (forall j y, get s' j = Some y -> n_ver y = k /\ n_old y = v).
Proof. intros tr n z es s v H. exact (drain_progress_lemma tr n z s v (ex_intro _ es H)). Qed.
Print Assumptions aborted_proposals_then_progress.

(* transport_independent: the same events over the in-process and the RPC transport lead to states that differ
   only in pointer identities (erase forgets them), or are impossible over both *)
Theorem transport_independent : forall n z es,
  option_map erase (run (cfg Local) (init_state n z) es) = option_map erase (run (cfg Rpc) (init_state n z) es).
Proof. exact transport_lemma. Qed.
Print Assumptions transport_independent.

(* ---------- non-vacuity: concrete executions meet the hypotheses ---------- *)
Open Scope Z_scope.

(* one uncontended write over three replicas, every message delivered once *)
Definition tr_commit : list event :=
  [EWrite 0 1001; EPreCall 0; EPreWake 0 1; EDeliver 0 0 1; EDeliver 0 0 2; EReply 0 0 1 0; EReply 0 0 2 0;
   EPreFinish 0 0; ECommit 0 2; EDeliver 0 1 1; EDeliver 0 1 2; EReply 0 1 1 0; EReply 0 1 2 0; ECommitFinish 0].

Example c11_agreement_nonvacuous :
  exists s, run (cfg Rpc) (init_state 3 7) tr_commit = Some s /\
            In (1%nat, 1%nat, 1001) (g_installed s) /\ In (2%nat, 1%nat, 1001) (g_installed s) /\
            In (0%nat, 1%nat, 1001) (g_installed s) /\
            map n_ver (g_nodes s) = [1%nat; 1%nat; 1%nat] /\ map n_old (g_nodes s) = [1001; 1001; 1001].
Proof. vm_compute. eexists. split; [reflexivity|]. repeat split; auto 10. Qed.

(* after the successful pre-commit the proposer is in the state stale_read_aborts / one_pending_winner speak about *)
Example c11_pending_winner_nonvacuous :
  exists s x, run (cfg Local) (init_state 3 7) (firstn 8 tr_commit) = Some s /\ get s 0 = Some x /\
              n_preok x = true /\ n_op x = OpNone /\ n_cs x = HasPre.
Proof. vm_compute. eexists. eexists. repeat split; reflexivity. Qed.

(* a failed pre-commit: replica 1 accepted it, both sends time out, the proposer rolls back;
   delivering the Abort (request 1 of node 0) to replica 1 releases it *)
Definition tr_rollback : list event :=
  [EWrite 0 1001; EPreCall 0; EPreWake 0 1; EDeliver 0 0 1; ETimeout 0 0 1; ETimeout 0 0 2; EPreFinish 0 2].

Example c11_abort_releases_nonvacuous :
  exists s xw x a, run (cfg Rpc) (init_state 3 7) tr_rollback = Some s /\
    get s 0 = Some xw /\ n_op xw = OpAbort a 0 [] true /\ lookup_req s 0 1 = Some a /\
    get s 1 = Some x /\ holds_lock x 0 (r_ver a) /\
    (exists s' y, step (cfg Rpc) s (EDeliver 0 1 1) = Some s' /\ get s' 1 = Some y /\ n_tpc y = false).
Proof.
  vm_compute. do 4 eexists. repeat split; try reflexivity. do 2 eexists. repeat split; reflexivity.
Qed.

(* ---------- the pinned tree (rules as in the snapshot) violates the statement: witnesses replayed on the real code ---------- *)

(* pointer comparison: over the RPC transport the same Abort does not release replica 1 *)
Example pinned_abort_releases_refuted :
  exists s s' y, run (mkCfg pinned_rules Rpc) (init_state 3 7) tr_rollback = Some s /\
    step (mkCfg pinned_rules Rpc) s (EDeliver 0 1 1) = Some s' /\ get s' 1 = Some y /\ n_tpc y = true.
Proof. vm_compute. do 3 eexists. repeat split; reflexivity. Qed.

(* no stale-message filter on the in-process handle: the Abort of the first attempt (request 1) arrives after the
   second pre-commit (request 2) was accepted; node 2 obtains the same vote: two values for version 1 *)
Definition tr_stale_abort : list event :=
  [EWrite 0 1001; EPreCall 0; EPreWake 0 1; ETimeout 0 0 1; ETimeout 0 0 2; EPreFinish 0 2; EDeliver 0 1 2;
   EReply 0 1 2 0; EAbortFinish 0; EAbort 0 0; EWrite 0 1002; EPreCall 0; EPreWake 0 3; EDeliver 0 2 1;
   EReply 0 2 1 0; EPreFinish 0 0; EDeliver 0 1 1; EWrite 2 2001; EPreCall 2; EPreWake 2 4; EDeliver 2 0 1;
   EReply 2 0 1 0; EPreFinish 2 0; ECommit 0 5; ECommit 2 6; EDeliver 0 3 2; EReply 0 3 2 0; ECommitFinish 0;
   EDeliver 2 1 1; EReply 2 1 1 0; ECommitFinish 2].

Example pinned_agreement_refuted :
  exists s, run (mkCfg pinned_rules Local) (init_state 3 7) tr_stale_abort = Some s /\
            In (0%nat, 1%nat, 1002) (g_installed s) /\ In (1%nat, 1%nat, 2001) (g_installed s).
Proof. vm_compute. eexists. repeat split; auto 10. Qed.

(* ... and the same events are impossible on the repaired code (the stale Abort is dropped, node 2 is refused) *)
Example repaired_rejects_stale_abort : run (cfg Local) (init_state 3 7) tr_stale_abort = None.
Proof. vm_compute. reflexivity. Qed.

(* replicas that missed Commit(1) vote for version 2, are released by its Abort and vote again for version 1
   (rules after the first two fixes, before the third) *)
Definition tr_lagging : list event :=
  [EWrite 0 1001; EPreCall 0; EPreWake 0 1; EDeliver 0 0 2; EDeliver 0 0 3; EReply 0 0 2 0; EReply 0 0 3 0;
   EPreFinish 0 0; ECommit 0 2; EDeliver 0 1 1; ERead 1; EWrite 1 2001; EPreCall 1; EPreWake 1 3;
   EDeliver 1 0 2; EDeliver 1 0 3; EDeliver 1 0 4; EReply 1 0 2 0; EReply 1 0 3 0; EPreFinish 1 0; EAbort 1 4;
   EDeliver 1 1 2; EDeliver 1 1 3; EDeliver 1 1 4; EReply 1 1 2 0; EReply 1 1 3 0; EAbortFinish 1;
   EWrite 2 3001; EPreCall 2; EPreWake 2 5; EDeliver 2 0 3; EDeliver 2 0 4; EReply 2 0 3 0; EReply 2 0 4 0;
   EPreFinish 2 0; ECommit 2 6; EDeliver 2 1 3; EDeliver 2 1 4; EReply 2 1 3 0; EReply 2 1 4 0; ECommitFinish 2].

Example no_promise_agreement_refuted :
  exists s, run (mkCfg (mkRules true true false) Rpc) (init_state 5 7) tr_lagging = Some s /\
            In (1%nat, 1%nat, 1001) (g_installed s) /\ In (3%nat, 1%nat, 3001) (g_installed s).
Proof. vm_compute. eexists. repeat split; auto 10. Qed.

Example repaired_rejects_lagging : run (cfg Rpc) (init_state 5 7) tr_lagging = None.
Proof. vm_compute. reflexivity. Qed.

(* a released state that is not the initial one: the rolled-back proposal of node 0 has been released by replica 1
   (the state abort_releases leads to), node 0 is left in failedPreCommit; contenders_progress applies to it *)
Definition tr_released : list event :=
  tr_rollback ++ [EDeliver 0 1 1; EDeliver 0 1 2; EReply 0 1 1 0; EReply 0 1 2 0; EAbortFinish 0].

Example c11_progress_nonvacuous :
  exists s x0 x1, run (cfg Rpc) (init_state 3 7) tr_released = Some s /\ released s /\
    get s 0 = Some x0 /\ n_cs x0 = FailedPre /\ n_att x0 = 1%nat /\
    get s 1 = Some x1 /\ a_set (n_acc x1) = true /\ n_tpc x1 = false /\
    (forall j y, get s j = Some y -> (n_ver y <= n_ver x0)%nat).
Proof.
  vm_compute. do 3 eexists. split; [reflexivity|]. split.
  - intros [|[|[|i]]] x H; cbn in H; try (destruct i; discriminate); inversion H; subst; cbn; repeat split; congruence.
  - repeat split; try reflexivity.
    intros [|[|[|j]]] y H; cbn in H; try (destruct j; discriminate); inversion H; subst; cbn; auto.
Qed.

(* the state in which node 0 rolls back while replica 1 still holds its pre-commit is draining *)
Example c11_draining_nonvacuous :
  exists s x1, run (cfg Rpc) (init_state 3 7) tr_rollback = Some s /\ draining s /\
               get s 1 = Some x1 /\ n_tpc x1 = true.
Proof.
  vm_compute. do 2 eexists. split; [reflexivity|]. split; [|split; reflexivity].
  intros [|[|[|i]]] x H; cbn in H; try (destruct i; discriminate); inversion H; subst; cbn.
  - split; [right; unfold rolling; cbn; eauto|]. split; [discriminate|discriminate].
  - split; [left; reflexivity|]. split; [intros _; repeat split; congruence|].
    intros _. exists 0%nat. do 5 eexists. split; [reflexivity|]. split; [reflexivity|].
    unfold holds_lock. cbn. auto.
  - split; [left; reflexivity|]. split; [intros _; repeat split; congruence|discriminate].
Qed.
