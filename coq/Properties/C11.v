(* C11 — The two-phase-commit variable behaves as one copy and does not livelock.
   Only the property theorems, each closed by `exact <lemma>`, Print Assumptions beneath, and
   non-vacuity examples. Model: C11/Model.v (tied to distsys/resources/twopc.go by ./check C11).
   `cfg tr` is the repaired code (commits 8fb21428, f44e10ca, 718e9920) over transport tr
   (Local = in-process handle, pointers preserved; Rpc = every delivered tla.Value re-allocated).
   Every theorem quantifies over: any number n of replicas, any initial value, every event list
   (= every interleaving of application calls, deliveries in any order, any number of times or never,
   replies consumed in any order or replaced by a timeout), any written values, any clock readings that
   increase per node. *)
From PGV Require Import C11.Model C11.Proofs0 C11.Proofs1 C11.Proofs2 C11.Proofs3 C11.Proofs4 C11.Proofs5.
From Coq Require Import Lia.

(* versions only grow: between any two states of an execution *)
Theorem version_monotone : forall tr n z es1 es2 s1 s2 i x y,
  run (cfg tr) (init_state n z) es1 = Some s1 -> run (cfg tr) s1 es2 = Some s2 ->
  get s1 i = Some x -> get s2 i = Some y -> n_ver x <= n_ver y.
Proof. intros tr n z es1 es2 s1 s2 i x y _. exact (version_monotone_lemma tr es2 s1 s2 i x y). Qed.
Print Assumptions version_monotone.

(* agreement: any two installs of version k, at any replicas, at any time, installed the same value *)
Theorem agreement : forall tr n z es s i j k v v',
  run (cfg tr) (init_state n z) es = Some s ->
  In (i, k, v) (g_installed s) -> In (j, k, v') (g_installed s) -> v = v'.
Proof. intros tr n z es s i j k v v' H. exact (agreement_lemma tr n z s i j k v v' (ex_intro _ es H)). Qed.
Print Assumptions agreement.

(* ... and two replicas that are at the same version hold the same committed value *)
Theorem agreement_state : forall tr n z es s i j x y,
  run (cfg tr) (init_state n z) es = Some s ->
  get s i = Some x -> get s j = Some y -> n_ver x = n_ver y -> 1 <= n_ver x -> n_old x = n_old y.
Proof. intros tr n z es s i j x y H. exact (agreement_state_lemma tr n z s i j x y (ex_intro _ es H)). Qed.
Print Assumptions agreement_state.

(* at most one proposer ever sends a Commit for a version, with one value *)
Theorem one_winner_per_version : forall tr n z es s c1 c2,
  run (cfg tr) (init_state n z) es = Some s ->
  In c1 (g_sent s) -> In c2 (g_sent s) -> r_type c1 = RCommit -> r_type c2 = RCommit -> r_ver c1 = r_ver c2 ->
  r_from c1 = r_from c2 /\ r_val c1 = r_val c2.
Proof. intros tr n z es s c1 c2 H. exact (one_winner_lemma tr n z s c1 c2 (ex_intro _ es H)). Qed.
Print Assumptions one_winner_per_version.

(* ... and no two proposers are at the same time between a successful PreCommit and their Commit of one version *)
Theorem one_pending_winner : forall tr n z es s i j x y,
  run (cfg tr) (init_state n z) es = Some s ->
  get s i = Some x -> get s j = Some y -> n_preok x = true -> n_op x = OpNone ->
  n_preok y = true -> n_op y = OpNone -> n_ver x = n_ver y -> i = j.
Proof. intros tr n z es s i j x y H. exact (one_pending_winner_lemma tr n z s i j x y (ex_intro _ es H)). Qed.
Print Assumptions one_pending_winner.

(* a section that read a value which has been overwritten cannot commit: whenever a proposer may call Commit
   (its PreCommit succeeded), no replica installed anything since its section began and nobody anywhere has
   sent a Commit for a later version than the one it read *)
Theorem stale_read_aborts : forall tr n z es s i x,
  run (cfg tr) (init_state n z) es = Some s ->
  get s i = Some x -> n_preok x = true -> n_op x = OpNone ->
  n_secver x = n_ver x /\ forall c, In c (g_sent s) -> r_type c = RCommit -> r_ver c <= n_secver x.
Proof. intros tr n z es s i x H. exact (stale_read_lemma tr n z s i x (ex_intro _ es H)). Qed.
Print Assumptions stale_read_aborts.

(* the assertions of twopc.go (Commit(): state is hasPreCommitted and no pre-commit accepted; doPreCommit: state
   still inPreCommit; broadcastAbortOrCommit: a rejection carries a later version) never fail *)
Theorem no_panic : forall tr n z es s,
  run (cfg tr) (init_state n z) es = Some s -> g_panic s = false.
Proof. intros tr n z es s H. exact (no_panic_lemma tr n z s (ex_intro _ es H)). Qed.
Print Assumptions no_panic.

(* abort_releases: while a proposer w is rolling back with Abort request a (its q-th request), delivering a to
   any replica j that holds w's pre-commit of that version is possible and leaves j in its initial 2PC state
   (the stale-message filter lets it through, sender and version match), at the same version *)
Theorem abort_releases : forall tr n z es s w q j xw x a ov acks fp,
  run (cfg tr) (init_state n z) es = Some s ->
  get s w = Some xw -> n_op xw = OpAbort a ov acks fp -> lookup_req s w q = Some a ->
  get s j = Some x -> j <> w -> holds_lock x w (r_ver a) ->
  exists s', step (cfg tr) s (EDeliver w q j) = Some s' /\
             forall y, get s' j = Some y -> n_tpc y = false /\ n_ver y = n_ver x.
Proof.
  intros tr n z es s w q j xw x a ov acks fp H.
  exact (abort_releases_lemma tr n z s w q j xw x a ov acks fp (ex_intro _ es H)).
Qed.
Print Assumptions abort_releases.

