(* C02 — Generated Go takes exactly the steps its MPCal/PlusCal spec prescribes.

   This file holds the theorems proved ONCE. The per-label obligations
       forall fuel r ks, run Dgo fuel (go tree of label L) r ks = run Dtla fuel (tla tree of L) r ks
   are regenerated from /repo's sources on every run into coq/Gen/<sys>_equiv.v (tools/go2coq,
   tools/tla2coq, props/c02.py) and closed there by
       rewrite <- <sys>_defs_equal. apply equiv_sound. vm_compute. reflexivity.
   `r` ranges over every environment: every value of every global variable, of self's component
   of every per-process variable (incl. pc), every self, every interpretation of the CONSTANTs;
   `ks` over every resolution of the either/with choices; `fuel` over every evaluation depth.
   Model: C02/Lang.v (values, expressions, eval), C02/Sem.v (decision trees, run, the two
   symbolic executions, the checker). *)
From PGV Require Import C02.Lang C02.Sem C02.Proofs C02.Mono C02.Subst.
Open Scope string_scope.

(* The checker is sound: trees it accepts behave identically under the single interpreter `run`,
   for every operator table, fuel, environment and choice list. *)
Theorem equiv_sound : forall t1 t2, equiv_check t1 t2 = true ->
  forall D fuel r ks, run D fuel t1 r ks = run D fuel t2 r ks.
Proof. exact equiv_sound_lemma. Qed.
Print Assumptions equiv_sound.

(* The operator tables of the two sides are compared for syntactic equality (after the same
   canonical renaming of bound names); accepted tables are equal. *)
Theorem defs_check_sound : forall d1 d2, defs_check d1 d2 = true -> d1 = d2.
Proof. exact defs_check_sound_lemma. Qed.
Print Assumptions defs_check_sound.

(* The normaliser applied before comparison preserves behaviour. *)
Theorem norm_preserves_run : forall D fuel t r ks, run D fuel (norm t) r ks = run D fuel t r ks.
Proof. exact norm_sound. Qed.
Print Assumptions norm_preserves_run.

(* The checker never equates two translations that fell outside the supported grammar
   (a Fail node on either side makes it answer false). *)
Theorem accepted_trees_are_total : forall t1 t2, equiv_check t1 t2 = true ->
  has_fail t1 = false /\ has_fail t2 = false.
Proof. exact equiv_check_no_fail. Qed.
Print Assumptions accepted_trees_are_total.

(* Fuel bounds the depth of an evaluation, it does not select a behaviour: an evaluation that succeeds keeps its value
   with any larger fuel, and an outcome of `run` that is not an error is the outcome for any larger fuel (so the
   `forall fuel` of the per-label theorems speaks about one behaviour per label, state and choice list). *)
Theorem eval_fuel_monotone : forall D f f' r e v, (f <= f')%nat -> eval D f r e = Ok v -> eval D f' r e = Ok v.
Proof. exact eval_fuel_mono. Qed.
Print Assumptions eval_fuel_monotone.

Theorem run_fuel_monotone : forall D t f f' r ks, (f <= f')%nat ->
  not_err (run D f t r ks) -> run D f' t r ks = run D f t r ks.
Proof. exact run_fuel_mono. Qed.
Print Assumptions run_fuel_monotone.

(* The substitution lemma for `subst` on the binder-free fragment `bf` (C02/Subst.v: no LET / function constructor /
   quantifier / comprehension / CHOOSE, no EXCEPT, no TState/TPrime, no `x \in T` with a bare temporary T): inlining the
   temporaries' expressions (what the symbolic execution does) yields the value the direct, eager evaluation with the
   temporaries bound to their values yields, given enough fuel. First step towards dtree_sound_go, which is NOT proved. *)
Theorem subst_binder_free_fragment : forall D locals selfe scratch S m r K,
  e_ldefs r = [] ->
  (forall x v, lookup x (e_vars r) = Some v -> exists e', lookup x m = Some e' /\ eval D K (noenv r) e' = Ok v) ->
  (forall f e', lookup f m = Some e' -> forall g, e' <> Nd (TVar g) []) ->
  forall f e v, bf e = true -> eval D f r e = Ok v ->
                eval D (f + K) (noenv r) (subst locals selfe scratch S m e) = Ok v.
Proof. exact subst_bf. Qed.
Print Assumptions subst_binder_free_fragment.

(* non-vacuity: two syntactically different trees with a choice, a branch and a commit are accepted
   (the normaliser removes the constant test), and a tree differing in one written expression,
   in a swapped branch, or with a dropped await is rejected. *)
Definition ex_commit (e : expr) : dtree :=
  Leaf (LCommit [("g", EExcept (EGlobal "g") [([ESelf], e)])] [("pc", EStr "next")] []).
Definition ex_t1 : dtree :=
  Branch (EOp B_gt [EOp B_Len [EApp (EGlobal "net") ESelf]; ENum 0])
    (Choice (EOp B_DOMAIN [EApp (EGlobal "net") ESelf])
       (Branch (EBool true) (ex_commit (EBound 0)) (Leaf LAssert)))
    (Leaf LAbort).
Definition ex_t2 : dtree :=
  Branch (EOp B_gt [EOp B_Len [EApp (EGlobal "net") ESelf]; ENum 0])
    (Choice (EOp B_DOMAIN [EApp (EGlobal "net") ESelf]) (ex_commit (EBound 0)))
    (Leaf LAbort).
Definition ex_wrong_expr : dtree :=
  Branch (EOp B_gt [EOp B_Len [EApp (EGlobal "net") ESelf]; ENum 0])
    (Choice (EOp B_DOMAIN [EApp (EGlobal "net") ESelf]) (ex_commit (ENum 0)))
    (Leaf LAbort).
Definition ex_swapped : dtree :=
  Branch (EOp B_gt [EOp B_Len [EApp (EGlobal "net") ESelf]; ENum 0])
    (Leaf LAbort)
    (Choice (EOp B_DOMAIN [EApp (EGlobal "net") ESelf]) (ex_commit (EBound 0))).
Definition ex_no_await : dtree :=
  Choice (EOp B_DOMAIN [EApp (EGlobal "net") ESelf]) (ex_commit (EBound 0)).

Example c02_nonvacuous :
  ex_t1 <> ex_t2 /\ equiv_check ex_t1 ex_t2 = true /\
  equiv_check ex_t1 ex_wrong_expr = false /\ equiv_check ex_t1 ex_swapped = false /\
  equiv_check ex_t1 ex_no_await = false.
Proof. split; [discriminate |]. vm_compute. repeat split. Qed.

(* ... and the accepted pair really runs to the same non-trivial outcome on a concrete state *)
Definition ex_env : env :=
  mkEnv (fun x => if String.eqb x "net" then VTup [VTup [VNum 7; VNum 8]] else VTup [VNum 0])
        (fun _ => VDefault) (VNum 1) (fun _ _ => Err "no constant") [] [] [] None.
Example c02_nonvacuous_run :
  run [] 100 ex_t1 ex_env [1%nat] = OCommit [("g", VTup [VNum 2])] [("pc", VStr "next")] [] /\
  run [] 100 ex_t2 ex_env [1%nat] = run [] 100 ex_t1 ex_env [1%nat] /\
  run [] 100 ex_wrong_expr ex_env [1%nat] <> run [] 100 ex_t1 ex_env [1%nat].
Proof. vm_compute. repeat split. discriminate. Qed.
