(* C18 — Execution traces are faithful and causally consistent.
   Only the property theorems, each closed by a lemma of C18/Proofs*.v, with Print Assumptions beneath.
   Model: C18/Model.v (tied to the Go runtime by the correspondence check, ./check C18).

   Everything is quantified over every configuration c (any number of archetype instances, any scripted
   program per instance - labels, retries, forced aborts, any reads/writes of locals, shared variables,
   channels and mailboxes, malformed ops included), and every schedule sched (any interleaving of single
   ops, with any outcome of the timer/network choices the implementation makes).  `run c sched` is the
   state reached; `a_log` is what the Recorder of an archetype received. *)
From PGV Require Import C18.Model C18.ProofsClock C18.ProofsFrame C18.ProofsLog C18.ProofsReplay C18.ProofsCausal C18.ProofsDom.
From Coq Require Import Lia.

(* logged exactly once, in program order: the events carry the attempt numbers 1, 2, 3, ... without gap or
   repetition; every attempt that was begun (a_att counts the InitCriticalSection calls) except the one still
   running is in the log; and the log agrees, attempt by attempt, with how the Run loop ended it
   (a_hist: committed or aborted). *)
Theorem logged_exactly_once_in_order : forall c sched a,
  a < List.length (cf_archs c) ->
  let A := g_arch (run c sched) a in
  map e_no (a_log A) = seq 1 (List.length (a_log A)) /\
  a_att A = S (List.length (a_log A)) /\
  map (fun e => (e_no e, e_abort e)) (a_log A) = map (fun h => (h_no h, h_abort h)) (a_hist A).
Proof. exact logged_once_lemma. Qed.
Print Assumptions logged_exactly_once_in_order.

(* elements faithful: the elements of every logged event are exactly (same order, names, indices, values,
   hints) the elements of the operations that attempt performed successfully (h_perf: what Read returned
   to / Write accepted from the caller, with the value overwritten), the logged clock is the sink clock at
   the end of the attempt, and the same holds for the attempt in flight. *)
Theorem elements_faithful : forall c sched a,
  a < List.length (cf_archs c) ->
  let A := g_arch (run c sched) a in
  map e_elems (a_log A) = map (fun h => map elem_of (h_perf h)) (a_hist A) /\
  map e_clock (a_log A) = map h_clock (a_hist A) /\
  a_elems A = map elem_of (a_perf A).
Proof. exact elements_faithful_lemma. Qed.
Print Assumptions elements_faithful.

(* ... where a successful Read records the value it returns, a successful Write records the value written and,
   as its hint, the value it overwrote (none for channels and mailboxes), and a failed or panicking
   operation records nothing - from any state whatsoever. *)
Theorem read_element_faithful : forall st a r idx tmo,
  match do_read st a r idx tmo with
  | RROk st' v => a_elems (g_arch st' a) = a_elems (g_arch st a) ++ [ERead r idx v]
  | RRAbort st' | RRCrash st' => a_elems (g_arch st' a) = a_elems (g_arch st a)
  end.
Proof.
  intros st a r idx tmo. pose proof (do_read_trace st a r idx tmo) as T. cbn zeta in T.
  destruct (do_read st a r idx tmo); apply T.
Qed.
Print Assumptions read_element_faithful.

Theorem write_element_faithful : forall st a r idx z tmo,
  match do_write st a r idx z tmo with
  | WROk st' => a_elems (g_arch st' a) = a_elems (g_arch st a) ++ [EWrite r idx (VInt z) (overwritten st a r idx)]
  | WRAbort st' | WRCrash st' => a_elems (g_arch st' a) = a_elems (g_arch st a)
  end.
Proof.
  intros st a r idx z tmo. pose proof (do_write_trace st a r idx z tmo) as T. cbn zeta in T.
  destruct (do_write st a r idx z tmo); apply T.
Qed.
Print Assumptions write_element_faithful.

(* replay: running the log of an archetype against its initial local state - elements of an attempt applied
   to a tentative copy that is kept only if the attempt committed - every logged read of .pc or of a local
   variable (whole or at an index) shows the replayed value, and every logged write of local state carries
   the overwritten value as its hint. *)
Theorem replay_reproduces_local_reads : forall c sched a,
  a < List.length (cf_archs c) ->
  snd (replay_log (init_store a (nth a (cf_archs c) no_arch)) (a_log (g_arch (run c sched) a))) = true.
Proof. exact replay_ok_lemma. Qed.
Print Assumptions replay_reproduces_local_reads.

(* own component = number of attempts: the event of attempt number k carries k in the archetype's own
   component (with logged_exactly_once_in_order: 1, 2, 3, ... along the log) *)
Theorem own_component : forall c sched a e,
  In e (a_log (g_arch (run c sched) a)) -> vget a (e_clock e) = e_no e.
Proof. exact own_component_lemma. Qed.
Print Assumptions own_component.

(* ... so along the log it is 1, 2, 3, ...: it grows by exactly one per logged attempt, committed or aborted *)
Theorem own_component_grows_by_one : forall c sched a k e,
  a < List.length (cf_archs c) ->
  nth_error (a_log (g_arch (run c sched) a)) k = Some e -> vget a (e_clock e) = S k.
Proof. exact own_component_seq_lemma. Qed.
Print Assumptions own_component_grows_by_one.

(* ------------------------------------------------------------------------------------------------
   reader dominates writer.  e_srcs er lists, for every read of the attempt, the kind of resource and the
   (ghost) attempt (w, i) that wrote the value returned.  Full statement: *)
Definition reader_dominates_writer_stmt : Prop := forall c sched r er k w i ew,
  In er (a_log (g_arch (run c sched) r)) -> In (k, (w, i)) (e_srcs er) ->
  In ew (a_log (g_arch (run c sched) w)) -> e_no ew = i ->
  vle (e_clock ew) (e_clock er).

(* It holds for every value read from archetype-local state, from a variable shared between archetypes
   (LocalShared; after the repair of LocalArchetypeResource.Commit, commit c36dcc47) and from a channel:
   the reader's event clock dominates the event clock of the attempt that wrote or sent the value -
   whatever else either attempt did, for aborted readers too, in every interleaving. *)
Theorem reader_dominates_writer : forall c sched r er k w i ew,
  In er (a_log (g_arch (run c sched) r)) -> In (k, (w, i)) (e_srcs er) -> k <> KBox ->
  In ew (a_log (g_arch (run c sched) w)) -> e_no ew = i ->
  vle (e_clock ew) (e_clock er).
Proof. exact reader_dominates_writer_lemma. Qed.
Print Assumptions reader_dominates_writer.

(* values relayed over several hops: domination composes along every chain of such reads *)
Theorem reader_dominates_writer_relay : forall c sched r er k w i ew k' z j ez,
  In er (a_log (g_arch (run c sched) r)) -> In (k, (w, i)) (e_srcs er) -> k <> KBox ->
  In ew (a_log (g_arch (run c sched) w)) -> e_no ew = i ->
  In (k', (z, j)) (e_srcs ew) -> k' <> KBox ->
  In ez (a_log (g_arch (run c sched) z)) -> e_no ez = j ->
  vle (e_clock ez) (e_clock er).
Proof.
  intros c sched r er k w i ew k' z j ez H1 H2 H3 H4 H5 H6 H7 H8 H9.
  eapply vle_trans; [eapply (reader_dominates_writer_lemma c sched w ew k' z j ez); eassumption|
                     eapply (reader_dominates_writer_lemma c sched r er k w i ew); eassumption].
Qed.
Print Assumptions reader_dominates_writer_relay.

(* It is false for TCP mailboxes (the value is encoded with the sender's clock as of the Write, the sender's
   event carries its clock as of commit).  Witness: Z (0) sends 7 to mailbox 1 (owned by W); W (1) sends 5 to
   mailbox 0 (owned by R) and THEN reads Z's message, commits; R (2) reads W's message.
   W's event clock is {Z:1, W:1}, R's is {W:1, R:1}. *)
Definition wit_cfg : cfg :=
  mkCfg [mkACfg [[([OWrite (NBox 1) [] (EConst 7)], false)]] [];
         mkACfg [[([OWrite (NBox 0) [] (EConst 5); ORead (NBox 1) []], false)]] [];
         mkACfg [[([ORead (NBox 0) []], false)]] []]
        [] [2; 1].
Definition wit_sched : list (nat * bool) :=
  [(0, false); (0, false); (1, false); (1, false); (1, false); (2, false); (2, false)].

Theorem reader_dominates_writer_refuted :
  exists c sched r er k w i ew,
    In er (a_log (g_arch (run c sched) r)) /\ In (k, (w, i)) (e_srcs er) /\
    In ew (a_log (g_arch (run c sched) w)) /\ e_no ew = i /\
    k = KBox /\ vget 0 (e_clock er) < vget 0 (e_clock ew).
Proof.
  exists wit_cfg, wit_sched, 2.
  eexists. exists KBox, 1, 1. eexists.
  split; [vm_compute; left; reflexivity|].
  split; [vm_compute; right; left; reflexivity|].
  split; [vm_compute; left; reflexivity|].
  vm_compute. repeat split. lia.
Qed.
Print Assumptions reader_dominates_writer_refuted.

Theorem reader_dominates_writer_stmt_is_false : ~ reader_dominates_writer_stmt.
Proof.
  intros H. destruct reader_dominates_writer_refuted as (c & sched & r & er & k & w & i & ew & H1 & H2 & H3 & H4 & _ & H5).
  specialize (H c sched r er k w i ew H1 H2 H3 H4 0). lia.
Qed.
Print Assumptions reader_dominates_writer_stmt_is_false.

(* What holds for every resource kind, mailboxes included: the reader's clock covers the writing attempt in
   the writer's own component (the reader knows that attempt (w, i) happened; by own_component the writer's
   event carries exactly i there). *)
Theorem reader_covers_writer_component : forall c sched r er k w i,
  In er (a_log (g_arch (run c sched) r)) -> In (k, (w, i)) (e_srcs er) -> i <= vget w (e_clock er).
Proof. exact reader_covers_writer_component_lemma. Qed.
Print Assumptions reader_covers_writer_component.

(* ------------------------------------------------------------------------------------------------ non-vacuity *)

(* the scenario that was broken before the repair of LocalArchetypeResource.Commit: Z sends on a channel;
   W writes the shared variable and then reads Z's message; R reads the shared variable.
   R's event names W's attempt as the source of what it read, and dominates it. *)
Definition ex_cfg : cfg :=
  mkCfg [mkACfg [[([OWrite (NOut 0) [] (EConst 7)], false)]] [];
         mkACfg [[([OWrite (NShr 0) [] (EConst 5); ORead (NIn 0) []; OWrite (NLoc 0) [] (ELast 1)], false)]] [VInt 3];
         mkACfg [[([ORead (NShr 0) []], true); ([ORead (NShr 0) []], false)]] []]
        [VInt 0] [].
Definition ex_sched : list (nat * bool) :=
  map (fun a => (a, false)) [0; 0; 1; 1; 1; 1; 2; 2; 2; 2].

Example c18_nonvacuous :
  let st := run ex_cfg ex_sched in
  map (fun e => (e_no e, e_abort e, vvec 3 (e_clock e))) (a_log (g_arch st 2)) = [(1, true, [1; 1; 1]); (2, false, [1; 1; 2])] /\
  map e_srcs (a_log (g_arch st 2)) = [[(KLoc, (2, 0)); (KShr, (1, 1))]; [(KLoc, (2, 0)); (KShr, (1, 1))]] /\
  map (fun e => vvec 3 (e_clock e)) (a_log (g_arch st 1)) = [[1; 1; 0]] /\
  List.length (a_hist (g_arch st 1)) = 1 /\
  map e_elems (a_log (g_arch st 1)) =
    [[ERead NPc [] (VInt 0); EWrite (NShr 0) [] (VInt 5) (Some (VInt 0)); ERead (NIn 0) [] (VInt 7);
      EWrite (NLoc 0) [] (VInt 8) (Some (VInt 3)); EWrite NPc [] (VInt 1) (Some (VInt 0))]] /\
  snd (replay_log (init_store 1 (nth 1 (cf_archs ex_cfg) no_arch)) (a_log (g_arch st 1))) = true.
Proof. vm_compute. repeat split. Qed.
