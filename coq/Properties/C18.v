(* C18 — temporary stub while the proofs are being built *)
From PGV Require Import C18.Model C18.ProofsClock.
Theorem merge_is_lub : forall a b k, vget k (vmerge a b) = Nat.max (vget k a) (vget k b).
Proof. exact vget_vmerge. Qed.
Print Assumptions merge_is_lub.
