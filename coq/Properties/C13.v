(* C13 — the CRDT resource delivers every committed update and loses none.
   This file holds only the property theorems (each closed by applying the lemma of C13/Proofs.v),
   with Print Assumptions beneath, and non-vacuity examples.
   Model: C13/Model.v (crdt.go after the two fix: commits; tied to the Go code by ./check C13).

   The payload type is ANY join-semilattice: a Section with the laws as hypotheses. `below g x` reads
   "x is under every upper bound of the committed and externally injected states", i.e. x carries no
   information of a section that is still open or was aborted. `covers v q y` reads "y is an upper
   bound of the value v and of every queued message in q". *)
From PGV Require Import C13.Model C13.Proofs C13.ProofsGC C12.ProofsGC.
From Coq Require Import Lia.
Open Scope Z_scope.

Section AnySemilattice.
  Variables (T A : Type).
  Variable init : T.
  Variable write : Z -> A -> T -> T.
  Variable merge : T -> T -> T.
  Variable peers : Z -> list Z.
  Variable ok : T -> Prop.
  Variable le : T -> T -> Prop.
  Variable wpre : Z -> A -> T -> Prop.
  Hypothesis ok_init : ok init.
  Hypothesis le_refl : forall x, ok x -> le x x.
  Hypothesis le_trans : forall x y z, le x y -> le y z -> le x z.
  Hypothesis init_least : forall x, ok x -> le init x.
  Hypothesis merge_ok : forall x y, ok x -> ok y -> ok (merge x y).
  Hypothesis merge_ub_l : forall x y, ok x -> ok y -> le x (merge x y).
  Hypothesis merge_ub_r : forall x y, ok x -> ok y -> le y (merge x y).
  Hypothesis merge_lub : forall x y z, ok x -> ok y -> ok z -> le x z -> le y z -> le (merge x y) z.
  Hypothesis write_ok : forall i a x, ok x -> wpre i a x -> ok (write i a x).
  Hypothesis write_infl : forall i a x, ok x -> wpre i a x -> le x (write i a x).

  Notation valid := (valid T A init write merge peers ok wpre).
  Notation xrun := (xrun T A init write merge peers).

  (* every interleaving of write / commit / abort / tick (any subset of answering peers) / external
     ReceiveValue / merge step, on any number of nodes: *)

  (* inflight_never_broadcast: whatever leaves a node — the payload of a broadcast round, the replies
     of the peers, the reply to an external ReceiveValue — is below the committed/injected states *)
  Theorem inflight_never_broadcast : forall evs e p, valid (evs ++ [e]) ->
    In p (sent T A (fst (xrun evs)) e) -> ok p /\ below T ok le (snd (xrun evs)) p.
  Proof. eapply sent_below; eassumption. Qed.

  (* aborted_disappears: an abort restores the stable value; and at all times the stable value of every
     node, every queued message, and the working value of every node with no section in flight are
     below the committed/injected states: no update of an aborted section survives anywhere *)
  Theorem aborted_disappears : forall evs i, valid evs ->
    let st := fst (xrun evs) in let g := snd (xrun evs) in
    (n_hasold (st i) = false -> below T ok le g (n_value (st i))) /\
    (forall v, In v (n_queue (st i)) -> below T ok le g v) /\ below T ok le g (stable (st i)).
  Proof. eapply nothing_uncommitted_survives; eassumption. Qed.

  Theorem abort_restores : forall (st : state T) i,
    n_value (step T A write merge peers st (EAbort i) i) = stable (st i) /\
    n_hasold (step T A write merge peers st (EAbort i) i) = false.
  Proof. apply abort_restores_stable. Qed.

  (* received_never_lost: every state a node ever received (broadcast payloads, replies, external
     values) stays under every upper bound of its value and its queue — also right after an abort *)
  Theorem received_never_lost : forall evs i v, valid evs ->
    let st := fst (xrun evs) in let g := snd (xrun evs) in
    In v (g_recvd g i) -> forall y, covers T ok le (n_value (st i)) (n_queue (st i)) y -> le v y.
  Proof. eapply received_never_lost; eassumption. Qed.

  (* owed_after_commit: a writing commit sets the owed count to the number of peers, and (when the
     broadcast rounds reach every other peer) the count of a node can be 0 only if every other peer
     has received a state above that node's last committed state *)
  Theorem owed_after_commit : forall evs, valid evs -> full T A peers evs ->
    owed T init peers le (fst (xrun evs)) (snd (xrun evs)).
  Proof. eapply owed_after_commit; eassumption. Qed.

  Theorem commit_sets_owed : forall (st : state T) i, n_hasold (st i) = true ->
    n_need (step T A write merge peers st (ECommit i) i) = List.length (peers i).
  Proof. apply commit_sets_owed. Qed.

  (* eventual_delivery, as bounded-round quiescent convergence: in a full mesh N, after any schedule of
     the mesh that leaves no section in flight, one broadcast round per node followed by draining the
     merge queues makes every replica below every other: all replicas are equal *)
  Theorem eventual_delivery : forall N,
    (forall i j, In i N -> In j N -> i <> j -> In j (others peers i)) ->
    forall evs, valid evs -> internal T A peers N evs ->
    (forall i, In i N -> n_hasold (fst (xrun evs) i) = false) ->
    let st1 := fst (xrun (evs ++ ticks T A peers N)) in
    let st2 := fst (xrun (evs ++ ticks T A peers N ++ merges T A N st1)) in
    forall i j, In i N -> In j N -> le (n_value (st2 i)) (n_value (st2 j)).
  Proof. intros N Hmesh. eapply eventual_delivery; eassumption. Qed.
End AnySemilattice.

Print Assumptions inflight_never_broadcast.
Print Assumptions aborted_disappears.
Print Assumptions abort_restores.
Print Assumptions received_never_lost.
Print Assumptions owed_after_commit.
Print Assumptions commit_sets_owed.
Print Assumptions eventual_delivery.

(* ================================================================ instance: GCounter payload (C12) *)
Notation gcr_valid n self dead := (valid gc Z gc_init gc_write gc_merge (mesh_peers n self dead) gc_wf gc_wpre).
Notation gcr_xrun n self dead := (xrun gc Z gc_init gc_write gc_merge (mesh_peers n self dead)).

Definition mesh_nodes (n : nat) : list Z := map Z.of_nat (seq 0 n).

Lemma mesh_is_mesh : forall n self dead i j, In i (mesh_nodes n) -> In j (mesh_nodes n) -> i <> j ->
  In j (others (mesh_peers n self dead) i).
Proof.
  intros n self dead i j Hi Hj Hne. unfold others, mesh_peers. apply filter_In. split.
  - apply in_or_app. left. apply filter_In. split; [exact Hj|].
    destruct self; cbn; [reflexivity|]. destruct (j =? i) eqn:E; [lia|reflexivity].
  - destruct (j =? i) eqn:E; [lia|reflexivity].
Qed.

(* the GCounter of C12 satisfies the hypotheses of the Section: all replicas of a mesh of GCounter
   resources read the same number after the settling continuation *)
Theorem gcounter_resource_converges : forall n self dead evs,
  gcr_valid n self dead evs -> internal gc Z (mesh_peers n self dead) (mesh_nodes n) evs ->
  (forall i, In i (mesh_nodes n) -> n_hasold (fst (gcr_xrun n self dead evs) i) = false) ->
  let st1 := fst (gcr_xrun n self dead (evs ++ ticks gc Z (mesh_peers n self dead) (mesh_nodes n))) in
  let st2 := fst (gcr_xrun n self dead (evs ++ ticks gc Z (mesh_peers n self dead) (mesh_nodes n) ++ merges gc Z (mesh_nodes n) st1)) in
  forall i j, In i (mesh_nodes n) -> In j (mesh_nodes n) ->
  gc_read (n_value (st2 i)) = gc_read (n_value (st2 j)).
Proof.
  intros n self dead evs Hv Hint Hcl st1 st2 i j Hi Hj.
  assert (Hle : forall a b, In a (mesh_nodes n) -> In b (mesh_nodes n) -> gc_le (n_value (st2 a)) (n_value (st2 b))).
  { intros a b Ha Hb.
    apply (Proofs.eventual_delivery gc Z gc_init gc_write gc_merge (mesh_peers n self dead) gc_wf gc_le gc_wpre
             gc_wf_init gc_le_refl gc_le_trans gc_init_least gc_merge_wf gc_merge_ub_l gc_merge_ub_r gc_merge_lub
             gc_write_wf gc_write_infl_le (mesh_nodes n) (mesh_is_mesh n self dead) evs Hv Hint Hcl a b Ha Hb). }
  assert (Hwf : forall a, gc_wf (n_value (st2 a))).
  { intros a.
    assert (Hv2 : gcr_valid n self dead (evs ++ ticks gc Z (mesh_peers n self dead) (mesh_nodes n) ++ merges gc Z (mesh_nodes n) st1)).
    { unfold Proofs.valid. apply valid_from_app. split; [exact Hv|]. apply quiet_valid with (N := mesh_nodes n).
      apply Forall_app. split; [apply ticks_quiet|apply merges_quiet]. }
    pose proof (inv_run gc Z gc_init gc_write gc_merge (mesh_peers n self dead) gc_wf gc_le gc_wpre
             gc_wf_init gc_le_refl gc_le_trans gc_init_least gc_merge_wf gc_merge_ub_l gc_merge_ub_r gc_merge_lub
             gc_write_wf gc_write_infl_le _ Hv2) as Hinv.
    destruct (i_ok _ _ _ _ _ Hinv a) as (Hok & _). exact Hok. }
  apply gc_le_antisym; auto.
Qed.
Print Assumptions gcounter_resource_converges.

(* non-vacuity: a three-node mesh; node 1 writes, a broadcast round of node 1 falls between the write and
   the commit; node 2 receives a broadcast during a section that it then aborts. The schedule is valid
   and internal, no section is left open, and after the settling continuation the three replicas read
   3 + 2 = 5 (node 2's aborted increment of 4 is gone). *)
Definition gcr_example : list gcr_event :=
  [EWrite 0 3; ECommit 0; EWrite 1 2; ETick 1 [0; 2]; EWrite 2 4; ETick 0 [1; 2]; EMerge 2; EMerge 1;
   EAbort 2; ECommit 1; EMerge 0; EMerge 0].

Example gcr_nonvacuous :
  gcr_valid 3 false false gcr_example /\ internal gc Z (mesh_peers 3 false false) (mesh_nodes 3) gcr_example /\
  (forall i, In i (mesh_nodes 3) -> n_hasold (fst (gcr_xrun 3 false false gcr_example) i) = false) /\
  let st1 := fst (gcr_xrun 3 false false (gcr_example ++ ticks gc Z (mesh_peers 3 false false) (mesh_nodes 3))) in
  let st2 := fst (gcr_xrun 3 false false (gcr_example ++ ticks gc Z (mesh_peers 3 false false) (mesh_nodes 3) ++ merges gc Z (mesh_nodes 3) st1)) in
  map (fun i => gc_read (n_value (st2 i))) (mesh_nodes 3) = [5; 5; 5] /\
  map (fun i => gc_read (n_value (fst (gcr_xrun 3 false false gcr_example) i))) (mesh_nodes 3) = [3; 5; 3].
Proof.
  split; [|split; [|split]].
  - unfold Proofs.valid, gcr_example. cbn [valid_from]. repeat split; vm_compute; try reflexivity; intros; discriminate.
  - unfold gcr_example, internal.
    repeat (apply Forall_cons; [split; [vm_compute; tauto|split; vm_compute; first [reflexivity|exact I]]|]).
    apply Forall_nil.
  - intros i Hi. cbn in Hi. destruct Hi as [<-|[<-|[<-|[]]]]; vm_compute; reflexivity.
  - split; vm_compute; reflexivity.
Qed.

(* ================================================================ the finer-grained model (C13/ModelFine.v) *)
(* A broadcast round is begin / per-peer serve / drop / per-reply handling, the merger is take / apply, and
   all of these interleave freely with write / commit / abort / external ReceiveValue. The model mirrors crdt.go
   after fix 0c26be54 (needBroadcastGen). The theorems are proved for it directly (C13/ProofsFine.v). *)
From PGV Require Import C13.ModelFine C13.ProofsFine.

Section FineGrained.
  Variables (T A : Type).
  Variable init : T.
  Variable write : Z -> A -> T -> T.
  Variable merge : T -> T -> T.
  Variable peers : Z -> list Z.
  Variable ok : T -> Prop.
  Variable le : T -> T -> Prop.
  Variable wpre : Z -> A -> T -> Prop.
  Hypothesis ok_init : ok init.
  Hypothesis le_refl : forall x, ok x -> le x x.
  Hypothesis le_trans : forall x y z, le x y -> le y z -> le x z.
  Hypothesis init_least : forall x, ok x -> le init x.
  Hypothesis merge_ok : forall x y, ok x -> ok y -> ok (merge x y).
  Hypothesis merge_ub_l : forall x y, ok x -> ok y -> le x (merge x y).
  Hypothesis merge_ub_r : forall x y, ok x -> ok y -> le y (merge x y).
  Hypothesis merge_lub : forall x y z, ok x -> ok y -> ok z -> le x z -> le y z -> le (merge x y) z.
  Hypothesis write_ok : forall i a x, ok x -> wpre i a x -> ok (write i a x).
  Hypothesis write_infl : forall i a x, ok x -> wpre i a x -> le x (write i a x).

  Notation fvalid := (fvalid T A init write merge peers ok wpre).
  Notation fxrun := (fxrun T A init write merge peers).

  (* every payload read at the start of a round, every reply a peer sends when it serves a call, every reply
     to an external ReceiveValue is below the committed/injected states *)
  Theorem fine_inflight_never_broadcast : forall evs e p, fvalid (evs ++ [e]) ->
    In p (fsent T A (fst (fxrun evs)) e) -> ok p /\ fbelow T ok le (snd (fxrun evs)) p.
  Proof. eapply fine_sent_below; eassumption. Qed.

  (* ... and so are, at all times, the stable value of every node, everything waiting to be merged (queue and
     what the merger holds), the payload and the pending replies of every round in flight, and the value of
     every node with no section in flight *)
  Theorem fine_aborted_disappears : forall evs i, fvalid evs ->
    let st := fst (fxrun evs) in let g := snd (fxrun evs) in
    (f_hasold (st i) = false -> fbelow T ok le g (f_value (st i))) /\
    (forall v, In v (pend T (st i)) -> fbelow T ok le g v) /\
    (forall v, In v (round_vals T (st i)) -> fbelow T ok le g v) /\ fbelow T ok le g (fstable (st i)).
  Proof. eapply fine_nothing_uncommitted_survives; eassumption. Qed.

  (* everything a node received stays under every upper bound of its value, its queue and what its merger holds *)
  Theorem fine_received_never_lost : forall evs i v, fvalid evs ->
    let st := fst (fxrun evs) in let g := snd (fxrun evs) in
    In v (h_recvd g i) -> forall y, fcovers T ok le (f_value (st i)) (pend T (st i)) y -> le v y.
  Proof. eapply fine_received_never_lost; eassumption. Qed.

  (* the repair 0c26be54 as a theorem: after a writing commit of node i the owed count stays len(peerIds),
     whatever happens afterwards — replies of a round that was in flight at the commit, serves, other commits,
     merges — as long as node i does not begin a new round *)
  Theorem commit_during_round_still_owed : forall evs i evs', fvalid evs ->
    f_hasold (fst (fxrun evs) i) = true -> Forall (not_begin T A i) evs' ->
    f_need (frun T A init write merge peers (evs ++ [FCommit i] ++ evs') i) = List.length (peers i).
  Proof. eapply commit_during_round_still_owed; eassumption. Qed.

  (* when rounds reach every other peer (no call fails), the owed count of a node can be 0 only if every other
     peer has received a state above the node's last committed one *)
  Theorem fine_owed_after_commit : (forall i, NoDup (peers i)) -> forall evs i, fvalid evs -> ffull T A peers evs ->
    f_need (fst (fxrun evs) i) = 0%nat ->
    forall j, In j (others peers i) -> fdelivered T init le (snd (fxrun evs)) i j.
  Proof. intros Hnd. eapply fine_owed_after_commit; eassumption. Qed.

  (* quiescent convergence *)
  Theorem fine_eventual_delivery : (forall i, NoDup (peers i)) -> forall N,
    (forall i j, In i N -> In j N -> i <> j -> In j (others peers i)) ->
    forall evs, fvalid evs -> finternal T A peers N evs ->
    let st := fst (fxrun evs) in let g := snd (fxrun evs) in
    (forall i, In i N -> f_hasold (st i) = false /\ pend T (st i) = [] /\
                         (f_need (st i) = 0%nat \/ unserved T peers g i = [])) ->
    forall i j, In i N -> In j N -> le (f_value (st i)) (f_value (st j)).
  Proof. intros Hnd N Hmesh. eapply fine_quiescent_converged; eassumption. Qed.
End FineGrained.

Print Assumptions fine_inflight_never_broadcast.
Print Assumptions fine_aborted_disappears.
Print Assumptions fine_received_never_lost.
Print Assumptions commit_during_round_still_owed.
Print Assumptions fine_owed_after_commit.
Print Assumptions fine_eventual_delivery.

(* non-vacuity (GCounter payload, two nodes, peer lists without self): node 0 commits +1, starts a round,
   commits +2 while the round is in flight; the stale reply does not consume the new count (it stays 1);
   a second round delivers; afterwards the state is quiescent in the sense of fine_eventual_delivery and
   both replicas read 3 *)
Definition fine_example : list (fevent gc Z) :=
  [FWrite 0 1; FCommit 0; FBegin 0 [1]; FWrite 0 2; FCommit 0; FServe 0 1; FReply 0;
   FTake 1; FApply 1; FTake 0; FApply 0; FBegin 0 [1]; FServe 0 1; FReply 0; FTake 1; FApply 1; FTake 0; FApply 0].

Example fine_nonvacuous :
  let P := mesh_peers 2 false false in
  fvalid gc Z gc_init gc_write gc_merge P gc_wf gc_wpre fine_example /\
  finternal gc Z P (mesh_nodes 2) fine_example /\
  f_need (frun gc Z gc_init gc_write gc_merge P (firstn 7 fine_example) 0) = 1%nat /\
  (let st := fst (fxrun gc Z gc_init gc_write gc_merge P fine_example) in
   let g := snd (fxrun gc Z gc_init gc_write gc_merge P fine_example) in
   (forall i, In i (mesh_nodes 2) -> f_hasold (st i) = false /\ pend gc (st i) = [] /\
                                    (f_need (st i) = 0%nat \/ unserved gc P g i = [])) /\
   map (fun i => gc_read (f_value (st i))) (mesh_nodes 2) = [3; 3]).
Proof.
  cbn zeta. split; [|split; [|split; [|split]]].
  - unfold ProofsFine.fvalid, fine_example. cbn [fvalid_from]. repeat split; vm_compute; try reflexivity; intros; discriminate.
  - unfold fine_example, finternal.
    repeat (apply Forall_cons; [split; [vm_compute; tauto|split; vm_compute; first [reflexivity|exact I]]|]).
    apply Forall_nil.
  - vm_compute. reflexivity.
  - intros i Hi. cbn in Hi. destruct Hi as [<-|[<-|[]]]; (split; [vm_compute; reflexivity|split; [vm_compute; reflexivity|]]).
    + left. vm_compute. reflexivity.
    + left. vm_compute. reflexivity.
  - vm_compute. reflexivity.
Qed.
