(* C09 — Raft KV clients observe a linearizable key-value store.
   Only the property theorems, each closed by `exact <lemma>`, with Print Assumptions beneath.
   Histories are those of the executions of C08/Model.v (the typed model of raftkvs.tla/raftkvs.go, tied to the generated Go by
   ./check C08 and ./check C09): invocations = reads of reqCh, responses = writes of respCh.
   C09/Model.v: sequential KV specification and the executable checker `linearizable`;
   C09/Proofs.v: the checker decides the definition `lin_spec`, for every history. *)
From PGV Require Import C09.Model C09.Proofs C09.Proofs2 C09.Proofs3.
From PGV Require Import C08.Proofs1.

(* the checker is sound and complete for the definition of linearizability, for every history *)
Theorem linearizable_sound : forall h, linearizable h = true -> lin_spec h.
Proof. exact linearizable_sound_lemma. Qed.
Print Assumptions linearizable_sound.

Theorem linearizable_complete : forall h, lin_spec h -> linearizable h = true.
Proof. exact linearizable_complete_lemma. Qed.
Print Assumptions linearizable_complete.

(* THE FULL STATEMENT of the property: every history of every execution (per-link FIFO network, any number of servers,
   clients and keys, any timeouts / retries / crashes) is linearizable. *)
Definition raft_kv_linearizable : Prop :=
  forall cfg evs s, cfg_fifo cfg = true -> exec cfg (init cfg) evs = Some s -> lin_spec (history s).

(* It is FALSE: AClient.rcvResp re-sends the same request (same idx) after a timeout and the servers do not deduplicate.
   Witness: one server, two clients. Client 7 sends Put(k1,v1), times out and sends it again; the first copy is appended,
   committed, applied and acknowledged; client 8's Put(k1,v2) is appended, applied and acknowledged; then the delayed second copy
   of Put(k1,v1) is appended and applied; client 8's Get(k1) returns v1. The three operations are sequential in real time.
   The same schedule is replayed on the real generated Go by ./check C09 (corpus/C09/retry_duplicate.json). *)
Definition w_cfg := mkConfig 1 2 10 true true true.
Definition w_evs : list event :=
 [ERVTimeout 1 true 0; EBecomeLeader 1 0; EClientLoop 7 (mkReq CPut 1 1); EClientSnd 7 1 0 true;
  EClientTimeout 7 false 0 true; EClientSnd 7 1 0 true; EServerLoop 1 0; EHandleMsg 1 0 true; EAdvance 1; EApply 1;
  EClientRcv 7 0; EClientLoop 8 (mkReq CPut 1 2); EClientSnd 8 1 0 true; EServerLoop 1 1; EHandleMsg 1 0 true;
  EApply 1; EAdvance 1; EApply 1; EClientRcv 8 0; EServerLoop 1 0; EHandleMsg 1 0 true; EApply 1; EAdvance 1; EApply 1;
  EClientLoop 8 (mkReq CGet 1 0); EClientSnd 8 1 0 true; EServerLoop 1 0; EHandleMsg 1 0 true; EApply 1; EAdvance 1;
  EApply 1; EClientRcv 8 0].

Theorem raft_kv_linearizable_refuted :
  exists cfg evs s, cfg_fifo cfg = true /\ exec cfg (init cfg) evs = Some s /\
                    linearizable (history s) = false /\ ~ lin_spec (history s).
Proof.
  exists w_cfg, w_evs. eexists. split; [reflexivity|]. split; [vm_compute; reflexivity|].
  assert (H : linearizable
    [HInv 7 1 (mkReq CPut 1 1); HResp 7 1 CPut 1 1 true; HInv 8 1 (mkReq CPut 1 2); HResp 8 1 CPut 1 2 true;
     HInv 8 2 (mkReq CGet 1 0); HResp 8 2 CGet 1 1 true] = false) by (vm_compute; reflexivity).
  split; [exact H|]. intros L. apply linearizable_complete_lemma in L. cbv [history hist rev app] in L.
  rewrite H in L. discriminate.
Qed.
Print Assumptions raft_kv_linearizable_refuted.

Theorem raft_kv_linearizable_is_false : ~ raft_kv_linearizable.
Proof.
  intros H. destruct raft_kv_linearizable_refuted as (cfg & evs & s & F & E & _ & N). exact (N (H cfg evs s F E)).
Qed.
Print Assumptions raft_kv_linearizable_is_false.

(* What does hold (per-link FIFO network, any number of servers/clients, any crashes, timeouts, retries, leader changes):
   an acknowledged Put is never lost. If the history contains the acknowledgement of client c's idx-th request Put(key,v), then the
   log entry (term, [idx, Put, key, v], c) that produced it is applied at some index p, and in every continuation of the execution
   every server whose commitIndex reaches p holds exactly that entry at p (so it is never overwritten, reordered or dropped). *)
Theorem acknowledged_put_never_lost : forall cfg evs1 s1 c idx key v ok,
  cfg_fifo cfg = true -> exec cfg (init cfg) evs1 = Some s1 ->
  In (HResp c idx CPut key v ok) (history s1) ->
  exists p e, e_client e = c /\ e_cmd e = mkCmd idx CPut key v /\ ok = true /\ applied cfg s1 p e /\
    forall evs2 s2, exec cfg s1 evs2 = Some s2 ->
      forall j, p <= s_commit (srv s2 j) -> log_at (s_log (srv s2 j)) p = Some e.
Proof.
  intros cfg evs1 s1 c idx key v ok Hf H1 Hin. unfold history in Hin. apply in_rev in Hin.
  destruct (acknowledged_put_never_lost_lemma cfg s1 c idx key v ok Hf (exec_reachable cfg evs1 s1 H1) Hin)
    as (p & e & A & B & C & D & E).
  exists p, e. repeat split; auto. intros evs2 s2 H2. apply E. eapply exec_steps; eauto.
Qed.
Print Assumptions acknowledged_put_never_lost.

(* ... and the store is linearizable whenever no client request is applied twice: if in the final state no two applied log positions
   of a server carry the same (client, request number) -- which is the case in every execution in which no client re-sends a request
   whose first copy gets applied, e.g. without client timeouts -- then the history is linearizable (in the order of the applied log).
   Any number of servers/clients/keys, crashes, leader changes, message loss; per-link FIFO network. *)
Theorem linearizable_without_retry : forall cfg evs s,
  cfg_fifo cfg = true -> exec cfg (init cfg) evs = Some s -> no_dup_applied cfg s -> lin_spec (history s).
Proof.
  intros cfg evs s Hf H ND. exact (linearizable_without_retry_lemma cfg s Hf (exec_reachable cfg evs s H) ND).
Qed.
Print Assumptions linearizable_without_retry.

(* non-vacuity: the first 19 events of the witness (both Puts applied and acknowledged, the retried copy still in flight) satisfy the
   hypothesis; after the whole witness they do not (the copy has been applied a second time) *)
Example without_retry_nonvacuous :
  match exec w_cfg (init w_cfg) (firstn 19 w_evs), exec w_cfg (init w_cfg) w_evs with
  | Some s1, Some s2 => no_dup_applied_b w_cfg s1 = true /\ List.length (history s1) = 4 /\ linearizable (history s1) = true /\
                        no_dup_applied_b w_cfg s2 = false
  | _, _ => False
  end.
Proof. vm_compute. repeat split; reflexivity. Qed.

(* non-vacuity: in the witness execution above both Puts are acknowledged (the theorem applies to them: the history is
   non-linearizable although no acknowledged Put is lost -- the defect is the RE-application of Put(k1,v1)) *)
Example never_lost_nonvacuous :
  match exec w_cfg (init w_cfg) w_evs with
  | Some s => In (HResp 7 1 CPut 1 1 true) (history s) /\ In (HResp 8 1 CPut 1 2 true) (history s) /\
              map (fun e => (c_idx (e_cmd e), c_key (e_cmd e), c_val (e_cmd e), e_client e)) (s_log (srv s 1))
              = [(1, 1, 1, 7); (1, 1, 2, 8); (1, 1, 1, 7); (2, 1, 0, 8)]
  | None => False
  end.
Proof. vm_compute. repeat split; auto. Qed.

(* ---------- non-vacuity of the checker: a concurrent history that is linearizable only by reordering overlapping operations,
   and the same history with a stale read, which is not ---------- *)
Example lin_example_true :
  linearizable [HInv 1 1 (mkReq CPut 1 5); HInv 2 1 (mkReq CGet 1 0); HResp 2 1 CGet 1 5 true; HInv 3 1 (mkReq CGet 1 0);
                HResp 1 1 CPut 1 5 true; HResp 3 1 CGet 1 5 true; HInv 2 2 (mkReq CPut 2 7)] = true.
Proof. vm_compute. reflexivity. Qed.
Example lin_example_false :
  linearizable [HInv 1 1 (mkReq CPut 1 5); HInv 2 1 (mkReq CGet 1 0); HResp 2 1 CGet 1 5 true; HInv 3 1 (mkReq CGet 1 0);
                HResp 1 1 CPut 1 5 true; HResp 3 1 CGet 1 0 false] = false.
Proof. vm_compute. reflexivity. Qed.
