(* C03 — TLA+ operators evaluate as TLA+ defines them, or fail loudly.
   Only the property theorems (each closed by `exact <lemma>`), Print Assumptions, Examples.
   Spec: Base/Ops.v (TLA+/TLC semantics on values in normal form).  Implementation model:
   C03/Impl.v (one Gallina function per Go function; tied to distsys/tla by ./check C03).

   Every theorem has the shape
       allowed R (spec_op (norm a1) .. (norm an)) (ModuleOp a1 .. an)
   for ALL argument representations (any nesting depth, any iteration order, well- or ill-typed):
   where TLC reports an error the implementation fails with a TLA+ type error; where TLA+ gives
   a value the implementation returns a proper representation of that value (R = False: no
   loud failure is tolerated at all for these operators); it never panics otherwise, never
   hangs, never returns another value.  Hypotheses: `bounded` = numbers are int32 (what
   MakeNumber can hold); `fine` = rep_ok (what the builders guarantee) + bounded + plain (no
   function whose domain is 1..n inside: TLA+ identifies it with a tuple, the runtime does
   not — known finding `tuple-function-identity`, see eq_tuple_function_refuted). *)
From PGV Require Import Base.Value Base.ValueFacts Base.Ops C05.Model C05.Proofs C03.Impl C03.Proofs.
From Coq Require Import Lia.
Open Scope Z_scope.

(* ---- integers: + - * ^ \div % unary- and the comparisons ---- *)
Theorem plus_correct : forall a b, allowed False (spec_plus (norm a) (norm b)) (ModulePlusSymbol a b).
Proof. exact plus_lemma. Qed.
Print Assumptions plus_correct.
Theorem minus_correct : forall a b, allowed False (spec_minus (norm a) (norm b)) (ModuleMinusSymbol a b).
Proof. exact minus_lemma. Qed.
Print Assumptions minus_correct.
Theorem times_correct : forall a b, allowed False (spec_times (norm a) (norm b)) (ModuleAsteriskSymbol a b).
Proof. exact times_lemma. Qed.
Print Assumptions times_correct.
Theorem pow_correct : forall a b, allowed False (spec_pow (norm a) (norm b)) (ModuleSuperscriptSymbol a b).
Proof. exact pow_lemma. Qed.
Print Assumptions pow_correct.
Theorem div_correct : forall a b, bounded a -> bounded b ->
  allowed False (spec_div (norm a) (norm b)) (ModuleDivSymbol a b).
Proof. exact div_lemma. Qed.
Print Assumptions div_correct.
Theorem mod_correct : forall a b, bounded a -> bounded b ->
  allowed False (spec_mod (norm a) (norm b)) (ModulePercentSymbol a b).
Proof. exact mod_lemma. Qed.
Print Assumptions mod_correct.
Theorem neg_correct : forall a, bounded a -> allowed False (spec_neg (norm a)) (ModuleNegationSymbol a).
Proof. exact neg_lemma. Qed.
Print Assumptions neg_correct.
Theorem le_correct : forall a b, allowed False (spec_le (norm a) (norm b)) (ModuleLessThanOrEqualSymbol a b).
Proof. exact le_lemma. Qed.
Print Assumptions le_correct.
Theorem lt_correct : forall a b, allowed False (spec_lt (norm a) (norm b)) (ModuleLessThanSymbol a b).
Proof. exact lt_lemma. Qed.
Print Assumptions lt_correct.
Theorem ge_correct : forall a b, allowed False (spec_ge (norm a) (norm b)) (ModuleGreaterThanOrEqualSymbol a b).
Proof. exact ge_lemma. Qed.
Print Assumptions ge_correct.
Theorem gt_correct : forall a b, allowed False (spec_gt (norm a) (norm b)) (ModuleGreaterThanSymbol a b).
Proof. exact gt_lemma. Qed.
Print Assumptions gt_correct.

(* ---- logic: ~ <=> /\ \/ => (left to right), IF, Assert ---- *)
Theorem not_correct : forall a, allowed False (spec_not (norm a)) (ModuleLogicalNotSymbol a).
Proof. exact not_lemma. Qed.
Print Assumptions not_correct.
Theorem equiv_correct : forall a b, allowed False (spec_equiv (norm a) (norm b)) (ModuleEquivSymbol a b).
Proof. exact equiv_lemma. Qed.
Print Assumptions equiv_correct.
Theorem and_correct : forall a b, allowed False (spec_and (norm a) (norm b)) (LogicalAnd a b).
Proof. exact and_lemma. Qed.
Print Assumptions and_correct.
Theorem or_correct : forall a b, allowed False (spec_or (norm a) (norm b)) (LogicalOr a b).
Proof. exact or_lemma. Qed.
Print Assumptions or_correct.
Theorem implies_correct : forall a b, allowed False (spec_implies (norm a) (norm b)) (LogicalImplies a b).
Proof. exact implies_lemma. Qed.
Print Assumptions implies_correct.
Theorem if_correct : forall c t e, good t -> good e ->
  allowed False (spec_if (norm c) (norm t) (norm e)) (IfThenElse c t e).
Proof. exact if_lemma. Qed.
Print Assumptions if_correct.
Theorem assert_correct : forall c m, allowed False (spec_assert (norm c) (norm m)) (ModuleAssert c m).
Proof. exact assert_lemma. Qed.
Print Assumptions assert_correct.

(* ---- sets: \in \notin \cap \cup \ \subseteq IsFiniteSet Cardinality ---- *)
Theorem in_correct : forall x s, fine x -> fine s -> allowed False (spec_in (norm x) (norm s)) (ModuleInSymbol x s).
Proof. exact in_lemma. Qed.
Print Assumptions in_correct.
Theorem notin_correct : forall x s, fine x -> fine s -> allowed False (spec_notin (norm x) (norm s)) (ModuleNotInSymbol x s).
Proof. exact notin_lemma. Qed.
Print Assumptions notin_correct.
Theorem intersect_correct : forall a b, fine a -> fine b ->
  allowed False (spec_intersect (norm a) (norm b)) (ModuleIntersectSymbol a b).
Proof. exact intersect_lemma. Qed.
Print Assumptions intersect_correct.
Theorem union_correct : forall a b, fine a -> fine b ->
  allowed False (spec_union (norm a) (norm b)) (ModuleUnionSymbol a b).
Proof. exact union_lemma. Qed.
Print Assumptions union_correct.
Theorem setminus_correct : forall a b, fine a -> fine b ->
  allowed False (spec_setminus (norm a) (norm b)) (ModuleBackslashSymbol a b).
Proof. exact setminus_lemma. Qed.
Print Assumptions setminus_correct.
Theorem subseteq_correct : forall a b, fine a -> fine b ->
  allowed False (spec_subseteq (norm a) (norm b)) (ModuleSubsetOrEqualSymbol a b).
Proof. exact subseteq_lemma. Qed.
Print Assumptions subseteq_correct.
Theorem isfiniteset_correct : forall a, allowed False (spec_isfiniteset (norm a)) (ModuleIsFiniteSet a).
Proof. exact isfiniteset_lemma. Qed.
Print Assumptions isfiniteset_correct.
Theorem cardinality_correct : forall a, fine a -> small_card a ->
  allowed False (spec_cardinality (norm a)) (ModuleCardinality a).
Proof. exact cardinality_lemma. Qed.
Print Assumptions cardinality_correct.

Theorem bigunion_correct : forall a, fine a -> allowed False (spec_bigunion (norm a)) (ModulePrefixUnionSymbol a).
Proof. exact bigunion_lemma. Qed.
Print Assumptions bigunion_correct.
Theorem dotdot_correct : forall a b, bounded a -> bounded b ->
  allowed False (spec_dotdot (norm a) (norm b)) (ModuleDotDotSymbol a b).
Proof. exact dotdot_lemma. Qed.
Print Assumptions dotdot_correct.
Theorem makeset_correct : forall l, (forall x, In x l -> fine x) -> allowed False (spec_makeset (map norm l)) (Ok (MakeSet l)).
Proof. exact makeset_lemma. Qed.
Print Assumptions makeset_correct.
Theorem maketuple_correct : forall l, (forall x, In x l -> good x) -> allowed False (spec_maketuple (map norm l)) (Ok (MakeTuple l)).
Proof. exact maketuple_lemma. Qed.
Print Assumptions maketuple_correct.

(* ---- = and #: correct on comparable kinds of plain values; the full statement is refuted by the
   code as it is (known findings equality-of-incomparable-kinds, tuple-function-identity) ---- *)
Theorem eq_partial : forall a b, fine a -> fine b -> comparable (norm a) (norm b) = true ->
  allowed False (spec_eq (norm a) (norm b)) (ModuleEqualsSymbol a b).
Proof. exact eq_partial_lemma. Qed.
Print Assumptions eq_partial.
Theorem neq_partial : forall a b, fine a -> fine b -> comparable (norm a) (norm b) = true ->
  allowed False (spec_neq (norm a) (norm b)) (ModuleNotEqualsSymbol a b).
Proof. exact neq_partial_lemma. Qed.
Print Assumptions neq_partial.
Theorem eq_full_refuted : ~ eq_full_statement.
Proof. exact eq_full_refuted_lemma. Qed.
Print Assumptions eq_full_refuted.
Theorem eq_incomparable_refuted :
  exists a b, fine a /\ fine b /\ spec_eq (norm a) (norm b) = SErr /\ ModuleEqualsSymbol a b = Ok (VBool false).
Proof. exact eq_incomparable_refuted_lemma. Qed.
Print Assumptions eq_incomparable_refuted.
Theorem eq_tuple_function_refuted :
  exists a b, good a /\ good b /\ spec_eq (norm a) (norm b) = SOk (VBool true) /\ ModuleEqualsSymbol a b = Ok (VBool false).
Proof. exact eq_tuple_function_refuted_lemma. Qed.
Print Assumptions eq_tuple_function_refuted.

(* ---- sequences: a loud failure is tolerated only when the argument is a function representation
   (the documented restriction); Len, \o, Tail and SubSeq on strings are refuted (known findings:
   TLC treats strings as sequences for exactly these four) ---- *)
Theorem len_partial : forall a, (forall s, a <> VStr s) -> small_len a ->
  allowed (is_funrep a) (spec_len (norm a)) (ModuleLen a).
Proof. exact len_partial_lemma. Qed.
Print Assumptions len_partial.
Theorem len_string_refuted : ~ len_full_statement.
Proof. exact len_string_refuted_lemma. Qed.
Print Assumptions len_string_refuted.
Theorem concat_partial : forall a b, good a -> good b -> ~ (exists s t, a = VStr s /\ b = VStr t) ->
  allowed (is_funrep a \/ is_funrep b) (spec_concat (norm a) (norm b)) (ModuleOSymbol a b).
Proof. exact concat_partial_lemma. Qed.
Print Assumptions concat_partial.
Theorem concat_string_refuted : ~ concat_full_statement.
Proof. exact concat_string_refuted_lemma. Qed.
Print Assumptions concat_string_refuted.
Theorem head_correct : forall a, good a -> allowed (is_funrep a) (spec_head (norm a)) (ModuleHead a).
Proof. exact head_lemma. Qed.
Print Assumptions head_correct.
Theorem tail_partial : forall a, good a -> (forall s, a <> VStr s) ->
  allowed (is_funrep a) (spec_tail (norm a)) (ModuleTail a).
Proof. exact tail_partial_lemma. Qed.
Print Assumptions tail_partial.
Theorem tail_string_refuted : ~ tail_full_statement.
Proof. exact tail_string_refuted_lemma. Qed.
Print Assumptions tail_string_refuted.
Theorem append_correct : forall a x, good a -> good x -> allowed (is_funrep a) (spec_append (norm a) (norm x)) (ModuleAppend a x).
Proof. exact append_lemma. Qed.
Print Assumptions append_correct.
Theorem subseq_partial : forall a m n, good a -> (forall s, a <> VStr s) ->
  allowed (is_funrep a) (spec_subseq (norm a) (norm m) (norm n)) (ModuleSubSeq a m n).
Proof. exact subseq_partial_lemma. Qed.
Print Assumptions subseq_partial.
Theorem subseq_string_refuted : ~ subseq_full_statement.
Proof. exact subseq_string_refuted_lemma. Qed.
Print Assumptions subseq_string_refuted.

(* ---- functions ---- *)
Theorem colongt_correct : forall k v, good k -> good v ->
  allowed False (spec_colongt (norm k) (norm v)) (ModuleColonGreaterThanSymbol k v).
Proof. exact colongt_lemma. Qed.
Print Assumptions colongt_correct.

Theorem subset_correct : forall a, fine a -> allowed False (spec_subset (norm a)) (ModulePrefixSubsetSymbol a).
Proof. exact subset_lemma. Qed.
Print Assumptions subset_correct.
Theorem domain_correct : forall f, fine f -> allowed (is_tuprep f) (spec_domain (norm f)) (ModuleDomainSymbol f).
Proof. exact domain_lemma. Qed.
Print Assumptions domain_correct.
Theorem apply_correct : forall f x, fine f -> fine x -> allowed False (spec_apply (norm f) (norm x)) (ApplyFunction f x).
Proof. exact apply_lemma. Qed.
Print Assumptions apply_correct.
Theorem cross_correct : forall vs, fine_sets vs -> allowed False (spec_cross (map norm vs)) (CrossProduct vs).
Proof. exact cross_lemma. Qed.
Print Assumptions cross_correct.

(* ---- binders.  The Go closure p / b is any function that, on members of the sets, does not panic
   and computes the predicate q / the body g of the denoted values (pred_refines, body_refines). ---- *)
Theorem forall_correct : forall vs p q, fine_sets vs ->
  (forall sets, vs = map VSet sets -> pred_refines p q sets) ->
  allowed False (spec_forall (map norm vs) q) (QuantifiedUniversal vs p).
Proof. exact forall_lemma. Qed.
Print Assumptions forall_correct.
Theorem exists_correct : forall vs p q, fine_sets vs ->
  (forall sets, vs = map VSet sets -> pred_refines p q sets) ->
  allowed False (spec_exists (map norm vs) q) (QuantifiedExistential vs p).
Proof. exact exists_lemma. Qed.
Print Assumptions exists_correct.
Theorem refine_correct : forall a p q, fine a ->
  (forall s, a = VSet s -> forall x, In x s -> p [x] = Ok (q (canon x))) ->
  allowed False (spec_refine (norm a) q) (SetRefinement a p).
Proof. exact refine_lemma. Qed.
Print Assumptions refine_correct.
Theorem compr_correct : forall vs b g, fine_sets vs ->
  (forall sets, vs = map VSet sets -> body_refines b g sets) ->
  allowed False (spec_compr (map norm vs) g) (SetComprehension vs b).
Proof. exact compr_lemma. Qed.
Print Assumptions compr_correct.
(* CHOOSE: some member satisfying the predicate (TLA+ leaves the choice open), a TLA+ type error
   exactly when no member satisfies it *)
Theorem choose_correct : forall a p q, fine a ->
  (forall s, a = VSet s -> forall x, In x s -> p [x] = Ok (q (canon x))) ->
  match Choose a p with
  | Ok r => exists s, a = VSet s /\ In r s /\ choose_ok (norm a) q (norm r) /\ good r
  | TypeErr => choose_err (norm a) q
  | _ => False
  end.
Proof. exact choose_lemma. Qed.
Print Assumptions choose_correct.
Theorem tostring_correct : forall a, exists s, ModuleToString a = Ok (VStr s).
Proof. exact tostring_lemma. Qed.
Print Assumptions tostring_correct.
Theorem selectelement_correct : forall a idx, fine a ->
  match SelectElement a idx with
  | Ok r => exists s, a = VSet s /\ In r s /\ (idx < List.length s)%nat /\ good r
  | TypeErr => forall s, a = VSet s -> (List.length s <= idx)%nat
  | _ => False
  end.
Proof. exact selectelement_lemma. Qed.
Print Assumptions selectelement_correct.

(* ---- function-valued operators ---- *)
Theorem atat_correct : forall f g, fine f -> fine g ->
  allowed (is_tuprep f \/ is_tuprep g) (spec_atat (norm f) (norm g)) (ModuleDoubleAtSignSymbol f g).
Proof. exact atat_lemma. Qed.
Print Assumptions atat_correct.
Theorem makerecord_correct : forall pairs,
  (forall k v, In (k, v) pairs -> fine k /\ fine v) -> NoDup (map canon (map fst pairs)) ->
  allowed False (SOk (mk_graph (map ckv pairs))) (MakeRecordV pairs).
Proof. exact makerecord_lemma. Qed.
Print Assumptions makerecord_correct.
Theorem mkfun_correct : forall vs b g, fine_sets vs ->
  (forall sets, vs = map VSet sets -> body_refines b g sets) ->
  allowed False (spec_mkfun (map norm vs) g) (MakeFunction vs b).
Proof. exact mkfun_lemma. Qed.
Print Assumptions mkfun_correct.

(* ---- record sets and function sets (members may be functions with domain 1..n, i.e. tuples in
   TLA+: the result is compared in normal form) ---- *)
Theorem recordset_correct : forall pairs,
  (forall k v, In (k, v) pairs -> fine k /\ fine v) -> NoDup (map canon (map fst pairs)) ->
  allowed False (spec_recordset (map (fun p => norm (fst p)) pairs) (map (fun p => norm (snd p)) pairs))
          (MakeRecordSet pairs).
Proof. exact recordset_lemma. Qed.
Print Assumptions recordset_correct.
Theorem funset_correct : forall a b, fine a -> fine b ->
  allowed False (spec_funset (norm a) (norm b)) (MakeFunctionSet a b).
Proof. exact funset_lemma. Qed.
Print Assumptions funset_correct.

(* ---- EXCEPT: [f EXCEPT !p1 = e1, ..., !pn = en] with nested key paths through functions and tuples.
   Each Go record {Keys, Value} refines its spec counterpart (same keys up to canon; the closure
   computes g of the denoted old value, failing loudly where g does).  A loud failure is tolerated
   exactly when a key outside the domain was met (second component of spec_except). ---- *)
Theorem except_correct : forall src isubs ssubs, fine src -> Forall2 sub_refines isubs ssubs ->
  allowed (snd (spec_except (norm src) ssubs) = true) (fst (spec_except (norm src) ssubs))
          (FunctionSubstitution src isubs).
Proof. exact except_lemma. Qed.
Print Assumptions except_correct.

(* ---- Seq and SelectSeq as the code has them (known findings seq-enumerated, selectseq-unimplemented) ---- *)
Theorem seq_refuted : ~ seq_full_statement.
Proof. exact seq_refuted_lemma. Qed.
Print Assumptions seq_refuted.
Theorem seq_empty_partial : ModuleSeq (VSet []) = Ok (VSet [VTup []]).
Proof. exact seq_empty_lemma. Qed.
Print Assumptions seq_empty_partial.
Theorem selectseq_refuted : forall (R : Prop) s a b, ~ allowed R s (ModuleSelectSeq a b).
Proof. exact selectseq_refuted_lemma. Qed.
Print Assumptions selectseq_refuted.

(* ---- non-vacuity: nested, ill-typed and boundary arguments ---- *)
Definition ex_s1 : value := VSet [VTup [VNum 1; VStr [97%N]]; VSet [VNum 2; VNum 3]; VNum (-7)].
Definition ex_s2 : value := VSet [VNum (-7); VSet [VNum 3; VNum 2]; VFun [(VStr [107%N], VNum 1)]].

Example c03_fine_nonvacuous : fine ex_s1 /\ fine ex_s2.
Proof.
  split; (split; [apply C05.Proofs.rep_okb_spec; vm_compute; reflexivity|]);
    (split; [cbn; unfold int32_ok; repeat split; lia | cbn; repeat split; reflexivity]).
Qed.

Example c03_sets_nonvacuous :
  ModuleIntersectSymbol ex_s1 ex_s2 = Ok (VSet [VSet [VNum 2; VNum 3]; VNum (-7)]) /\
  spec_intersect (norm ex_s1) (norm ex_s2) = SOk (VSet [VNum (-7); VSet [VNum 2; VNum 3]]) /\
  ModuleUnionSymbol ex_s1 (VTup []) = TypeErr /\ spec_union (norm ex_s1) (norm (VTup [])) = SErr.
Proof. vm_compute. repeat split. Qed.

Example c03_arith_nonvacuous :
  ModuleDivSymbol (VNum (-7)) (VNum 2) = Ok (VNum (-4)) /\ spec_div (VNum (-7)) (VNum 2) = SOk (VNum (-4)) /\
  ModulePercentSymbol (VNum (-7)) (VNum 2) = Ok (VNum 1) /\
  ModulePlusSymbol (VNum 2147483647) (VNum 1) = TypeErr /\ spec_plus (VNum 2147483647) (VNum 1) = SErr /\
  ModuleDivSymbol (VNum (-2147483648)) (VNum (-1)) = TypeErr /\
  ModuleSuperscriptSymbol (VNum 2) (VNum (-1)) = TypeErr /\ ModuleSuperscriptSymbol (VNum 0) (VNum 0) = TypeErr /\
  ModuleSuperscriptSymbol (VNum (-2)) (VNum 31) = Ok (VNum (-2147483648)) /\
  ModulePlusSymbol (VSet [VNum 1]) (VNum 1) = TypeErr /\
  LogicalAnd (VBool false) (VNum 42) = Ok (VBool false) /\ LogicalAnd (VBool true) (VNum 42) = TypeErr.
Proof. vm_compute. repeat split. Qed.

Example c03_seq_nonvacuous :
  ModuleSubSeq (VTup [VNum 1; VSet [VNum 2]; VNum 3]) (VNum 2) (VNum 3) = Ok (VTup [VSet [VNum 2]; VNum 3]) /\
  ModuleSubSeq (VTup [VNum 1]) (VNum 5) (VNum 4) = Ok (VTup []) /\
  ModuleSubSeq (VTup [VNum 1]) (VNum 1) (VNum 4) = TypeErr /\
  ModuleHead (VFun [(VNum 1, VNum 7)]) = TypeErr /\ spec_head (norm (VFun [(VNum 1, VNum 7)])) = SOk (VNum 7) /\
  ModulePrefixUnionSymbol (VSet [VSet [VNum 1; VNum 2]; VSet [VNum 2; VNum 3]]) = Ok (VSet [VNum 1; VNum 2; VNum 3]) /\
  ModulePrefixUnionSymbol (VSet [VSet [VNum 1]; VNum 2]) = TypeErr /\
  ModuleDotDotSymbol (VNum 2147483646) (VNum 2147483647) = Ok (VSet [VNum 2147483646; VNum 2147483647]) /\
  ModuleColonGreaterThanSymbol (VNum 1) (VNum 2) = Ok (VFun [(VNum 1, VNum 2)]) /\
  spec_colongt (VNum 1) (VNum 2) = SOk (VTup [VNum 2]).
Proof. vm_compute. repeat split. Qed.

Example c03_binders_nonvacuous :
  let S := VSet [VNum 3; VNum 1; VNum 2] in
  QuantifiedUniversal [S; S] (pred_of PLt2) = Ok (VBool false) /\
  QuantifiedExistential [S; VSet [VStr [97%N]]] (pred_of PLt2) = TypeErr /\
  SetRefinement S (pred_of (PGt (VNum 1))) = Ok (VSet [VNum 3; VNum 2]) /\
  Choose S (pred_of (PGt (VNum 5))) = TypeErr /\ Choose S (pred_of (PGt (VNum 1))) = Ok (VNum 3) /\
  ModulePrefixSubsetSymbol (VSet [VNum 1; VNum 2]) = Ok (VSet [VSet []; VSet [VNum 1]; VSet [VNum 2]; VSet [VNum 1; VNum 2]]) /\
  ApplyFunction (VFun [(VSet [VNum 2; VNum 1], VNum 7)]) (VSet [VNum 1; VNum 2]) = Ok (VNum 7) /\
  ApplyFunction (VTup [VNum 4]) (VNum 2) = TypeErr /\
  CrossProduct [VSet [VNum 1; VNum 2]; VSet [VBool true]] = Ok (VSet [VTup [VNum 1; VBool true]; VTup [VNum 2; VBool true]]) /\
  SetComprehension [S] (body_of (BMod (VNum 2))) = Ok (VSet [VNum 1; VNum 0]).
Proof. vm_compute. repeat split. Qed.

Example c03_functions_nonvacuous :
  ModuleDoubleAtSignSymbol (VFun [(VStr [97%N], VNum 1)]) (VFun [(VStr [98%N], VNum 2); (VStr [97%N], VNum 3)])
    = Ok (VFun [(VStr [98%N], VNum 2); (VStr [97%N], VNum 1)]) /\
  spec_atat (VFun [(VStr [97%N], VNum 1)]) (VFun [(VStr [97%N], VNum 3); (VStr [98%N], VNum 2)])
    = SOk (VFun [(VStr [97%N], VNum 1); (VStr [98%N], VNum 2)]) /\
  MakeFunction [VSet [VNum 2; VNum 1]] (body_of (BPlus (VNum 10))) = Ok (VFun [(VNum 2, VNum 12); (VNum 1, VNum 11)]) /\
  spec_mkfun [VSet [VNum 1; VNum 2]] (fun a => VNum 0) = SOk (VTup [VNum 0; VNum 0]) /\
  MakeFunction [VSet [VNum 1]; VSet [VBool true]] (body_of BLast) = Ok (VFun [(VTup [VNum 1; VBool true], VBool true)]) /\
  MakeFunction [] (body_of BId) = TypeErr.
Proof. vm_compute. repeat split. Qed.

Example c03_except_nonvacuous :
  let src := VFun [(VStr [97%N], VTup [VNum 1; VNum 2]); (VStr [98%N], VNum 0)] in
  FunctionSubstitution src [([VStr [97%N]; VNum 2], fun old => ModulePlusSymbol old (VNum 10))]
    = Ok (VFun [(VStr [97%N], VTup [VNum 1; VNum 12]); (VStr [98%N], VNum 0)]) /\
  spec_except src [([VStr [97%N]; VNum 2], fun old => spec_plus old (VNum 10))]
    = (SOk (VFun [(VStr [97%N], VTup [VNum 1; VNum 12]); (VStr [98%N], VNum 0)]), false) /\
  FunctionSubstitution src [([VStr [99%N]], fun old => Ok old)] = TypeErr /\
  spec_except src [([VStr [99%N]], fun old => SOk old)] = (SOk src, true) /\
  FunctionSubstitution (VNum 1) [([VNum 1], fun old => Ok old)] = TypeErr /\
  MakeFunctionSet (VSet [VNum 1; VNum 2]) (VSet [VBool true]) = Ok (VSet [VFun [(VNum 1, VBool true); (VNum 2, VBool true)]]) /\
  spec_funset (VSet [VNum 1; VNum 2]) (VSet [VBool true]) = SOk (VSet [VTup [VBool true; VBool true]]) /\
  ModuleSelectSeq (VTup []) (VNum 1) = Panic.
Proof. vm_compute. repeat split. Qed.
