(* C14 — Generated primary-backup store: replicas agree whenever the primary answers.
   This file holds only the property theorems (each closed by `exact <lemma>`), the full
   statements as Definitions where only a part is proved, and non-vacuity Examples.
   Model: C14/Model.v (tied to /repo/systems/pbkvs/pbkvs.go by the correspondence check, ./check C14). *)
From Coq Require Import List String.
From PGV Require Import C14.Model C14.Corr C14.Witness C14.Proofs C14.ProofsFF C14.ProofsLin C14.ProofsCrashA C14.ProofsCrashC C14.ProofsLinFF C14.ProofsAssertFF C14.ProofsLinCrash C14.ProofsAssertCrash C14.ProofsAssertClient C14.ProofsAssertLe3.
Import ListNotations.

(* ---------------------------------------------------------------- full statements *)

(* ConsistencyOK (pbkvs.tla, verbatim) holds in every state of every execution: any number of replicas,
   clients and keys, every interleaving, every either/CHOOSE resolution, every sequence of crashes taken
   through the spec's own mayFail choice. *)
Definition consistency_ok_statement : Prop :=
  forall cfg input evs s, Forall input_ok input ->
    exec cfg (init cfg input) evs = Some s -> ConsistencyOK cfg s.

(* no reachable state has an enabled step that fails an assertion or a TLA+ evaluation *)
Definition assertion_free_statement : Prop :=
  forall cfg input evs s e, Forall input_ok input ->
    exec cfg (init cfg input) evs = Some s -> step cfg s e <> AssertFail /\ step cfg s e <> TypeErr.

(* the history of client invocations and responses of every execution is linearizable *)
Definition pb_linearizable_statement : Prop :=
  forall cfg input evs s, Forall input_ok input ->
    exec cfg (init cfg input) evs = Some s -> linearizable (hist s).

(* ---------------------------------------------------------------- proved *)

(* ConsistencyOK (pbkvs.tla, verbatim) in EVERY execution: any number of replicas, clients, keys and
   operations, every interleaving, every either / CHOOSE resolution, every sequence of crashes taken through the
   spec's mayFail choice (crash-stop at label boundaries, including the primary in the middle of a replication
   or of a failover sync, any number of survivors).  This is consistency_ok_statement. *)
Theorem consistency_ok : forall cfg input evs s,
  Forall input_ok input ->
  exec cfg (init cfg input) evs = Some s -> ConsistencyOK cfg s.
Proof. exact consistency_ok_lemma. Qed.
Print Assumptions consistency_ok.

(* the same for schedules in which attempts that abort / fail an assertion leave the state unchanged
   (what the Go runtime does): every state visited satisfies ConsistencyOK *)
Theorem consistency_ok_run_skip : forall cfg input evs,
  Forall input_ok input -> ConsistencyOK cfg (run_skip cfg (init cfg input) evs).
Proof. exact consistency_run_skip_lemma. Qed.
Print Assumptions consistency_ok_run_skip.

(* (first milestone, kept: an independent, much shorter proof for failure-free executions) *)
Theorem consistency_ok_failure_free : forall cfg input evs s,
  explore_fail cfg = false -> Forall input_ok input ->
  exec cfg (init cfg input) evs = Some s -> ConsistencyOK cfg s.
Proof. exact consistency_failure_free_lemma. Qed.
Print Assumptions consistency_ok_failure_free.

(* linearizability, positive half: without crashes no client ever re-sends a request, and then the history of
   every execution (ANY number of replicas >= 1 (the spec's ASSUME), clients, keys, operations; every
   interleaving) is linearizable; the linearization points are the primary's handlePrimary steps.
   The full statement pb_linearizable_statement is refuted below (client retry after a primary crash). *)
Theorem pb_linearizable_failure_free_partial : forall cfg input evs s,
  explore_fail cfg = false -> 1 <= NR cfg -> Forall input_ok input ->
  exec cfg (init cfg input) evs = Some s -> linearizable (hist s).
Proof. exact linearizable_failure_free_lemma. Qed.
Print Assumptions pb_linearizable_failure_free_partial.

(* linearizability WITH crashes, as long as no client re-sends a request: in every execution - any number of replicas,
   clients, keys and operations, every interleaving, every either/CHOOSE resolution, every sequence of crash-stops
   through the spec's mayFail (the primary in the middle of replication, a new primary in the middle of its failover
   sync, ...) - in which no client ever takes the time-out branch of rcvResp (`no_resend`: no committed step of a
   client at rcvResp with the `fd[replica] /\ Len = 0` alternative; a client whose primary crashed then simply waits
   forever), the history is linearizable.  A Get is linearized at the leader's handlePrimary, a Put at the first step
   after which every live replica holds it (never, if it is lost with the replicas that had it).
   This is the analogue of C09's linearizable_without_retry; the hypothesis is slightly stronger than "no request is
   applied twice" (it also excludes harmless re-sends of requests that were lost).  Without the hypothesis the
   statement is false (pb_linearizable_refuted below). *)
Theorem pb_linearizable_no_retry_partial : forall cfg input evs s,
  Forall input_ok input -> exec cfg (init cfg input) evs = Some s -> no_resend cfg (init cfg input) evs ->
  linearizable (hist s).
Proof. exact linearizable_no_resend_lemma. Qed.
Print Assumptions pb_linearizable_no_retry_partial.

(* non-vacuity of the hypothesis with crashes: an execution observed on the Go code (corpus/C14/failover_family.json #2):
   the primary crashes in the middle of replicating a Put, replica 2 takes over, synchronises replica 3 and answers
   three Gets of the other client; no client re-sends; 4 operations complete, the crashed primary's Put stays pending *)
Example no_retry_nonvacuous :
  match exec nr_cfg (init nr_cfg nr_input) nr_evs with
  | Some s => no_resend nr_cfg (init nr_cfg nr_input) nr_evs /\ r_pc (rl s 1) = RDone /\ r_pc (rl s 2) = ReplicaLoop /\
              List.length (hist s) = 10 /\ fsv s 3 "KEY1"%string = "A"%string
  | None => False
  end.
Proof.
  assert (H : match exec nr_cfg (init nr_cfg nr_input) nr_evs with
              | Some s => (no_resend_b nr_cfg (init nr_cfg nr_input) nr_evs &&
                           (match r_pc (rl s 1), r_pc (rl s 2) with RDone, ReplicaLoop => true | _, _ => false end) &&
                           Nat.eqb (List.length (hist s)) 10 && String.eqb (fsv s 3 "KEY1") "A")%bool
              | None => false end = true) by (vm_compute; reflexivity).
  destruct (exec nr_cfg (init nr_cfg nr_input) nr_evs) as [s|]; [|discriminate H].
  apply Bool.andb_true_iff in H. destruct H as [H H4]. apply Bool.andb_true_iff in H. destruct H as [H H3].
  apply Bool.andb_true_iff in H. destruct H as [H1 H2].
  split; [apply no_resend_b_sound; exact H1|].
  destruct (r_pc (rl s 1)); try discriminate H2. destruct (r_pc (rl s 2)); try discriminate H2.
  apply PeanoNat.Nat.eqb_eq in H3. apply String.eqb_eq in H4. auto.
Qed.

(* assertion-freedom when no replica crashes: in every state of every execution without a crash, no enabled
   step of any process fails an assertion or a TLA+ evaluation (any numbers of replicas, clients, keys, operations).
   The full statement is refuted below (assertion_free_refuted). *)
Theorem assertion_free_failure_free_partial : forall cfg input evs s e,
  explore_fail cfg = false -> 1 <= NR cfg -> Forall input_ok input ->
  exec cfg (init cfg input) evs = Some s -> step cfg s e <> AssertFail /\ step cfg s e <> TypeErr.
Proof. exact assertion_free_failure_free_lemma. Qed.
Print Assumptions assertion_free_failure_free_partial.

(* ---- assertion freedom WITH crashes (any number of replicas): invariants, each a closed theorem, and what they give together *)

(* every queued message is addressed to the owner of the queue (the assertion `req.to = self` of rcvMsg) *)
Theorem queued_messages_addressed_to_owner : forall cfg input evs s n c m,
  exec cfg (init cfg input) evs = Some s -> In m (queue (net s n c)) -> m_to m = n.
Proof. exact queued_messages_addressed_lemma. Qed.
Print Assumptions queued_messages_addressed_to_owner.

(* put bodies are well formed: every lastPutBody and every body carried by a SYNC_REQ / SYNC_RESP is a put body whose
   content is present as soon as its version is >= 1, and every replicated PUT_REQ has version >= 1 and a content
   (so no record-field access of handleBackup / rcvSyncRespLoop can fail) *)
Theorem put_bodies_wellformed : forall cfg input evs s,
  Forall input_ok input -> exec cfg (init cfg input) evs = Some s ->
  (forall r, exists ver c, r_lastPutBody (rl s r) = BPut ver c /\ (1 <= ver -> exists k v, c = Some (k, v))) /\
  (forall n c m, In m (queue (net s n c)) -> m_src m <> CLIENT_SRC -> m_typ m = PUT_REQ ->
     exists ver k v, m_body m = BPut ver (Some (k, v)) /\ 1 <= ver) /\
  (forall n c m, In m (queue (net s n c)) -> m_src m <> CLIENT_SRC -> (m_typ m = SYNC_REQ \/ m_typ m = SYNC_RESP) ->
     exists ver c, m_body m = BPut ver c /\ (1 <= ver -> exists k v, c = Some (k, v))).
Proof. exact put_bodies_content_lemma. Qed.
Print Assumptions put_bodies_wellformed.

(* the version assertion of handleBackup: the PUT_REQ a replica is about to apply is never older than what it holds *)
Theorem pending_put_not_older_than_receiver : forall cfg input evs s p m,
  Forall input_ok input -> exec cfg (init cfg input) evs = Some s ->
  is_replica cfg p = true -> r_pc (rl s p) = HandleBackup -> r_req (rl s p) = Some m -> m_typ m = PUT_REQ ->
  Kv (r_lastPutBody (rl s p)) <= Kv (m_body m).
Proof. exact pending_put_not_older_lemma. Qed.
Print Assumptions pending_put_not_older_than_receiver.

(* the client invariant that allows re-sends (where the requests with the client's current request number are, what a
   serving replica will answer, what the answers in the client's queue look like) gives: rcvResp of a client never fails *)
Theorem client_rcvResp_never_fails : forall cfg input evs s c ch,
  Forall input_ok input -> exec cfg (init cfg input) evs = Some s -> is_replica cfg c = false ->
  step cfg s (Ev c ch) <> AssertFail /\ step cfg s (Ev c ch) <> TypeErr.
Proof. exact client_never_fails_lemma. Qed.
Print Assumptions client_rcvResp_never_fails.

(* together (with the structural invariant of consistency_ok): in every execution WITH crashes and client re-sends, any
   number of replicas, no step of any process fails an assertion or a TLA+ evaluation at any label other than the two labels
   at which a replica receives an answer (rcvSyncRespLoop, rcvReplicaRespLoop): replicaLoop, syncPrimary, sndSyncReqLoop,
   rcvMsg, handleBackup (incl. its version assertion), handlePrimary, sndReplicaReqLoop, sndResp, failLabel and all labels of
   the clients (clientLoop, sndReq, rcvResp with its six-conjunct assertions).
   For rcvSyncRespLoop / rcvReplicaRespLoop the statement is false with >= 4 replicas (assertion_free_refuted). *)
Theorem assertion_free_crash_except_replica_answer_labels_partial : forall cfg input evs s p ch,
  Forall input_ok input -> exec cfg (init cfg input) evs = Some s -> ~ at_replica_answer_label cfg s p ->
  step cfg s (Ev p ch) <> AssertFail /\ step cfg s (Ev p ch) <> TypeErr.
Proof. exact assertion_free_crash_clients_lemma. Qed.
Print Assumptions assertion_free_crash_except_replica_answer_labels_partial.

(* the messages in a replica's response queue: addressed to it, sent by a backup, and either a SYNC_RESP with id 3 or a
   PUT_RESP with the ack body (four of the conjuncts of the two remaining assertions; what is left of them is the phase
   - SYNC_RESP during a sync, PUT_RESP with the current request id during a replication - and `from \in replicaSet \/ fd[from]`) *)
Theorem response_messages_wellformed : forall cfg input evs s r m,
  Forall input_ok input -> exec cfg (init cfg input) evs = Some s -> is_replica cfg r = true ->
  In m (queue (net s r RESP)) ->
  m_to m = r /\ m_src m = BACKUP_SRC /\
  ((m_typ m = SYNC_RESP /\ m_id m = 3) \/ (m_typ m = PUT_RESP /\ m_body m = ACK_MSG_BODY)).
Proof. exact response_messages_wellformed_lemma. Qed.
Print Assumptions response_messages_wellformed.

(* one half of assertion_free_statement holds outright: no step of any process, at any label, in any execution (any number of
   replicas, crashes, client re-sends) hits a TLA+ evaluation error (missing record field, Head of an empty sequence, ...);
   what can fail with >= 4 replicas are only the two assertions of rcvSyncRespLoop / rcvReplicaRespLoop *)
Theorem no_tla_evaluation_error : forall cfg input evs s e,
  Forall input_ok input -> exec cfg (init cfg input) evs = Some s -> step cfg s e <> TypeErr.
Proof. exact no_type_error_lemma. Qed.
Print Assumptions no_tla_evaluation_error.

(* not proved: the two answer labels of a replica for NUM_REPLICAS <= 3 *)
Definition assertion_free_crash_le3_statement : Prop :=
  forall cfg input evs s e, NR cfg <= 3 -> Forall input_ok input ->
    exec cfg (init cfg input) evs = Some s -> step cfg s e <> AssertFail /\ step cfg s e <> TypeErr.

(* the checker used on both sides of the tie is complete: a history it rejects is not linearizable *)
Theorem lin_checker_complete : forall h, linearizable h -> linearizable_b h = true.
Proof. exact lin_complete_lemma. Qed.
Print Assumptions lin_checker_complete.

(* ---------------------------------------------------------------- refuted (known findings; replayed on the Go code) *)

(* with 4 replicas an assertion of rcvSyncRespLoop fails after a failover sync is restarted *)
Theorem assertion_free_refuted :
  exists cfg input evs s e,
    NR cfg = 4 /\ Forall input_ok input /\
    exec cfg (init cfg input) evs = Some s /\ step cfg s e = AssertFail.
Proof. exact assertion_free_refuted_lemma. Qed.
Print Assumptions assertion_free_refuted.

(* a client that re-sends a Put after the primary crashed has it applied twice *)
Theorem pb_linearizable_refuted :
  exists cfg input evs s,
    Forall input_ok input /\ exec cfg (init cfg input) evs = Some s /\ ~ linearizable (hist s).
Proof. exact pb_linearizable_refuted_lemma. Qed.
Print Assumptions pb_linearizable_refuted.

(* ---------------------------------------------------------------- non-vacuity *)
(* a failure-free execution with 3 replicas in which the hypotheses of ConsistencyOK are met:
   replica 1 is the spec's Primary, it is at sndResp, and the backups hold the new value *)
Example c14_nonvacuous :
  exists s, exec nv_cfg (init nv_cfg nv_input) nv_evs = Some s /\
            r_pc (rl s 1) = SndResp /\ r_pc (rl s 2) = ReplicaLoop /\
            fsv s 1 "KEY1"%string = "v1"%string /\ fsv s 2 "KEY1"%string = "v1"%string /\ fsv s 3 "KEY1"%string = "v1"%string.
Proof.
  destruct (exec nv_cfg (init nv_cfg nv_input) nv_evs) as [s|] eqn:E.
  - exists s. split; [reflexivity|].
    assert (H : match exec nv_cfg (init nv_cfg nv_input) nv_evs with
                | Some s0 => (match r_pc (rl s0 1), r_pc (rl s0 2) with SndResp, ReplicaLoop => true | _, _ => false end
                              && String.eqb (fsv s0 1 "KEY1") "v1" && String.eqb (fsv s0 2 "KEY1") "v1" && String.eqb (fsv s0 3 "KEY1") "v1")%bool
                | None => false end = true) by (vm_compute; reflexivity).
    rewrite E in H. clear E.
    destruct (r_pc (rl s 1)); try discriminate H. destruct (r_pc (rl s 2)); try discriminate H.
    cbn [andb] in H. apply Bool.andb_true_iff in H. destruct H as [H H3]. apply Bool.andb_true_iff in H. destruct H as [H1 H2].
    apply String.eqb_eq in H1, H2, H3. auto.
  - exfalso.
    assert (H : match exec nv_cfg (init nv_cfg nv_input) nv_evs with Some _ => true | None => false end = true) by (vm_compute; reflexivity).
    rewrite E in H. discriminate H.
Qed.
