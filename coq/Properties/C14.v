(* C14 — Generated primary-backup store: replicas agree whenever the primary answers. *)
From PGV Require Import C14.Model C14.Corr C14.Proofs.

Theorem init_consistent : forall cfg input, ConsistencyOK cfg (init cfg input).
Proof. exact init_consistent_lemma. Qed.
Print Assumptions init_consistent.
