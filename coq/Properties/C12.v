(* C12 — CRDT data types are semilattices with their declared read semantics.
   This file holds only the property theorems, each closed by `exact <lemma>`, with
   Print Assumptions beneath, and non-vacuity examples.
   Model: C12/Model.v (tied to distsys/resources/{gcounter,aworset,lww}.go by ./check C12). *)
From PGV Require Import C12.Model C12.ProofsAL C12.ProofsGC C12.ProofsSys C12.ProofsGCHist C12.ProofsLWW C12.ProofsAW C12.ProofsConv C12.ProofsSysX C12.ProofsAWSeq C12.ProofsAWRO C12.ProofsAWAR.
From Coq Require Import Lia.
Open Scope Z_scope.

(* ================================================================ GCounter *)

(* semilattice laws, on every well-formed state (NoDup keys, entries >= 0; all reachable states are
   well-formed: gcounter_reachable_wf), up to gc_eqv (same entry for every writer, whatever the order
   of the underlying map) *)
Theorem gcounter_merge_comm : forall a b, gc_wf a -> gc_wf b -> gc_eqv (gc_merge a b) (gc_merge b a).
Proof. exact gc_merge_comm. Qed.
Print Assumptions gcounter_merge_comm.

Theorem gcounter_merge_assoc : forall a b c, gc_wf a -> gc_wf b -> gc_wf c ->
  gc_eqv (gc_merge (gc_merge a b) c) (gc_merge a (gc_merge b c)).
Proof. exact gc_merge_assoc. Qed.
Print Assumptions gcounter_merge_assoc.

Theorem gcounter_merge_idem : forall a, gc_wf a -> gc_eqv (gc_merge a a) a.
Proof. exact gc_merge_idem. Qed.
Print Assumptions gcounter_merge_idem.

(* a local update (non-negative increment, no int32 overflow) never moves the state down: s <= write s *)
Theorem gcounter_write_inflationary : forall id v c, gc_wf c -> gc_wpre id v c ->
  gc_eqv (gc_merge c (gc_write id v c)) (gc_write id v c).
Proof. exact gc_write_inflationary. Qed.
Print Assumptions gcounter_write_inflationary.

(* the iteration order of the Go map is irrelevant: every operation respects gc_eqv *)
Theorem gcounter_order_irrelevant : forall a a' b b', gc_wf a -> gc_wf a' -> gc_wf b -> gc_wf b' ->
  gc_eqv a a' -> gc_eqv b b' ->
  gc_eqv (gc_merge a b) (gc_merge a' b') /\ gc_read a = gc_read a' /\
  (forall id v, gc_eqv (gc_write id v a) (gc_write id v a')).
Proof.
  intros a a' b b' Ha Ha' Hb Hb' E1 E2. split; [now apply gc_merge_eqv|]. split; [now apply gc_read_eqv|].
  intros id v. now apply gc_write_eqv.
Qed.
Print Assumptions gcounter_order_irrelevant.

Theorem gcounter_gob_preserves : forall c, gc_wf c -> gc_eqv (gc_hop c) c /\ gc_wf (gc_hop c).
Proof. intros c H. split; [now apply gc_hop_eqv|now apply gc_hop_wf]. Qed.
Print Assumptions gcounter_gob_preserves.

(* every history (any number of replicas, any interleaving of writes, snapshots with or without
   gob, deliveries of any message any number of times) with non-negative increments whose total
   fits int32 only produces well-formed states *)
Theorem gcounter_reachable_wf : forall ops, gc_bounded ops ->
  (forall r, gc_wf (reps (gc_run ops) r)) /\ Forall gc_wf (pool (gc_run ops)).
Proof. exact gc_reachable_wf. Qed.
Print Assumptions gcounter_reachable_wf.

(* strong convergence: two replicas that were delivered the same set of updates read the same
   value, whatever the order and duplication of the deliveries *)
Theorem gcounter_strong_convergence : forall ops r1 r2, gc_bounded ops ->
  same_updates (gc_delivered ops r1) (gc_delivered ops r2) ->
  gc_read (reps (gc_run ops) r1) = gc_read (reps (gc_run ops) r2).
Proof. exact gc_convergence_bounded. Qed.
Print Assumptions gcounter_strong_convergence.

(* the counter reads the sum of all increments delivered to the replica (each update once) *)
Theorem gcounter_read : forall ops r, gc_bounded ops ->
  gc_read (reps (gc_run ops) r) = zsum (delivered_incs (gc_delivered ops r)).
Proof. exact gc_read_spec. Qed.
Print Assumptions gcounter_read.

(* non-vacuity: a three-replica history with concurrent increments, a gob hop, duplicated and stale
   deliveries; it is bounded, replicas 1 and 2 end with the same delivered updates (in different
   orders) and read 9 = 4 + 2 + 3 *)
Definition gc_example : list gc_op :=
  [OWrite 0 4; OSnap 0 true; OWrite 1 2; ODeliver 1 0%nat; OSnap 1 false; OWrite 2 3; OSnap 2 true;
   ODeliver 1 2%nat; ODeliver 2 1%nat; ODeliver 2 0%nat; ODeliver 2 1%nat].

Example gcounter_nonvacuous :
  gc_bounded gc_example /\
  same_updates (gc_delivered gc_example 1) (gc_delivered gc_example 2) /\
  gc_delivered gc_example 1 <> gc_delivered gc_example 2 /\
  gc_read (reps (gc_run gc_example) 1) = 9 /\ zsum (delivered_incs (gc_delivered gc_example 2)) = 9.
Proof.
  split; [split; [repeat constructor; lia|vm_compute; reflexivity]|].
  split; [intros e; vm_compute; tauto|].
  split; [vm_compute; discriminate|]. split; vm_compute; reflexivity.
Qed.

(* ================================================================ LWWSet (after the two fix: commits) *)

(* semilattice laws on every well-formed state (NoDup keys in both maps; all reachable states are:
   lwwset_reachable_wf), up to lww_eqv (same add / remove timestamp for every element) *)
Theorem lwwset_merge_comm : forall a b, lww_wf a -> lww_wf b -> lww_eqv (lww_merge a b) (lww_merge b a).
Proof. exact lww_merge_comm. Qed.
Print Assumptions lwwset_merge_comm.

Theorem lwwset_merge_assoc : forall a b c, lww_wf a -> lww_wf b -> lww_wf c ->
  lww_eqv (lww_merge (lww_merge a b) c) (lww_merge a (lww_merge b c)).
Proof. exact lww_merge_assoc. Qed.
Print Assumptions lwwset_merge_assoc.

Theorem lwwset_merge_idem : forall a, lww_wf a -> lww_eqv (lww_merge a a) a.
Proof. exact lww_merge_idem. Qed.
Print Assumptions lwwset_merge_idem.

(* for ANY timestamp the clock returns (also one older than what is stored) *)
Theorem lwwset_write_inflationary : forall id a s, lww_wf s ->
  lww_eqv (lww_merge s (lww_write id a s)) (lww_write id a s).
Proof. exact lww_write_inflationary. Qed.
Print Assumptions lwwset_write_inflationary.

Theorem lwwset_order_irrelevant : forall a a' b b', lww_wf b -> lww_wf b' -> lww_eqv a a' -> lww_eqv b b' ->
  lww_eqv (lww_merge a b) (lww_merge a' b') /\ same_set (lww_read a) (lww_read a') /\
  (forall id w, lww_eqv (lww_write id w a) (lww_write id w a')).
Proof.
  intros a a' b b' Hb Hb' E1 E2. split; [now apply lww_merge_eqv|]. split; [now apply lww_read_eqv|].
  intros id w. now apply lww_write_eqv.
Qed.
Print Assumptions lwwset_order_irrelevant.

(* the decoder accepts what the encoder wrote and rebuilds an equivalent state *)
Theorem lwwset_gob_preserves : forall s, lww_wf s ->
  (exists s', lww_decode (lww_encode s) = Some s' /\ lww_eqv s' s /\ lww_wf s') /\ lww_eqv (lww_hop s) s.
Proof.
  intros s H. split; [|now apply lww_hop_eqv].
  exists (lww_hop s). unfold lww_hop. rewrite lww_decode_encode. split; [reflexivity|].
  pose proof (lww_hop_eqv s H) as E. pose proof (lww_hop_wf s) as W. unfold lww_hop in E, W.
  rewrite lww_decode_encode in E, W. now split.
Qed.
Print Assumptions lwwset_gob_preserves.

Theorem lwwset_reachable_wf : forall ops,
  (forall r, lww_wf (reps (lww_run ops) r)) /\ Forall lww_wf (pool (lww_run ops)).
Proof. exact lww_reachable_wf. Qed.
Print Assumptions lwwset_reachable_wf.

(* strong convergence, every history, every timestamp oracle *)
Theorem lwwset_strong_convergence : forall ops r1 r2,
  same_updates (lww_delivered ops r1) (lww_delivered ops r2) ->
  same_set (lww_read (reps (lww_run ops) r1)) (lww_read (reps (lww_run ops) r2)).
Proof. intros ops r1 r2 H. apply lww_convergence. exact H. Qed.
Print Assumptions lwwset_strong_convergence.

(* an element is read iff a delivered add of it is at least as late as every delivered remove of it:
   the latest event wins, an add wins a tie *)
Theorem lwwset_read : forall ops r e,
  In e (lww_read (reps (lww_run ops) r)) <->
  exists x, In x (lww_delivered ops r) /\ ev_is addOp e x = true /\
            forall y, In y (lww_delivered ops r) -> ev_is remOp e y = true -> ev_ts y <= ev_ts x.
Proof. exact lww_read_spec. Qed.
Print Assumptions lwwset_read.

(* non-vacuity: ties, a remote remove, a write with a clock that lags behind a stored timestamp *)
Definition lww_example : list lww_op :=
  [OWrite 0 (1, 7, 100); OWrite 1 (2, 7, 100); OWrite 1 (1, 8, 50); OWrite 2 (2, 8, 60);
   OSnap 0 true; OSnap 1 false; OSnap 2 true;
   ODeliver 3 0%nat; ODeliver 3 1%nat; ODeliver 3 2%nat;
   ODeliver 4 2%nat; ODeliver 4 1%nat; ODeliver 4 0%nat; ODeliver 4 1%nat;
   OWrite 4 (1, 8, 55)].

Example lwwset_nonvacuous :
  lww_read (reps (lww_run lww_example) 3) = [7] /\
  same_set (lww_read (reps (lww_run (removelast lww_example)) 3)) (lww_read (reps (lww_run (removelast lww_example)) 4)) /\
  lww_read (reps (lww_run lww_example) 4) = [7] /\
  lww_delivered (removelast lww_example) 3 <> lww_delivered (removelast lww_example) 4.
Proof.
  split; [vm_compute; reflexivity|]. split; [intros e; vm_compute; tauto|].
  split; [vm_compute; reflexivity|vm_compute; discriminate].
Qed.

(* ================================================================ AWORSet *)

(* compare is the vector-clock order: LT iff pointwise <= and different — whatever the iteration
   order of the two maps and of the key builder inside compare *)
Theorem aworset_compare_is_clock_order : forall a b,
  is_LT (vc_compare a b) = true <-> (exists k, gc_getd k a < gc_getd k b) /\ ~ (exists k, gc_getd k b < gc_getd k a).
Proof. exact is_LT_spec. Qed.
Print Assumptions aworset_compare_is_clock_order.

(* what holds: on every well-formed state (all reachable states are: aworset_reachable_wf), up to
   aw_eqv (same polarity and equivalent clock for every element) *)
Theorem aworset_merge_comm : forall a b, aw_wf a -> aw_wf b -> aw_eqv (aw_merge a b) (aw_merge b a).
Proof. exact aw_merge_comm. Qed.
Print Assumptions aworset_merge_comm.

Theorem aworset_merge_idem : forall a, aw_wf a -> aw_eqv (aw_merge a a) a.
Proof. exact aw_merge_idem. Qed.
Print Assumptions aworset_merge_idem.

Theorem aworset_write_inflationary : forall id a s, aw_wf s -> aw_wpre id a s ->
  aw_eqv (aw_merge s (aw_write id a s)) (aw_write id a s).
Proof. exact aw_write_inflationary. Qed.
Print Assumptions aworset_write_inflationary.

Theorem aworset_order_irrelevant : forall a a' b b', aw_wf a -> aw_wf a' -> aw_wf b -> aw_wf b' ->
  aw_eqv a a' -> aw_eqv b b' ->
  aw_eqv (aw_merge a b) (aw_merge a' b') /\ (forall e, In e (aw_read a) <-> In e (aw_read a')).
Proof.
  intros a a' b b' Ha Ha' Hb Hb' E1 E2. split; [now apply aw_merge_eqv|now apply aw_read_eqv].
Qed.
Print Assumptions aworset_order_irrelevant.

Theorem aworset_gob_preserves : forall s, aw_wf s -> aw_eqv (aw_hop s) s /\ aw_wf (aw_hop s).
Proof. intros s H. split; [now apply aw_hop_eqv|now apply aw_hop_wf]. Qed.
Print Assumptions aworset_gob_preserves.

(* Read lists exactly the elements whose entry is an add entry *)
Theorem aworset_read_is_add_entries : forall s e, aw_wf s -> (In e (aw_read s) <-> exists c, ent e s = Some (EAdd c)).
Proof. exact aw_read_in. Qed.
Print Assumptions aworset_read_is_add_entries.

Theorem aworset_reachable_wf : forall ops, Z.of_nat (List.length ops) < 2147483647 ->
  (forall r, aw_wf (reps (aw_run ops) r)) /\ Forall aw_wf (pool (aw_run ops)).
Proof. intros ops H. apply aw_reachable_wf. now apply aw_short_valid. Qed.
Print Assumptions aworset_reachable_wf.

(* what does not hold. The full statements: *)
Definition aworset_strong_convergence_statement : Prop :=
  forall ops r1 r2, aw_valid ops -> same_updates (aw_delivered ops r1) (aw_delivered ops r2) ->
  forall e, In e (aw_read (reps (aw_run ops) r1)) <-> In e (aw_read (reps (aw_run ops) r2)).

Definition aworset_merge_assoc_statement : Prop :=
  forall ops a b c, aw_valid ops -> In a (pool (aw_run ops)) -> In b (pool (aw_run ops)) -> In c (pool (aw_run ops)) ->
  aw_eqv (aw_merge (aw_merge a b) c) (aw_merge a (aw_merge b c)).

(* refuted by a 20-operation history over 6 replicas and one element (replayed on the Go code:
   corpus/C12/aworset_witness.json): replicas 3 and 4 were delivered the same five updates and
   read {} and {7} *)
Theorem aworset_convergence_refuted : exists ops r1 r2,
  aw_valid ops /\ same_updates (aw_delivered ops r1) (aw_delivered ops r2) /\
  ~ In 7 (aw_read (reps (aw_run ops) r1)) /\ In 7 (aw_read (reps (aw_run ops) r2)).
Proof. exact aw_convergence_refuted. Qed.
Print Assumptions aworset_convergence_refuted.

Theorem aworset_merge_assoc_refuted : exists ops a b c,
  aw_valid ops /\ nth_error (pool (aw_run ops)) 0 = Some a /\ nth_error (pool (aw_run ops)) 1 = Some b /\
  nth_error (pool (aw_run ops)) 2 = Some c /\
  ~ aw_eqv (aw_merge (aw_merge a b) c) (aw_merge a (aw_merge b c)).
Proof. exact aw_merge_assoc_refuted. Qed.
Print Assumptions aworset_merge_assoc_refuted.

Example aworset_statements_refuted : ~ aworset_strong_convergence_statement /\ ~ aworset_merge_assoc_statement.
Proof.
  split.
  - intros H. destruct aw_convergence_refuted as (ops & r1 & r2 & Hv & Hs & Hn & Hi).
    apply Hn. apply (H ops r1 r2 Hv Hs 7). exact Hi.
  - intros H. destruct aw_merge_assoc_refuted as (ops & a & b & c & Hv & Ha & Hb & Hc & Hn).
    apply Hn. apply (H ops a b c Hv); eapply nth_error_In; eassumption.
Qed.

(* non-vacuity of the positive AWORSet theorems: two concurrent writers, add-wins, a remove that observed an add *)
Example aworset_nonvacuous :
  let ops := [OWrite 0 (1, 7); OWrite 1 (2, 7); OWrite 1 (1, 8); OSnap 0 true; OSnap 1 false;
              ODeliver 2 0%nat; ODeliver 2 1%nat; ODeliver 3 1%nat; ODeliver 3 0%nat; OWrite 3 (2, 8)] in
  aw_valid ops /\ aw_wf (reps (aw_run ops) 2) /\
  zsort (aw_read (reps (aw_run ops) 2)) = [7; 8] /\ aw_read (reps (aw_run ops) 3) = [7].
Proof.
  cbn zeta. split; [apply aw_short_valid; cbn; lia|]. split.
  - apply aw_reachable_wf. apply aw_short_valid. cbn. lia.
  - split; vm_compute; reflexivity.
Qed.

(* on states whose entries are, element by element, pairwise comparable (absent, equivalent, or one
   clock strictly below the other: what updates of an element ordered by happens-before produce),
   Merge IS associative: the failure needs concurrent updates of the same element *)
Theorem aworset_merge_assoc_partial : forall a b c, aw_wf a -> aw_wf b -> aw_wf c ->
  (forall e, comparable (ent e a) (ent e b) /\ comparable (ent e b) (ent e c) /\ comparable (ent e a) (ent e c)) ->
  aw_eqv (aw_merge (aw_merge a b) c) (aw_merge a (aw_merge b c)).
Proof. exact aw_merge_assoc_partial. Qed.
Print Assumptions aworset_merge_assoc_partial.

Example aworset_partial_nonvacuous :
  let ops := [OWrite 0 (1, 7); OSnap 0 false; ODeliver 1 0%nat; OWrite 1 (2, 7); OSnap 1 true;
              ODeliver 2 1%nat; OWrite 2 (1, 7); OWrite 2 (1, 8); OSnap 2 false] in
  exists a b c, nth_error (pool (aw_run ops)) 0 = Some a /\ nth_error (pool (aw_run ops)) 1 = Some b /\
                nth_error (pool (aw_run ops)) 2 = Some c /\ aw_wf a /\ aw_wf b /\ aw_wf c /\
  (forall e, comparable (ent e a) (ent e b) /\ comparable (ent e b) (ent e c) /\ comparable (ent e a) (ent e c)).
Proof.
  cbn zeta. eexists. eexists. eexists. split; [vm_compute; reflexivity|]. split; [vm_compute; reflexivity|].
  split; [vm_compute; reflexivity|].
  assert (Hv : aw_valid [OWrite 0 (1, 7); OSnap 0 false; ODeliver 1 0%nat; OWrite 1 (2, 7); OSnap 1 true;
              ODeliver 2 1%nat; OWrite 2 (1, 7); OWrite 2 (1, 8); OSnap 2 false]).
  { refine (aw_short_valid _ _). cbn. lia. }
  destruct (aw_reachable_wf _ Hv) as [_ Hp]. rewrite Forall_forall in Hp.
  split; [apply Hp; vm_compute; tauto|]. split; [apply Hp; vm_compute; tauto|]. split; [apply Hp; vm_compute; tauto|].
  clear Hv Hp.
  assert (L01 : ent_le (Some (EAdd [(0, 1)])) (Some (ERem [(0, 1); (1, 1)]))).
  { right. right. eexists. eexists. split; [reflexivity|]. split; [reflexivity|]. split; [discriminate|]. split; [discriminate|].
    split.
    - intros k. cbn [clock_of]. unfold gc_getd. cbn [get]. destruct (k =? 0); [lia|]. destruct (k =? 1); lia.
    - exists 1. vm_compute. reflexivity. }
  assert (L12 : ent_le (Some (ERem [(0, 1); (1, 1)])) (Some (EAdd [(0, 1); (1, 1); (2, 1)]))).
  { right. right. eexists. eexists. split; [reflexivity|]. split; [reflexivity|]. split; [discriminate|]. split; [discriminate|].
    split.
    - intros k. cbn [clock_of]. unfold gc_getd. cbn [get]. destruct (k =? 0); [lia|]. destruct (k =? 1); [lia|]. destruct (k =? 2); lia.
    - exists 2. vm_compute. reflexivity. }
  intros e. destruct (Z.eq_dec e 7) as [->|H7]; [|destruct (Z.eq_dec e 8) as [->|H8]].
  - vm_compute ent. split; [left; exact L01|]. split; [left; exact L12|left; eapply ent_le_trans; eauto].
  - vm_compute ent. repeat split; left; right; now left.
  - assert (Hn : forall m, ent e {| aw_add := fst m; aw_rem := snd m |} = ent e {| aw_add := fst m; aw_rem := snd m |}) by reflexivity.
    unfold ent. cbn. assert (e =? 7 = false) as -> by lia. assert (e =? 8 = false) as -> by lia.
    repeat split; left; left; exact I.
Qed.

(* ================================================================ "hence" *)
(* the classical derivation, once for any state type: commutative + associative + idempotent merge
   with unit init, respected by the equivalence, inflationary writes and state-preserving transport
   ==> replicas that were delivered the same set of updates have equivalent states, in every history *)
Section Hence.
  Variables (S A : Type) (init : S) (write : Z -> A -> S -> S) (merge : S -> S -> S) (hop : S -> S).
  Variables (wf : S -> Prop) (eqv : S -> S -> Prop) (wpre : Z -> A -> S -> Prop).
  Hypothesis eqv_refl : forall a, eqv a a.
  Hypothesis eqv_sym : forall a b, eqv a b -> eqv b a.
  Hypothesis eqv_trans : forall a b c, eqv a b -> eqv b c -> eqv a c.
  Hypothesis wf_init : wf init.
  Hypothesis wf_merge : forall a b, wf a -> wf b -> wf (merge a b).
  Hypothesis wf_write : forall r a s, wf s -> wpre r a s -> wf (write r a s).
  Hypothesis wf_hop : forall s, wf s -> wf (hop s).
  Hypothesis merge_eqv : forall a a' b b', wf a -> wf a' -> wf b -> wf b' -> eqv a a' -> eqv b b' -> eqv (merge a b) (merge a' b').
  Hypothesis merge_comm : forall a b, wf a -> wf b -> eqv (merge a b) (merge b a).
  Hypothesis merge_assoc : forall a b c, wf a -> wf b -> wf c -> eqv (merge (merge a b) c) (merge a (merge b c)).
  Hypothesis merge_idem : forall a, wf a -> eqv (merge a a) a.
  Hypothesis merge_init : forall a, wf a -> eqv (merge init a) a.
  Hypothesis write_infl : forall r a s, wf s -> wpre r a s -> eqv (merge s (write r a s)) (write r a s).
  Hypothesis hop_eqv : forall s, wf s -> eqv (hop s) s.

  Theorem strong_convergence_from_laws : forall ops r1 r2, valid S A init write merge hop wpre ops ->
    same_updates (delivered S A init write merge hop ops r1) (delivered S A init write merge hop ops r2) ->
    eqv (reps (run S A init write merge hop ops) r1) (reps (run S A init write merge hop ops) r2).
  Proof. eapply semilattice_convergence; eassumption. Qed.
End Hence.
Print Assumptions strong_convergence_from_laws.

Theorem gcounter_convergence_from_laws : forall ops r1 r2, gc_valid ops ->
  same_updates (gc_delivered ops r1) (gc_delivered ops r2) -> gc_eqv (reps (gc_run ops) r1) (reps (gc_run ops) r2).
Proof. exact gc_convergence_from_laws. Qed.
Print Assumptions gcounter_convergence_from_laws.

Theorem lwwset_convergence_from_laws : forall ops r1 r2,
  same_updates (lww_delivered ops r1) (lww_delivered ops r2) -> lww_eqv (reps (lww_run ops) r1) (reps (lww_run ops) r2).
Proof. exact lww_convergence_from_laws. Qed.
Print Assumptions lwwset_convergence_from_laws.

(* ================================================================ AWORSet, histories without concurrent updates of one element *)
(* aw_sequential ops: whenever a replica updates element e (command add or remove, no clock overflow),
   every update of e performed so far by any replica has been delivered to it.  On these histories the
   positive statements hold (partial: the full statements above are refuted). `dominates log D e x`:
   x is a delivered update of e whose clock is strictly above the clock of every other delivered
   update of e (the latest one). *)
Theorem aworset_convergence_partial : forall ops r1 r2, aw_sequential ops ->
  same_updates (aw_delivered ops r1) (aw_delivered ops r2) ->
  forall e, In e (aw_read (reps (aw_run ops) r1)) <-> In e (aw_read (reps (aw_run ops) r2)).
Proof. intros ops r1 r2 H1 H2. exact (proj2 (aw_seq_convergence ops r1 r2 H1 H2)). Qed.
Print Assumptions aworset_convergence_partial.

Theorem aworset_read_partial : forall ops r e, aw_sequential ops ->
  (In e (aw_read (reps (aw_run ops) r)) <->
   exists x, dominates (g_log (snd (aw_xrun ops))) (aw_delivered ops r) e x /\ cmd_of x = addOp).
Proof. intros ops r e H. exact (aw_seq_read ops r e H). Qed.
Print Assumptions aworset_read_partial.

(* non-vacuity: add by 0, delivered to 1, removed by 1, delivered to 0 (through gob), re-added by 0; another element by 1 *)
Definition aw_seq_example : list aw_op :=
  [OWrite 0 (1, 7); OSnap 0 false; ODeliver 1 0%nat; OWrite 1 (2, 7); OSnap 1 true; ODeliver 0 1%nat; OWrite 0 (1, 7);
   OWrite 1 (1, 8)].

Example aworset_sequential_nonvacuous :
  aw_sequential aw_seq_example /\ aw_read (reps (aw_run aw_seq_example) 0) = [7] /\ aw_read (reps (aw_run aw_seq_example) 1) = [8].
Proof.
  split; [|split; vm_compute; reflexivity].
  unfold aw_sequential, aw_seq_example.
  change [OWrite 0 (1, 7); OSnap 0 false; ODeliver 1 0%nat; OWrite 1 (2, 7); OSnap 1 true; ODeliver 0 1%nat; OWrite 0 (1, 7); OWrite 1 (1, 8)]
    with ((((((((([] : list aw_op) ++ [OWrite 0 (1, 7)]) ++ [OSnap 0 false]) ++ [ODeliver 1 0%nat]) ++ [OWrite 1 (2, 7)]) ++ [OSnap 1 true]) ++ [ODeliver 0 1%nat]) ++ [OWrite 0 (1, 7)]) ++ [OWrite 1 (1, 8)]).
  repeat (apply validx_snoc_intro); try apply validx_nil; intros r a E; inversion E; subst; clear E.
  all: split; [vm_compute; reflexivity|]; split; [cbn; tauto|].
  all: intros [ry ky ay] [s Hs] He; unfold elem_of in He; cbn [ev_arg ev_rep ev_seq snd] in *.
  all: destruct ry as [|[p|p|]|p]; vm_compute in Hs; destruct ky as [|[|[|ky]]]; try discriminate Hs;
       inversion Hs; subst; cbn in He; try lia; vm_compute; tauto.
Qed.

(* ================================================================ AWORSet, the widest class proved: removes ordered, adds may be concurrent *)
(* aw_removes_ordered ops: whenever a replica updates element e, every REMOVE of e performed so far by any
   replica has been delivered to it, and if the update is itself a remove, every update of e performed so
   far has been delivered to it. Adds of the same element may be concurrent with each other. (The known
   finding needs an add concurrent with a remove of the same element; remove concurrent with remove is the
   only remaining case not covered by a theorem — the oracle treats a failure there as a violation.)
   `inA log D e a`: a is a delivered add of e whose clock is above the clock of every delivered remove of e,
   i.e. an add not observed by any delivered remove. *)
Theorem aworset_convergence_partial_wide : forall ops r1 r2, aw_removes_ordered ops ->
  same_updates (aw_delivered ops r1) (aw_delivered ops r2) ->
  forall e, In e (aw_read (reps (aw_run ops) r1)) <-> In e (aw_read (reps (aw_run ops) r2)).
Proof. intros ops r1 r2 H1 H2. exact (proj2 (aw_ro_convergence ops r1 r2 H1 H2)). Qed.
Print Assumptions aworset_convergence_partial_wide.

Theorem aworset_read_partial_wide : forall ops r e, aw_removes_ordered ops ->
  (In e (aw_read (reps (aw_run ops) r)) <->
   exists a, inA (g_log (snd (aw_xrun ops))) (aw_delivered ops r) e a).
Proof. intros ops r e H. exact (aw_ro_read ops r e H). Qed.
Print Assumptions aworset_read_partial_wide.

Theorem aworset_sequential_is_removes_ordered : forall ops, aw_sequential ops -> aw_removes_ordered ops.
Proof. exact aw_sequential_removes_ordered. Qed.
Print Assumptions aworset_sequential_is_removes_ordered.

(* non-vacuity: replicas 0 and 1 add element 7 CONCURRENTLY; replica 2 receives both and removes 7; replica 3
   receives everything in another order. The history is in the class (not in aw_sequential) and both read {} *)
Definition aw_ro_example : list aw_op :=
  [OWrite 0 (1, 7); OWrite 1 (1, 7); OSnap 0 true; OSnap 1 false; ODeliver 2 0%nat; ODeliver 2 1%nat;
   ODeliver 3 1%nat; ODeliver 3 0%nat; OWrite 2 (2, 7); OSnap 2 false; ODeliver 3 2%nat].

Example aworset_removes_ordered_nonvacuous :
  aw_removes_ordered aw_ro_example /\ ~ aw_sequential aw_ro_example /\
  aw_read (reps (aw_run (firstn 8 aw_ro_example)) 3) = [7] /\
  aw_read (reps (aw_run aw_ro_example) 2) = [] /\ aw_read (reps (aw_run aw_ro_example) 3) = [].
Proof.
  split; [|split; [|split; [|split]; vm_compute; reflexivity]].
  - unfold aw_removes_ordered, aw_ro_example.
    change [OWrite 0 (1, 7); OWrite 1 (1, 7); OSnap 0 true; OSnap 1 false; ODeliver 2 0%nat; ODeliver 2 1%nat;
            ODeliver 3 1%nat; ODeliver 3 0%nat; OWrite 2 (2, 7); OSnap 2 false; ODeliver 3 2%nat]
      with (((((((((((([] : list aw_op) ++ [OWrite 0 (1, 7)]) ++ [OWrite 1 (1, 7)]) ++ [OSnap 0 true]) ++ [OSnap 1 false]) ++ [ODeliver 2 0%nat]) ++ [ODeliver 2 1%nat]) ++
            [ODeliver 3 1%nat]) ++ [ODeliver 3 0%nat]) ++ [OWrite 2 (2, 7)]) ++ [OSnap 2 false]) ++ [ODeliver 3 2%nat]).
    repeat (apply validx_snoc_intro); try apply validx_nil; intros r a E; inversion E; subst; clear E.
    all: split; [vm_compute; reflexivity|]; split; [cbn; tauto|]; split;
      [ intros [ry ky ay] [s Hs] He Hcy | intros Hc [ry ky ay] [s Hs] He; cbn in Hc; unfold remOp in Hc; try discriminate Hc ];
      unfold elem_of, cmd_of in *; cbn [ev_arg ev_rep ev_seq fst snd] in *;
      (destruct ry as [|[p|p|]|p]; vm_compute in Hs; destruct ky as [|[|[|ky]]]; try discriminate Hs;
       inversion Hs; subst; cbn in *; try discriminate; try lia; vm_compute; tauto).
  - (* the second add is performed without the first one having been delivered *)
    intros H. specialize (H [OWrite 0 (1, 7)] 1 (1, 7) [OSnap 0 true; OSnap 1 false; ODeliver 2 0%nat; ODeliver 2 1%nat;
            ODeliver 3 1%nat; ODeliver 3 0%nat; OWrite 2 (2, 7); OSnap 2 false; ODeliver 3 2%nat] eq_refl).
    destruct H as (_ & _ & H). specialize (H (mkEv 0 0%nat (1, 7))).
    assert (Hl : logged (g_log (snd (aw_xrun [OWrite 0 (1, 7)]))) (mkEv 0 0%nat (1, 7))) by (eexists; vm_compute; reflexivity).
    specialize (H Hl eq_refl). vm_compute in H. exact H.
Qed.

(* ================================================================ AWORSet: exactly the complement of the known finding *)
(* aw_addrem_ordered ops: whenever a replica adds (removes) element e, every remove (add) of e performed so far by
   any replica has been delivered to it — no add of an element is concurrent with a remove of it. Adds may be
   concurrent with adds, removes with removes. The known finding needs an add concurrent with a remove of the
   same element, so the proved class and the known-finding class are complementary.
   `inTop log D e addOp a`: a is a delivered add of e whose clock is above that of every delivered remove of e. *)
Theorem aworset_convergence_addrem_ordered : forall ops r1 r2, aw_addrem_ordered ops ->
  same_updates (aw_delivered ops r1) (aw_delivered ops r2) ->
  forall e, In e (aw_read (reps (aw_run ops) r1)) <-> In e (aw_read (reps (aw_run ops) r2)).
Proof. intros ops r1 r2 H1 H2. exact (proj2 (aw_ar_convergence ops r1 r2 H1 H2)). Qed.
Print Assumptions aworset_convergence_addrem_ordered.

Theorem aworset_read_addrem_ordered : forall ops r e, aw_addrem_ordered ops ->
  (In e (aw_read (reps (aw_run ops) r)) <->
   exists a, inTop (g_log (snd (aw_xrun ops))) (aw_delivered ops r) e addOp a).
Proof. intros ops r e H. exact (aw_ar_read ops r e H). Qed.
Print Assumptions aworset_read_addrem_ordered.

Theorem aworset_removes_ordered_is_addrem_ordered : forall ops, aw_removes_ordered ops -> aw_addrem_ordered ops.
Proof. exact aw_removes_ordered_addrem_ordered. Qed.
Print Assumptions aworset_removes_ordered_is_addrem_ordered.

(* non-vacuity: replica 0 adds 7; replicas 1 and 2 both receive it and remove 7 CONCURRENTLY; replicas 3 and 4 receive
   the two removes in different orders; replica 3, having seen everything, adds 7 again. In the class, not in
   aw_removes_ordered. *)
Definition aw_ar_example : list aw_op :=
  [OWrite 0 (1, 7); OSnap 0 false; ODeliver 1 0%nat; ODeliver 2 0%nat; OWrite 1 (2, 7); OWrite 2 (2, 7);
   OSnap 1 true; OSnap 2 false; ODeliver 3 1%nat; ODeliver 3 2%nat; ODeliver 4 2%nat; ODeliver 4 1%nat; OWrite 3 (1, 7)].

Example aworset_addrem_ordered_nonvacuous :
  aw_addrem_ordered aw_ar_example /\ ~ aw_removes_ordered aw_ar_example /\
  aw_read (reps (aw_run (removelast aw_ar_example)) 3) = [] /\ aw_read (reps (aw_run aw_ar_example) 4) = [] /\
  aw_read (reps (aw_run aw_ar_example) 3) = [7].
Proof.
  split; [|split; [|split; [|split]; vm_compute; reflexivity]].
  - unfold aw_addrem_ordered, aw_ar_example.
    change [OWrite 0 (1, 7); OSnap 0 false; ODeliver 1 0%nat; ODeliver 2 0%nat; OWrite 1 (2, 7); OWrite 2 (2, 7);
            OSnap 1 true; OSnap 2 false; ODeliver 3 1%nat; ODeliver 3 2%nat; ODeliver 4 2%nat; ODeliver 4 1%nat; OWrite 3 (1, 7)]
      with (((((((((((((([] : list aw_op) ++ [OWrite 0 (1, 7)]) ++ [OSnap 0 false]) ++ [ODeliver 1 0%nat]) ++ [ODeliver 2 0%nat]) ++ [OWrite 1 (2, 7)]) ++ [OWrite 2 (2, 7)]) ++
            [OSnap 1 true]) ++ [OSnap 2 false]) ++ [ODeliver 3 1%nat]) ++ [ODeliver 3 2%nat]) ++ [ODeliver 4 2%nat]) ++ [ODeliver 4 1%nat]) ++ [OWrite 3 (1, 7)]).
    repeat (apply validx_snoc_intro); try apply validx_nil; intros r a E; inversion E; subst; clear E.
    all: split; [vm_compute; reflexivity|]; split; [cbn; unfold isPol, addOp, remOp; tauto|];
      intros [ry ky ay] [s Hs] He Hcy; unfold elem_of, cmd_of in *; cbn [ev_arg ev_rep ev_seq fst snd] in *;
      (destruct ry as [|p|p]; try destruct p as [p|p|]; try destruct p as [p|p|]; vm_compute in Hs;
       destruct ky as [|[|[|ky]]]; try discriminate Hs; inversion Hs; subst; cbn in *; try discriminate; try lia; vm_compute; tauto).
  - (* the second remove is performed without the first one having been delivered *)
    intros H. specialize (H [OWrite 0 (1, 7); OSnap 0 false; ODeliver 1 0%nat; ODeliver 2 0%nat; OWrite 1 (2, 7)] 2 (2, 7)
            [OSnap 1 true; OSnap 2 false; ODeliver 3 1%nat; ODeliver 3 2%nat; ODeliver 4 2%nat; ODeliver 4 1%nat; OWrite 3 (1, 7)] eq_refl).
    destruct H as (_ & _ & _ & H). specialize (H eq_refl (mkEv 1 0%nat (2, 7))).
    assert (Hl : logged (g_log (snd (aw_xrun [OWrite 0 (1, 7); OSnap 0 false; ODeliver 1 0%nat; ODeliver 2 0%nat; OWrite 1 (2, 7)]))) (mkEv 1 0%nat (2, 7)))
      by (eexists; vm_compute; reflexivity).
    specialize (H Hl eq_refl). vm_compute in H. destruct H as [H|[]]. discriminate H.
Qed.
