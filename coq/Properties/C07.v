(* C07 — Variables shared between archetypes of a process are serializable; timed lock acquisition => no deadlock.
   Only the property theorems, each closed by `exact <lemma>`, Print Assumptions beneath, and non-vacuity Examples.
   Model: C07/Model.v (tied to distsys/resources/localshared.go by ./check C07).

   Every theorem quantifies over ALL event lists the transition system accepts from the initial state: any number
   of sharers and variables (both indexed by nat), any interleaving, any pattern of commits, aborts and
   timeouts, any order of the per-variable releases of a commit or abort. *)
From PGV Require Import C07.Model C07.Proofs C07.Proofs2 C07.Proofs3.
From Coq Require Import Sorted.

(* ---------------------------------------------------------------- strict two-phase locking *)

(* (a) once a section has released a lock it accesses nothing more: an access by the same sharer after one of its
   releases belongs to a later section (an EEnd of that sharer lies in between). *)
Theorem strict_2pl : forall init evs st outs p q i v w a,
  run (init_state init) evs = Some (st, outs) -> p < q ->
  nth_error evs p = Some (ECommitRelease i v) \/ nth_error evs p = Some (EAbortRelease i v) ->
  nth_error evs q = Some (EAccess i w a) ->
  exists r, p < r < q /\ nth_error evs r = Some (EEnd i).
Proof. exact strict_2pl_lemma. Qed.
Print Assumptions strict_2pl.

(* (b) hasLock goes false->true only by an access of an Active section, true->false only by a release of a
   Committing/Aborting one. *)
Theorem strict_2pl_phases : forall st e st' out i v,
  step st e = Some (st', out) ->
  (has st i v = false -> has st' i v = true -> ph st i = Active /\ exists a, e = EAccess i v a) /\
  (has st i v = true -> has st' i v = false -> releasing (ph st i) /\ (e = ECommitRelease i v \/ e = EAbortRelease i v)).
Proof. exact acquire_release_phases. Qed.
Print Assumptions strict_2pl_phases.

(* (c) a value written is invisible to the others until release: while i holds v, no read, write, index or
   GetState of v by anybody else is enabled. *)
Theorem strict_2pl_isolation : forall init st i j v a,
  reachable init st -> has st i v = true -> j <> i ->
  step st (EAccess j v a) = None /\ step st (EGetState j v) = None.
Proof. exact isolation_lemma. Qed.
Print Assumptions strict_2pl_isolation.

(* ---------------------------------------------------------------- serializability *)

(* serializable_realtime.  h is the ghost history: h_committed = the sections that passed their commit point, in
   commit-point order, each with the accesses it made and the results it observed.
   (1) Running those sections one after the other, alone, in that order from the initial store succeeds - every
       access of every committed section returns exactly what it returned in the concurrent run (`replay` fails
       on any differing result) - and yields a store s that IS the real store: every free variable has
       value = oldValue = s; a variable still held by a section that is releasing after its commit point already
       carries s; a variable held by an uncommitted section has oldValue = s (its tentative writes are not part of
       the store).
   (2) The order is the order of the commit points; each commit point is the ECommitStart event of its section,
       after its EBegin and before its EEnd: a section that ended before another began precedes it. *)
Theorem serializable_realtime : forall init evs st h,
  xrun (init_state init, hist0) evs = Some (st, h) ->
  (exists s, serial init (h_committed h) = Some s /\
    forall v, (locked st v = false -> value st v = s v /\ old st v = s v) /\
              (forall i, has st i v = true -> ph st i = Committing -> value st v = s v) /\
              (forall i, has st i v = true -> ph st i <> Committing -> old st v = s v)) /\
  StronglySorted (fun a b => sec_cp a < sec_cp b) (h_committed h) /\
  (forall a, In a (h_committed h) ->
      sec_begin a < sec_cp a /\ nth_error evs (sec_begin a) = Some (EBegin (sec_sharer a)) /\
      nth_error evs (sec_cp a) = Some (ECommitStart (sec_sharer a))) /\
  (forall i c e, In (i, c, e) (h_ends h) -> c < e /\ nth_error evs e = Some (EEnd i) /\
      exists a, In a (h_committed h) /\ sec_sharer a = i /\ sec_cp a = c) /\
  (forall a b e, In a (h_committed h) -> In b (h_committed h) ->
      In (sec_sharer a, sec_cp a, e) (h_ends h) -> e < sec_begin b ->
      exists l1 l2 l3, h_committed h = l1 ++ a :: l2 ++ b :: l3).
Proof. exact serializable_realtime_lemma. Qed.
Print Assumptions serializable_realtime.

(* between sections: when no sharer is in a section every lock is free and the store is the serial one *)
Theorem serializable_quiescent : forall init evs st h,
  xrun (init_state init, hist0) evs = Some (st, h) -> (forall i, ph st i = Idle) ->
  exists s, serial init (h_committed h) = Some s /\
            forall v, locked st v = false /\ value st v = s v /\ old st v = s v.
Proof. exact quiescent_lemma. Qed.
Print Assumptions serializable_quiescent.

(* the instrumented run and the plain run are the same runs (the ghost history never blocks anything) *)
Theorem xrun_is_run : forall evs st h st' outs,
  run st evs = Some (st', outs) -> exists h', xrun (st, h) evs = Some (st', h').
Proof. exact run_xrun. Qed.
Print Assumptions xrun_is_run.

(* invariants over several shared variables: whatever every committed section preserves when run alone holds of
   the store *)
Theorem multi_variable_invariant : forall (P : store -> Prop) init evs st h,
  xrun (init_state init, hist0) evs = Some (st, h) ->
  P init ->
  (forall c, In c (h_committed h) -> forall t t', P t -> replay t (sec_log c) = Some t' -> P t') ->
  exists s, serial init (h_committed h) = Some s /\ P s /\
    forall v, (locked st v = false -> value st v = s v /\ old st v = s v) /\
              (forall i, has st i v = true -> ph st i = Committing -> value st v = s v) /\
              (forall i, has st i v = true -> ph st i <> Committing -> old st v = s v).
Proof. exact invariant_preserved_lemma. Qed.
Print Assumptions multi_variable_invariant.

(* no_lost_update: if the committed sections are increments (read r, write r+1) of a counter then, whatever else
   happened (any number of aborted sections of any shape, any interleaving), the counter ends at
   initial + number of committed sections *)
Theorem no_lost_update : forall init evs st h v z,
  xrun (init_state init, hist0) evs = Some (st, h) -> (forall i, ph st i = Idle) ->
  init v = VInt z -> (forall c, In c (h_committed h) -> incr_on v (sec_log c)) ->
  value st v = VInt (z + Z.of_nat (List.length (h_committed h))).
Proof. exact no_lost_update_lemma. Qed.
Print Assumptions no_lost_update.

(* no_dirty_read: the access by which a section takes a variable operates on the committed (serial) value *)
Theorem no_dirty_read : forall init evs st h i v a st' out,
  xrun (init_state init, hist0) evs = Some (st, h) ->
  step st (EAccess i v a) = Some (st', out) -> has st i v = false ->
  exists s, serial init (h_committed h) = Some s /\ value st v = s v /\
            exists nv, exec_acc a (s v) = Some (nv, out).
Proof. exact no_dirty_read_lemma. Qed.
Print Assumptions no_dirty_read.

(* repeatable_read: in every section (committed, aborted, or still running) two reads of a variable with no own
   write in between return the same value *)
Theorem repeatable_read : forall init evs st h log,
  xrun (init_state init, hist0) evs = Some (st, h) ->
  (exists c, In c (h_committed h ++ h_aborted h) /\ log = sec_log c) \/ (exists i, log = h_log h i) ->
  forall l1 v r1 l2 r2 l3,
    log = l1 ++ mkArec v ARead r1 :: l2 ++ mkArec v ARead r2 :: l3 ->
    (forall r, In r l2 -> ar_var r = v -> is_read (ar_acc r) = true) -> r1 = r2.
Proof. exact repeatable_read_lemma. Qed.
Print Assumptions repeatable_read.

(* ---------------------------------------------------------------- abort without effect *)

(* when an aborting section gives a variable back, the variable is free again and carries the committed (serial)
   value, no other variable changes, and the serial history is untouched *)
Theorem abort_no_effect : forall init evs st h i v st' out,
  xrun (init_state init, hist0) evs = Some (st, h) ->
  step st (EAbortRelease i v) = Some (st', out) -> has st i v = true ->
  exists s, serial init (h_committed h) = Some s /\
            h_committed (hstep st h (EAbortRelease i v) out) = h_committed h /\
            locked st' v = false /\ value st' v = s v /\ old st' v = s v /\
            forall w, w <> v -> mgrs st' w = mgrs st w.
Proof. exact abort_no_effect_lemma. Qed.
Print Assumptions abort_no_effect.

(* the serial history grows only at commit points, so nothing a section that aborts (by timeout or otherwise) did
   is part of what serializable_realtime compares the store with *)
Theorem history_grows_only_at_commit_points : forall st h e out,
  (forall i, e <> ECommitStart i) -> h_committed (hstep st h e out) = h_committed h.
Proof. exact committed_only_at_commit. Qed.
Print Assumptions history_grows_only_at_commit_points.

(* ---------------------------------------------------------------- no deadlock *)

(* in every reachable state, whenever an access is blocked (the lock is held by another sharer) the timeout event
   is enabled, and after it the sharer's own release events end the section holding no lock.  Time is abstracted
   ("the timeout may fire whenever the lock is not held by the caller"), so this holds for every timeout setting. *)
Theorem no_deadlock : forall init st i v,
  reachable init st -> blocked st i v = true ->
  exists st1, step st (ETimeout i v) = Some (st1, None) /\
  exists st2 outs, run st1 (map (EAbortRelease i) (dirty st1 i) ++ [EEnd i]) = Some (st2, outs) /\
                   ph st2 i = Idle /\ forall w, has st2 i w = false.
Proof. exact no_deadlock_lemma. Qed.
Print Assumptions no_deadlock.

(* every open section can always be finished by its own events alone (so no set of sections can be stuck) ... *)
Theorem no_deadlock_progress : forall init st i,
  reachable init st -> ph st i <> Idle ->
  exists evs st2 outs, Forall (fun e => actor e = i) evs /\ run st evs = Some (st2, outs) /\
                       ph st2 i = Idle /\ forall w, has st2 i w = false.
Proof. exact progress_lemma. Qed.
Print Assumptions no_deadlock_progress.

(* ... and an event of one sharer never touches another sharer's state, so those events stay enabled whatever the
   others do (releases and timeouts only look at the sharer's own phase, dirty set and hasLock bits) *)
Theorem others_cannot_interfere : forall st e st' out i,
  step st e = Some (st', out) -> i <> actor e -> shs st' i = shs st i.
Proof. exact step_frame. Qed.
Print Assumptions others_cannot_interfere.

(* ---------------------------------------------------------------- non-vacuity *)

(* opposite acquisition orders: sharer 0 takes x0 then wants x1, sharer 1 takes x1 then wants x0: both are
   blocked, neither access is enabled, both timeouts are. *)
Example c07_opposite_orders :
  let evs := [EBegin 0; EBegin 1; EAccess 0 0 (AWrite (VInt 7)); EAccess 1 1 ARead] in
  exists st outs, run (init_state (fun _ => VInt 1)) evs = Some (st, outs) /\
    blocked st 0 1 = true /\ blocked st 1 0 = true /\
    step st (EAccess 0 1 ARead) = None /\ step st (EAccess 1 0 ARead) = None /\
    (exists st1, step st (ETimeout 0 1) = Some (st1, None)) /\ (exists st1, step st (ETimeout 1 0) = Some (st1, None)).
Proof.
  cbn zeta. eexists. eexists. split; [vm_compute; reflexivity|].
  repeat split; try (vm_compute; reflexivity); eexists; vm_compute; reflexivity.
Qed.

(* a run the serializability theorems talk about: three sharers, two variables (a counter and a function),
   overlapping sections, a timeout, a voluntary abort, a release interleaved with another section's access,
   two committed sections whose serial replay reproduces their reads (5 then 6; x1[1] = 2, not the aborted 9) *)
Definition ex_init (v : nat) : val := match v with 0 => VInt 5 | _ => VMap [(0, 1); (1, 2)]%Z end.
Definition ex_evs : list event :=
  [EBegin 0; EBegin 1; EBegin 2;
   EAccess 0 0 ARead; EAccess 0 0 (AWrite (VInt 6));
   EAccess 1 1 (AIdxRead 1); EAccess 1 1 (AIdxWrite 1 9);
   ETimeout 1 0;
   EAbortRelease 1 1;
   EAccess 0 1 (AIdxRead 1);
   EAbortRelease 1 0; EEnd 1;
   ECommitStart 0; ECommitRelease 0 1;
   EAccess 2 1 ARead;
   ECommitRelease 0 0; EEnd 0;
   EAccess 2 0 ARead; EAccess 2 0 (AWrite (VInt 7));
   ECommitStart 2; ECommitRelease 2 0; ECommitRelease 2 1; EEnd 2;
   EBegin 1; EAccess 1 0 ARead; EAbortStart 1; EAbortRelease 1 0; EEnd 1].

Example c07_nonvacuous :
  exists st h, xrun (init_state ex_init, hist0) ex_evs = Some (st, h) /\
    (forall i, i < 3 -> ph st i = Idle) /\
    map sec_sharer (h_committed h) = [0; 2] /\
    map sec_log (h_committed h) =
      [[mkArec 0 ARead (Some (VInt 5)); mkArec 0 (AWrite (VInt 6)) None; mkArec 1 (AIdxRead 1) (Some (VInt 2))];
       [mkArec 1 ARead (Some (VMap [(0, 1); (1, 2)]%Z)); mkArec 0 ARead (Some (VInt 6)); mkArec 0 (AWrite (VInt 7)) None]] /\
    List.length (h_aborted h) = 2 /\
    h_ends h = [(0, 12, 16); (2, 19, 22)] /\
    value st 0 = VInt 7 /\ value st 1 = VMap [(0, 1); (1, 2)]%Z /\
    (exists s, serial ex_init (h_committed h) = Some s /\ s 0 = VInt 7).
Proof.
  eexists. eexists. split; [vm_compute; reflexivity|].
  split; [intros i Hi; destruct i as [|[|[|i]]]; try reflexivity; exfalso; repeat apply Nat.succ_lt_mono in Hi; inversion Hi|].
  repeat split; try (vm_compute; reflexivity).
  eexists. split; vm_compute; reflexivity.
Qed.

(* the hypotheses of no_lost_update are satisfiable: two committed increments and an aborted one *)
Example c07_counter :
  let evs := [EBegin 0; EAccess 0 0 ARead; EBegin 1; ETimeout 1 0; EAbortRelease 1 0; EEnd 1;
              EAccess 0 0 (AWrite (VInt 4)); ECommitStart 0; ECommitRelease 0 0; EEnd 0;
              EBegin 1; EAccess 1 0 ARead; EAccess 1 0 (AWrite (VInt 5)); ECommitStart 1; ECommitRelease 1 0; EEnd 1] in
  exists st h, xrun (init_state (fun _ => VInt 3), hist0) evs = Some (st, h) /\
    (forall c, In c (h_committed h) -> incr_on 0 (sec_log c)) /\ List.length (h_committed h) = 2 /\ value st 0 = VInt 5.
Proof.
  cbn zeta. eexists. eexists. split; [vm_compute; reflexivity|]. split; [|split; vm_compute; reflexivity].
  intros c Hc. vm_compute in Hc. destruct Hc as [<-|[<-|[]]]; [exists 3%Z|exists 4%Z]; reflexivity.
Qed.
