(* C01 — generic theory: the transactional-resource laws (TRL), the family combinator
   preserves them, and every section run by the Run loop over a family of TRL resources is
   atomic.  Instances are in ProofsInst.v. *)
From PGV Require Import C01.Model.
From Coq Require Import Lia.

(* ------------------------------------------------------------------ abstraction + laws *)

(* The specification side of a resource kind: an abstract object of type O on which a whole
   section acts atomically.
     x_cur s   what the section in flight sees / what Commit would publish
     x_obs s   what is published: the last-commit view (what everybody sees after an abort)
     x_qui s   no section in flight
     x_sstep   the atomic semantics of one operation on the abstract object
               (Refuse = the operation blocks: `await` false, empty queue, touch) *)
Record absn (S A O : Type) := mkAbs {
  x_cur : S -> O;
  x_obs : S -> O;
  x_inv : S -> Prop;
  x_qui : S -> Prop;
  x_prep : S -> Prop;
  x_sstep : O -> A -> res (O * val);
  x_oeq : O -> O -> Prop
}.
Arguments mkAbs {S A O}. Arguments x_cur {S A O}. Arguments x_obs {S A O}. Arguments x_inv {S A O}.
Arguments x_qui {S A O}. Arguments x_prep {S A O}. Arguments x_sstep {S A O}. Arguments x_oeq {S A O}.

Definition step_ok {O} (oeq : O -> O -> Prop) (r : res val) (c' : O) (sr : res (O * val)) : Prop :=
  match sr with
  | Ok (o', v) => r = Ok v /\ oeq c' o'
  | Refuse => r = Refuse
  | Crash => r = Crash
  end.

Definition sres_eq {O} (oeq : O -> O -> Prop) (a b : res (O * val)) : Prop :=
  match a, b with
  | Ok (o1, v1), Ok (o2, v2) => v1 = v2 /\ oeq o1 o2
  | Refuse, Refuse => True
  | Crash, Crash => True
  | _, _ => False
  end.

(* TRL: the transactional resource laws (one-step form; the "any operation sequence" form of
   the design is derived below as run_body_sound / trl_sequence) *)
Record laws {S A O} (I : impl S A) (X : absn S A O) : Prop := mkLaws {
  L_refl : forall o, x_oeq X o o;
  L_sym : forall o1 o2, x_oeq X o1 o2 -> x_oeq X o2 o1;
  L_trans : forall o1 o2 o3, x_oeq X o1 o2 -> x_oeq X o2 o3 -> x_oeq X o1 o3;
  L_qui : forall s, x_inv X s -> x_qui X s -> x_oeq X (x_cur X s) (x_obs X s);
  L_step : forall s a s' r, x_inv X s -> i_step I s a = (s', r) ->
      x_inv X s' /\ x_oeq X (x_obs X s') (x_obs X s) /\
      step_ok (x_oeq X) r (x_cur X s') (x_sstep X (x_cur X s) a);
  L_pc : forall s s' b, x_inv X s -> i_pc I s = (s', b) ->
      x_inv X s' /\ x_oeq X (x_obs X s') (x_obs X s) /\
      (b = true -> x_oeq X (x_cur X s') (x_cur X s) /\ x_prep X s');
  L_cm : forall s, x_inv X s -> x_prep X s ->
      x_inv X (i_cm I s) /\ x_qui X (i_cm I s) /\ x_oeq X (x_obs X (i_cm I s)) (x_cur X s);
  L_ab : forall s, x_inv X s -> i_abp I s = false ->
      x_inv X (i_ab I s) /\ x_qui X (i_ab I s) /\ x_oeq X (x_obs X (i_ab I s)) (x_obs X s);
  L_proper : forall o1 o2 a, x_oeq X o1 o2 ->
      sres_eq (x_oeq X) (x_sstep X o1 a) (x_sstep X o2 a)
}.

Definition opt_rel {O} (R : O -> O -> Prop) (a b : option O) : Prop :=
  match a, b with
  | Some x, Some y => R x y
  | None, None => True
  | _, _ => False
  end.

(* ------------------------------------------------------------------ the family combinator *)

Section FamLaws.
  Context {K S A O : Type}.
  Variable keqb : K -> K -> bool.
  Hypothesis keqb_eq : forall a b, keqb a b = true <-> a = b.
  Variable I : impl S A.
  Variable X : absn S A O.
  Hypothesis HL : laws I X.

  Definition fam_sstep (o : K -> option O) (ka : K * A) : res ((K -> option O) * val) :=
    let '(k, a) := ka in
    match o k with
    | None => Crash
    | Some oc =>
        match x_sstep X oc a with
        | Ok (oc', v) => Ok (fun k' => if keqb k' k then Some oc' else o k', v)
        | Refuse => Refuse
        | Crash => Crash
        end
    end.

  Definition fam_abs : absn (fam K S) (K * A) (K -> option O) :=
    mkAbs
      (fun f k => option_map (x_cur X) (fres f k))
      (fun f k => option_map (x_obs X) (fres f k))
      (fun f => (forall k s, fres f k = Some s -> x_inv X s) /\
                (forall k s, fres f k = Some s -> fmem keqb k (fdirty f) = false -> x_qui X s))
      (fun f => fdirty f = [])
      (fun f => forall k s, fres f k = Some s -> fmem keqb k (fdirty f) = true -> x_prep X s)
      fam_sstep
      (fun o1 o2 => forall k, opt_rel (x_oeq X) (o1 k) (o2 k)).

  Lemma keqb_refl k : keqb k k = true.
  Proof. apply keqb_eq. reflexivity. Qed.

  Lemma opt_refl (o : option O) : opt_rel (x_oeq X) o o.
  Proof. destruct o; simpl; auto. apply (L_refl _ _ HL). Qed.

  Lemma opt_sym (a b : option O) : opt_rel (x_oeq X) a b -> opt_rel (x_oeq X) b a.
  Proof. destruct a, b; simpl; auto. apply (L_sym _ _ HL). Qed.

  Lemma opt_trans (a b c : option O) :
    opt_rel (x_oeq X) a b -> opt_rel (x_oeq X) b c -> opt_rel (x_oeq X) a c.
  Proof. destruct a, b, c; simpl; auto; try contradiction. apply (L_trans _ _ HL). Qed.

  Lemma fmem_cons k k0 d : fmem keqb k (k0 :: d) = keqb k k0 || fmem keqb k d.
  Proof. reflexivity. Qed.

  Lemma fam_laws : laws (fam_impl keqb I) fam_abs.
  Proof.
    constructor.
    - (* refl *) intros o k. apply opt_refl.
    - intros o1 o2 H k. apply opt_sym, H.
    - intros o1 o2 o3 H1 H2 k. eapply opt_trans; [apply H1|apply H2].
    - (* qui *)
      intros f [Hi Hq] Hd k. cbn in *. destruct (fres f k) as [s|] eqn:E; cbn; auto.
      apply (L_qui _ _ HL); [eapply Hi; eauto|]. eapply Hq; eauto. rewrite Hd. reflexivity.
    - (* step *)
      intros f [k a] f' r [Hi Hq] Hs. cbn [i_step fam_impl] in Hs. unfold fam_step in Hs.
      destruct (fres f k) as [s|] eqn:E.
      + destruct (i_step I s a) as [s' r0] eqn:Es. inversion Hs; subst f' r0; clear Hs.
        destruct (L_step _ _ HL s a s' r (Hi k s E) Es) as (Hi' & Ho & Hc).
        split; [split|split].
        * intros k0 s0. cbn [fres fdirty fmark]. unfold fupd. destruct (keqb k0 k) eqn:Ek.
          -- intros H; inversion H; subst; auto.
          -- intros H; eapply Hi; eauto.
        * intros k0 s0. cbn [fres fdirty fmark]. unfold fupd. rewrite fmem_cons. destruct (keqb k0 k) eqn:Ek; cbn.
          -- discriminate 2.
          -- intros H Hm. eapply Hq; eauto.
        * intros k0. cbn [fres fdirty x_obs x_cur fam_abs]. unfold fupd. destruct (keqb k0 k) eqn:Ek.
          -- apply keqb_eq in Ek; subst k0. rewrite E. cbn. exact Ho.
          -- apply opt_refl.
        * cbn. rewrite E. cbn. unfold step_ok in *.
          destruct (x_sstep X (x_cur X s) a) as [[oc' v]| |]; auto.
          destruct Hc as [Hr Hc]. split; auto. intros k0. unfold fupd.
          destruct (keqb k0 k) eqn:Ek; cbn; auto. apply opt_refl.
      + inversion Hs; subst f' r; clear Hs. split; [split|split].
        * intros k0 s0. cbn [fres fdirty fmark]. intros H; eapply Hi; eauto.
        * intros k0 s0. cbn [fres fdirty fmark]. rewrite fmem_cons. intros H Hm.
          apply Bool.orb_false_iff in Hm as [_ Hm]. eapply Hq; eauto.
        * intros k0. apply opt_refl.
        * cbn. rewrite E. cbn. reflexivity.
    - (* pc *)
      intros f f' b [Hi Hq] Hp. cbn [i_pc fam_impl] in Hp. unfold fam_pc in Hp.
      inversion Hp; subst f' b; clear Hp.
      split; [split|split].
      + intros k s. cbn [fres fdirty]. unfold fmap_dirty. destruct (fmem keqb k (fdirty f)); [|apply Hi].
        destruct (fres f k) as [s0|] eqn:E; cbn; [|discriminate].
        intros H; inversion H; subst s; clear H.
        destruct (i_pc I s0) as [s1 b1] eqn:Ep. cbn.
        apply (L_pc _ _ HL s0 s1 b1 (Hi k s0 E) Ep).
      + intros k s. cbn [fres fdirty]. unfold fmap_dirty. intros H Hm. rewrite Hm in H. eapply Hq; eauto.
      + intros k. cbn [fres fdirty x_obs x_cur fam_abs]. unfold fmap_dirty. destruct (fmem keqb k (fdirty f)); [|apply opt_refl].
        destruct (fres f k) as [s0|] eqn:E; cbn; auto.
        destruct (i_pc I s0) as [s1 b1] eqn:Ep. cbn.
        apply (L_pc _ _ HL s0 s1 b1 (Hi k s0 E) Ep).
      + intros Hall. rewrite forallb_forall in Hall. split.
        * intros k. cbn [fres fdirty x_obs x_cur fam_abs]. unfold fmap_dirty. destruct (fmem keqb k (fdirty f)) eqn:Hm; [|apply opt_refl].
          destruct (fres f k) as [s0|] eqn:E; cbn; auto.
          destruct (i_pc I s0) as [s1 b1] eqn:Ep. cbn.
          unfold fmem in Hm. apply existsb_exists in Hm as (k1 & Hin & Hk). apply keqb_eq in Hk; subst k1.
          specialize (Hall k Hin). rewrite E, Ep in Hall. cbn in Hall.
          apply (L_pc _ _ HL s0 s1 b1 (Hi k s0 E) Ep). exact Hall.
        * intros k s. cbn [fres fdirty]. unfold fmap_dirty. intros H Hm. rewrite Hm in H.
          destruct (fres f k) as [s0|] eqn:E; cbn in H; [|discriminate]. inversion H; subst s; clear H.
          destruct (i_pc I s0) as [s1 b1] eqn:Ep. cbn.
          unfold fmem in Hm. apply existsb_exists in Hm as (k1 & Hin & Hk). apply keqb_eq in Hk; subst k1.
          specialize (Hall k Hin). rewrite E, Ep in Hall. cbn in Hall.
          apply (L_pc _ _ HL s0 s1 b1 (Hi k s0 E) Ep). exact Hall.
    - (* cm *)
      intros f [Hi Hq] Hp. cbn [i_cm fam_impl]. unfold fam_cm. split; [split|split].
      + intros k s. cbn [fres fdirty]. unfold fmap_dirty. destruct (fmem keqb k (fdirty f)) eqn:Hm; [|apply Hi].
        destruct (fres f k) as [s0|] eqn:E; cbn; [|discriminate].
        intros H; inversion H; subst s; clear H.
        apply (L_cm _ _ HL s0 (Hi k s0 E)). eapply Hp; eauto.
      + intros k s. cbn [fres fdirty]. unfold fmap_dirty. intros H _.
        destruct (fmem keqb k (fdirty f)) eqn:Hm; [|eapply Hq; eauto].
        destruct (fres f k) as [s0|] eqn:E; cbn in H; [|discriminate]. inversion H; subst s; clear H.
        apply (L_cm _ _ HL s0 (Hi k s0 E)). eapply Hp; eauto.
      + reflexivity.
      + intros k. cbn [fres fdirty x_obs x_cur fam_abs]. unfold fmap_dirty. destruct (fmem keqb k (fdirty f)) eqn:Hm.
        * destruct (fres f k) as [s0|] eqn:E; cbn; auto.
          apply (L_cm _ _ HL s0 (Hi k s0 E)). eapply Hp; eauto.
        * destruct (fres f k) as [s0|] eqn:E; cbn; auto.
          apply (L_sym _ _ HL). apply (L_qui _ _ HL); [eapply Hi|eapply Hq]; eauto.
    - (* ab *)
      intros f [Hi Hq] Hp. cbn [i_ab i_abp fam_impl] in *. unfold fam_ab. unfold fam_abp in Hp.
      assert (Hnp : forall k s, fres f k = Some s -> fmem keqb k (fdirty f) = true -> i_abp I s = false).
      { intros k s E Hm. unfold fmem in Hm. apply existsb_exists in Hm as (k1 & Hin & Hk).
        apply keqb_eq in Hk; subst k1.
        destruct (i_abp I s) eqn:Ea; auto.
        assert (existsb (fun k => match fres f k with Some s => i_abp I s | None => false end) (fdirty f) = true).
        { apply existsb_exists. exists k. split; auto. rewrite E. exact Ea. }
        congruence. }
      split; [split|split].
      + intros k s. cbn [fres fdirty]. unfold fmap_dirty. destruct (fmem keqb k (fdirty f)) eqn:Hm; [|apply Hi].
        destruct (fres f k) as [s0|] eqn:E; cbn; [|discriminate].
        intros H; inversion H; subst s; clear H.
        apply (L_ab _ _ HL s0 (Hi k s0 E)). eapply Hnp; eauto.
      + intros k s. cbn [fres fdirty]. unfold fmap_dirty. intros H _.
        destruct (fmem keqb k (fdirty f)) eqn:Hm; [|eapply Hq; eauto].
        destruct (fres f k) as [s0|] eqn:E; cbn in H; [|discriminate]. inversion H; subst s; clear H.
        apply (L_ab _ _ HL s0 (Hi k s0 E)). eapply Hnp; eauto.
      + reflexivity.
      + intros k. cbn [fres fdirty x_obs x_cur fam_abs]. unfold fmap_dirty. destruct (fmem keqb k (fdirty f)) eqn:Hm; [|apply opt_refl].
        destruct (fres f k) as [s0|] eqn:E; cbn; auto.
        apply (L_ab _ _ HL s0 (Hi k s0 E)). eapply Hnp; eauto.
    - (* proper *)
      intros o1 o2 [k a] H. cbn. unfold sres_eq. pose proof (H k) as Hk.
      destruct (o1 k) as [c1|], (o2 k) as [c2|]; cbn in Hk; try contradiction; auto.
      pose proof (L_proper _ _ HL c1 c2 a Hk) as Hp. unfold sres_eq in Hp.
      destruct (x_sstep X c1 a) as [[c1' v1]| |], (x_sstep X c2 a) as [[c2' v2]| |]; try contradiction; auto.
      destruct Hp as [Hv Hc]. split; auto. intros k0.
      destruct (keqb k0 k); cbn; auto.
  Qed.
End FamLaws.

(* ------------------------------------------------------------------ sections over a family *)

Section RunLaws.
  Context {K S A O : Type}.
  Variable keqb : K -> K -> bool.
  Hypothesis keqb_eq : forall a b, keqb a b = true <-> a = b.
  Variable I : impl S A.
  Variable X : absn S A O.
  Hypothesis HL : laws I X.
  Variable touch_of : A -> nat -> A.
  Let FX := fam_abs keqb X.
  Let FI := fam_impl keqb I.
  Let HF : laws FI FX := fam_laws keqb keqb_eq I X HL.

  (* the atomic execution of a body on the abstract objects *)
  Fixpoint spec_run (o : K -> option O) (p : prog K A) : res (K -> option O) :=
    match p with
    | PDone => Ok o
    | PAwaitFalse => Refuse
    | PAssertFalse => Crash
    | PAct k a cont =>
        match x_sstep FX o (k, a) with
        | Ok (o', v) => spec_run o' (cont v)
        | Refuse => Refuse
        | Crash => Crash
        end
    end.

  Definition rres_eq (a b : res (K -> option O)) : Prop :=
    match a, b with
    | Ok o1, Ok o2 => x_oeq FX o1 o2
    | Refuse, Refuse => True
    | Crash, Crash => True
    | _, _ => False
    end.

  Lemma spec_run_proper : forall p o1 o2, x_oeq FX o1 o2 -> rres_eq (spec_run o1 p) (spec_run o2 p).
  Proof.
    induction p as [|k a cont IH| |]; intros o1 o2 H; cbn [spec_run].
    - exact H.
    - pose proof (L_proper _ _ HF o1 o2 (k, a) H) as Hp. unfold sres_eq in Hp.
      destruct (x_sstep FX o1 (k, a)) as [[o1' v1]| |], (x_sstep FX o2 (k, a)) as [[o2' v2]| |];
        try contradiction; cbn; auto.
      destruct Hp as [Hv Ho]. subst v2. apply IH. exact Ho.
    - cbn. exact Logic.I.
    - cbn. exact Logic.I.
  Qed.

  Definition no_faults (fl : list (option nat)) : Prop := Forall (fun x => x = None) fl.

  (* TRL, operation-sequence form: whatever prefix of whatever body has run, with whatever
     refusals, the published view is untouched, and if the body completed the in-flight view is
     the atomic execution of the body *)
  Lemma run_body_sound : forall p f fl f1 r tr,
    x_inv FX f -> run_body keqb I touch_of f p fl = (f1, r, tr) ->
    x_inv FX f1 /\ x_oeq FX (x_obs FX f1) (x_obs FX f) /\
    match r with
    | Ok _ => exists o1, spec_run (x_cur FX f) p = Ok o1 /\ x_oeq FX (x_cur FX f1) o1
    | Refuse => no_faults fl -> spec_run (x_cur FX f) p = Refuse
    | Crash => no_faults fl -> spec_run (x_cur FX f) p = Crash
    end.
  Proof.
    induction p as [|k a cont IH| |]; intros f fl f1 r tr Hi Hr; cbn [run_body] in Hr.
    - inversion Hr; subst. split; auto. split; [apply (L_refl _ _ HF)|].
      exists (x_cur FX f1). split; auto. apply (L_refl _ _ HF).
    - destruct fl as [|[j|] fl'].
      + (* no fault entry *)
        destruct (fam_step keqb I f (k, a)) as [f' r0] eqn:Es.
        destruct (L_step _ _ HF f (k, a) f' r0 Hi Es) as (Hi' & Ho & Hc).
        cbn [spec_run]. unfold step_ok in Hc.
        destruct (x_sstep FX (x_cur FX f) (k, a)) as [[o' v]| |] eqn:Ess.
        * destruct Hc as [-> Hc].
          destruct (run_body keqb I touch_of f' (cont v) (tl [])) as [[f'' r'] tr'] eqn:Eb.
          inversion Hr; subst f1 r tr; clear Hr.
          destruct (IH v f' (tl []) f'' r' tr' Hi' Eb) as (Hi'' & Ho' & Hc').
          split; auto. split; [eapply (L_trans _ _ HF); eauto|].
          pose proof (spec_run_proper (cont v) _ _ Hc) as Hp. unfold rres_eq in Hp.
          destruct r'.
          -- destruct Hc' as (o1 & E1 & Hq). rewrite E1 in Hp.
             destruct (spec_run o' (cont v)) as [o2| |]; try contradiction.
             exists o2. split; auto. eapply (L_trans _ _ HF); eauto.
          -- intros Hn. rewrite (Hc' (Forall_nil _)) in Hp.
             destruct (spec_run o' (cont v)); try contradiction; auto.
          -- intros Hn. rewrite (Hc' (Forall_nil _)) in Hp.
             destruct (spec_run o' (cont v)); try contradiction; auto.
        * subst r0. inversion Hr; subst. split; auto.
        * subst r0. inversion Hr; subst. split; auto.
      + (* injected refusal *)
        destruct (fam_step keqb I f (k, touch_of a j)) as [f' r0] eqn:Es.
        destruct (L_step _ _ HF f (k, touch_of a j) f' r0 Hi Es) as (Hi' & Ho & Hc).
        inversion Hr; subst f1 r tr; clear Hr. split; auto. split; auto.
        destruct r0; intros Hn; inversion Hn; discriminate.
      + destruct (fam_step keqb I f (k, a)) as [f' r0] eqn:Es.
        destruct (L_step _ _ HF f (k, a) f' r0 Hi Es) as (Hi' & Ho & Hc).
        cbn [spec_run]. unfold step_ok in Hc.
        destruct (x_sstep FX (x_cur FX f) (k, a)) as [[o' v]| |] eqn:Ess.
        * destruct Hc as [-> Hc].
          destruct (run_body keqb I touch_of f' (cont v) (tl (None :: fl'))) as [[f'' r'] tr'] eqn:Eb.
          inversion Hr; subst f1 r tr; clear Hr.
          destruct (IH v f' _ f'' r' tr' Hi' Eb) as (Hi'' & Ho' & Hc').
          split; auto. split; [eapply (L_trans _ _ HF); eauto|].
          pose proof (spec_run_proper (cont v) _ _ Hc) as Hp. unfold rres_eq in Hp.
          destruct r'.
          -- destruct Hc' as (o1 & E1 & Hq). rewrite E1 in Hp.
             destruct (spec_run o' (cont v)) as [o2| |]; try contradiction.
             exists o2. split; auto. eapply (L_trans _ _ HF); eauto.
          -- intros Hn. inversion Hn; subst. cbn [tl] in Hc'. rewrite (Hc' H2) in Hp.
             destruct (spec_run o' (cont v)); try contradiction; auto.
          -- intros Hn. inversion Hn; subst. cbn [tl] in Hc'. rewrite (Hc' H2) in Hp.
             destruct (spec_run o' (cont v)); try contradiction; auto.
        * subst r0. inversion Hr; subst. split; auto.
        * subst r0. inversion Hr; subst. split; auto.
    - inversion Hr; subst. split; auto. split; [apply (L_refl _ _ HF)|]. auto.
    - inversion Hr; subst. split; auto. split; [apply (L_refl _ _ HF)|]. auto.
  Qed.

  (* what a section guarantees, by outcome *)
  Definition section_post (f : fam K S) (p : prog K A) (f' : fam K S) (out : outcome) : Prop :=
    match out with
    | Committed =>
        x_inv FX f' /\ x_qui FX f' /\
        exists o', spec_run (x_obs FX f) p = Ok o' /\ x_oeq FX (x_obs FX f') o'
    | Aborted => x_inv FX f' /\ x_qui FX f' /\ x_oeq FX (x_obs FX f') (x_obs FX f)
    | Crashed => x_inv FX f' /\ x_oeq FX (x_obs FX f') (x_obs FX f)
    | AbortPanicked => x_inv FX f' /\ x_oeq FX (x_obs FX f') (x_obs FX f) /\ fam_abp I f' = true
    end.

  Theorem section_atomic_gen : forall f p fl pf f' out,
    x_inv FX f -> x_qui FX f ->
    run_section keqb I touch_of f p fl pf = (f', out) ->
    section_post f p f' out.
  Proof.
    intros f p fl pf f' out Hi Hq Hr. unfold run_section in Hr.
    destruct (run_body keqb I touch_of f p fl) as [[f1 r] tr] eqn:Eb.
    destruct (run_body_sound p f fl f1 r tr Hi Eb) as (Hi1 & Ho1 & Hc1).
    unfold finish in Hr. destruct r.
    - (* body completed *)
      destruct (fam_pc keqb I f1) as [f2 ok] eqn:Ep.
      destruct (L_pc _ _ HF f1 f2 ok Hi1 Ep) as (Hi2 & Ho2 & Hc2).
      assert (Ho12 : x_oeq FX (x_obs FX f2) (x_obs FX f)) by (eapply (L_trans _ _ HF); eauto).
      destruct (ok && forallb (fun k => negb (pf k)) (fdirty f1)) eqn:Eok.
      + inversion Hr; subst f' out; clear Hr.
        apply andb_prop in Eok as [-> _]. destruct (Hc2 eq_refl) as [Hcur Hprep].
        destruct (L_cm _ _ HF f2 Hi2 Hprep) as (Hi3 & Hq3 & Ho3).
        cbn [section_post]. split; auto. split; auto.
        destruct Hc1 as (o1 & E1 & Hq1).
        pose proof (spec_run_proper p _ _ (L_qui _ _ HF f Hi Hq)) as Hp. unfold rres_eq in Hp.
        rewrite E1 in Hp. destruct (spec_run (x_obs FX f) p) as [o2| |]; try contradiction.
        exists o2. split; auto.
        eapply (L_trans _ _ HF); [exact Ho3|]. eapply (L_trans _ _ HF); [exact Hcur|].
        eapply (L_trans _ _ HF); eauto.
      + destruct (fam_abp I f2) eqn:Ea.
        * inversion Hr; subst f' out; clear Hr. cbn [section_post]. auto.
        * inversion Hr; subst f' out; clear Hr.
          destruct (L_ab _ _ HF f2 Hi2 Ea) as (Hi3 & Hq3 & Ho3).
          cbn [section_post]. split; auto. split; auto. eapply (L_trans _ _ HF); eauto.
    - destruct (fam_abp I f1) eqn:Ea.
      + inversion Hr; subst f' out; clear Hr. cbn [section_post]. auto.
      + inversion Hr; subst f' out; clear Hr.
        destruct (L_ab _ _ HF f1 Hi1 Ea) as (Hi3 & Hq3 & Ho3).
        cbn [section_post]. split; auto. split; auto. eapply (L_trans _ _ HF); eauto.
    - inversion Hr; subst f' out; clear Hr. cbn [section_post]. auto.
  Qed.

  (* the dirty set is empty after every commit and every abort *)
  Corollary dirty_empty_after : forall f p fl pf f' out,
    x_inv FX f -> x_qui FX f ->
    run_section keqb I touch_of f p fl pf = (f', out) ->
    out = Committed \/ out = Aborted -> fdirty f' = [].
  Proof.
    intros f p fl pf f' out Hi Hq Hr Ho.
    pose proof (section_atomic_gen f p fl pf f' out Hi Hq Hr) as H.
    destruct Ho; subst out; cbn in H; tauto.
  Qed.

  (* a section aborts only when the specification blocks, a fault/timeout was injected, or a
     resource's own PreCommit refused *)
  Theorem abort_only_if_blocked : forall f p fl pf f',
    x_inv FX f -> x_qui FX f ->
    no_faults fl -> (forall k, pf k = false) -> (forall s, snd (i_pc I s) = true) ->
    run_section keqb I touch_of f p fl pf = (f', Aborted) ->
    spec_run (x_obs FX f) p = Refuse.
  Proof.
    intros f p fl pf f' Hi Hq Hn Hpf Hpc Hr. unfold run_section in Hr.
    destruct (run_body keqb I touch_of f p fl) as [[f1 r] tr] eqn:Eb.
    destruct (run_body_sound p f fl f1 r tr Hi Eb) as (Hi1 & Ho1 & Hc1).
    unfold finish in Hr. destruct r.
    - destruct (fam_pc keqb I f1) as [f2 ok] eqn:Ep.
      assert (ok = true).
      { unfold fam_pc in Ep. inversion Ep. apply forallb_forall. intros k _.
        destruct (fres f1 k); auto. }
      subst ok.
      assert (forallb (fun k => negb (pf k)) (fdirty f1) = true).
      { apply forallb_forall. intros k _. rewrite Hpf. reflexivity. }
      rewrite H in Hr. cbn in Hr. inversion Hr.
    - pose proof (spec_run_proper p _ _ (L_qui _ _ HF f Hi Hq)) as Hp. unfold rres_eq in Hp.
      rewrite (Hc1 Hn) in Hp. destruct (spec_run (x_obs FX f) p); try contradiction; auto.
    - inversion Hr.
  Qed.

  (* the retry of an aborted section starts from exactly the last-commit state: two quiescent
     contexts with the same published view are indistinguishable by any further section *)
  Theorem retry_same : forall f g p,
    x_inv FX f -> x_qui FX f -> x_inv FX g -> x_qui FX g ->
    x_oeq FX (x_obs FX f) (x_obs FX g) ->
    rres_eq (spec_run (x_obs FX f) p) (spec_run (x_obs FX g) p).
  Proof. intros. apply spec_run_proper. assumption. Qed.

  (* ---------------------------------------------------------------- sequences of sections *)

  (* the serial specification: committed sections act atomically, in order; every other attempt
     leaves no trace *)
  Fixpoint spec_sections (o : K -> option O) (secs : list (prog K A * list (option nat) * (K -> bool)))
    (outs : list outcome) : Prop :=
    match secs, outs with
    | _, [] => True
    | [], _ :: _ => False
    | (p, _, _) :: rest, Committed :: outs' =>
        exists o', spec_run o p = Ok o' /\ spec_sections o' rest outs'
    | _ :: rest, _ :: outs' => spec_sections o rest outs'
    end.

  Lemma spec_sections_proper : forall secs outs o1 o2,
    x_oeq FX o1 o2 -> spec_sections o1 secs outs -> spec_sections o2 secs outs.
  Proof.
    induction secs as [|[[p fl] pf] rest IH]; intros outs o1 o2 H Hs; destruct outs as [|out outs']; cbn in *; auto.
    destruct out; eauto.
    destruct Hs as (o' & E & Hs). pose proof (spec_run_proper p _ _ H) as Hp. unfold rres_eq in Hp.
    rewrite E in Hp. destruct (spec_run o2 p) as [o2'| |]; try contradiction.
    exists o2'. split; auto. eapply IH; eauto.
  Qed.

  Theorem sections_atomic_gen : forall secs f f' outs,
    x_inv FX f -> x_qui FX f ->
    run_sections keqb I touch_of f secs = (f', outs) ->
    spec_sections (x_obs FX f) secs outs /\
    (Forall (fun o => o = Committed \/ o = Aborted) outs -> x_inv FX f' /\ x_qui FX f').
  Proof.
    induction secs as [|[[p fl] pf] rest IH]; intros f f' outs Hi Hq Hr; cbn [run_sections] in Hr.
    - inversion Hr; subst. cbn. auto.
    - destruct (run_section keqb I touch_of f p fl pf) as [f1 o] eqn:Es.
      pose proof (section_atomic_gen f p fl pf f1 o Hi Hq Es) as Hp.
      destruct o; cbn [section_post] in Hp.
      + destruct (run_sections keqb I touch_of f1 rest) as [f2 os] eqn:Er.
        inversion Hr; subst f' outs; clear Hr.
        destruct Hp as (Hi1 & Hq1 & o' & E & Ho).
        destruct (IH f1 f2 os Hi1 Hq1 Er) as [Hs Hf]. split.
        * cbn. exists o'. split; auto. eapply spec_sections_proper; eauto.
        * intros Hall. inversion Hall; subst. auto.
      + destruct (run_sections keqb I touch_of f1 rest) as [f2 os] eqn:Er.
        inversion Hr; subst f' outs; clear Hr.
        destruct Hp as (Hi1 & Hq1 & Ho).
        destruct (IH f1 f2 os Hi1 Hq1 Er) as [Hs Hf]. split.
        * cbn. eapply spec_sections_proper; eauto.
        * intros Hall. inversion Hall; subst. auto.
      + inversion Hr; subst f' outs; clear Hr. split; [cbn; destruct rest as [|[[? ?] ?] ?]; exact Logic.I|].
        intros Hall. inversion Hall; subst. destruct H1; discriminate.
      + inversion Hr; subst f' outs; clear Hr. split; [cbn; destruct rest as [|[[? ?] ?] ?]; exact Logic.I|].
        intros Hall. inversion Hall; subst. destruct H1; discriminate.
  Qed.

  (* no resource of the family ever panics in Abort => no attempt ends in AbortPanicked *)
  Theorem transactional_never_panics : forall f p fl pf f' out,
    (forall s, i_abp I s = false) ->
    run_section keqb I touch_of f p fl pf = (f', out) -> out <> AbortPanicked.
  Proof.
    intros f p fl pf f' out Hnp Hr. unfold run_section in Hr.
    destruct (run_body keqb I touch_of f p fl) as [[f1 r] tr].
    assert (Hz : forall g : fam K S, fam_abp I g = false).
    { intros g. unfold fam_abp. destruct (existsb _ (fdirty g)) eqn:E; auto.
      apply existsb_exists in E as (k & _ & Hk). destruct (fres g k); [rewrite Hnp in Hk|]; discriminate. }
    unfold finish in Hr. destruct r.
    - destruct (fam_pc keqb I f1) as [f2 ok]. destruct (ok && _).
      + inversion Hr; discriminate.
      + rewrite Hz in Hr. inversion Hr; discriminate.
    - rewrite Hz in Hr. inversion Hr; discriminate.
    - inversion Hr; discriminate.
  Qed.
End RunLaws.
