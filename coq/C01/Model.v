(* C01 — executable model of the critical-section machinery of distsys.
   Model only (Definitions/Fixpoints, no proofs).

   Transcribed from:
     distsys/mpcalctx.go            Run (loop body), commit(), abort(), dirtyResourceHandles
     distsys/archetypeinterface.go  Read / Write (mark the handle dirty BEFORE touching, Index chain)
     distsys/archetyperesource.go   LocalArchetypeResource, localArchetypeSubResource
     distsys/resources/channels.go  InputChan, OutputChan, SingleOutputChan
     distsys/resources/incmap.go, hashmap.go   (the `fam` combinator: children + dirtyElems)
     distsys/resources/persistent.go           Persistent over a LocalArchetypeResource
     distsys/resources/filesystem.go           file
     distsys/resources/dummy.go                Dummy
     distsys/resources/localshared.go          localShared as seen by one archetype
     distsys/resources/relaxedmailboxes.go     relaxedMailboxesRemote (sender side)
     systems/raftkvs/persistentlog.go          PersistentLog (+ ImmutableResource)
     systems/raftkvs/customch.go               CustomInChan

   Conventions.
   * A Go method mutating its receiver becomes a function returning the new state.
   * `res A` is the outcome of a resource operation: `Ok a`, `Refuse` (the operation
     returned distsys.ErrCriticalSectionAborted) or `Crash` (it returned another error or
     panicked: Run returns/propagates it, neither commit() nor abort() is called).
   * External stores (the Go channel behind an InputChan/OutputChan, the badger DB, the
     file system, the TCP stream of a relaxed mailbox) are ghost fields of the state.
   * ArchetypeInterface.Read/Write(handle, indices, ..) always runs the whole chain
     Index* ; ReadValue|WriteValue, so a resource offers one composite operation
     `step : S -> act -> S * res val` on an `act` carrying the index path.  `ATouch p` runs only
     the Index calls of the path and then returns Refuse: it is what a fault-injecting wrapper
     produces when it refuses the (|p|+1)-th call of a chain (and the model of a timeout at
     that point).
   * Vector clocks (tla.WrapCausal etc.) are transparent to values and are not modelled. *)
From Coq Require Export List ZArith String Bool.
Export ListNotations.
Open Scope Z_scope.

(* ------------------------------------------------------------------ values *)

(* the fragment of the TLA+ universe needed by indexed access: defaultInitValue, booleans,
   numbers, strings, tuples, records/functions (association list in a fixed key order) *)
Inductive val :=
| VD | VB (b : bool) | VI (z : Z) | VS (s : string)
| VT (xs : list val) | VR (kvs : list (val * val)).

Fixpoint val_eqb (a b : val) {struct a} : bool :=
  match a, b with
  | VD, VD => true
  | VB x, VB y => Bool.eqb x y
  | VI x, VI y => Z.eqb x y
  | VS x, VS y => String.eqb x y
  | VT xs, VT ys =>
      (fix go (xs ys : list val) {struct xs} : bool :=
         match xs, ys with
         | [], [] => true
         | x :: xs', y :: ys' => val_eqb x y && go xs' ys'
         | _, _ => false
         end) xs ys
  | VR xs, VR ys =>
      (fix go (xs ys : list (val * val)) {struct xs} : bool :=
         match xs, ys with
         | [], [] => true
         | (k, v) :: xs', (k', v') :: ys' => val_eqb k k' && val_eqb v v' && go xs' ys'
         | _, _ => false
         end) xs ys
  | _, _ => false
  end.

Fixpoint lookup (k : val) (kvs : list (val * val)) : option val :=
  match kvs with
  | [] => None
  | (k', v) :: r => if val_eqb k k' then Some v else lookup k r
  end.

Fixpoint replace_kv (k v : val) (kvs : list (val * val)) : list (val * val) :=
  match kvs with
  | [] => []
  | (k', v') :: r => if val_eqb k k' then (k', v) :: r else (k', v') :: replace_kv k v r
  end.

Fixpoint replace_nth (n : nat) (v : val) (xs : list val) : list val :=
  match xs, n with
  | [], _ => []
  | _ :: r, O => v :: r
  | x :: r, S n' => x :: replace_nth n' v r
  end.

(* tla.Value.ApplyFunction; None = panic *)
Definition apply1 (f i : val) : option val :=
  match f, i with
  | VT xs, VI n => if (1 <=? n) && (n <=? Z.of_nat (List.length xs))
                   then nth_error xs (Z.to_nat (n - 1)) else None
  | VR kvs, _ => lookup i kvs
  | _, _ => None
  end.

(* localArchetypeSubResource.ReadValue: fold ApplyFunction over the indices *)
Fixpoint apply_path (f : val) (p : list val) : option val :=
  match p with
  | [] => Some f
  | i :: r => match apply1 f i with Some g => apply_path g r | None => None end
  end.

(* tla.FunctionSubstitution with one record {Keys: p, Value: const v}; None = panic *)
Fixpoint subst_path (src : val) (p : list val) (v : val) : option val :=
  match p with
  | [] => Some v
  | k :: r =>
      match src with
      | VR kvs =>
          match lookup k kvs with
          | Some old => match subst_path old r v with
                        | Some new => Some (VR (replace_kv k new kvs))
                        | None => None
                        end
          | None => None
          end
      | VT xs =>
          match k with
          | VI n =>
              if (1 <=? n) && (n <=? Z.of_nat (List.length xs)) then
                match nth_error xs (Z.to_nat (n - 1)) with
                | Some old => match subst_path old r v with
                              | Some new => Some (VT (replace_nth (Z.to_nat (n - 1)) new xs))
                              | None => None
                              end
                | None => None
                end
              else None
          | _ => None
          end
      | _ => None
      end
  end.

(* ------------------------------------------------------------------ operations *)

Inductive res (A : Type) := Ok (a : A) | Refuse | Crash.
Arguments Ok {A} a. Arguments Refuse {A}. Arguments Crash {A}.

Inductive act := ARead (p : list val) | AWrite (p : list val) (v : val) | ATouch (p : list val).

(* the implementation side of a resource kind *)
Record impl (S A : Type) := mkImpl {
  i_step : S -> A -> S * res val;        (* Index* ; ReadValue | WriteValue *)
  i_pc   : S -> S * bool;                (* PreCommit; false = it yielded ErrCriticalSectionAborted *)
  i_cm   : S -> S;                       (* Commit *)
  i_ab   : S -> S;                       (* Abort *)
  i_abp  : S -> bool                     (* Abort panics in this state *)
}.
Arguments mkImpl {S A}. Arguments i_step {S A}. Arguments i_pc {S A}. Arguments i_cm {S A}.
Arguments i_ab {S A}. Arguments i_abp {S A}.

(* ------------------------------------------------------------------ family + dirty set
   One combinator for the three places where the runtime keeps "children + the set of
   children touched by the section in flight":
     MPCalContext   resources / dirtyResourceHandles   (keys: handles)
     IncMap         realizedMap+fillFunction / dirtyElems (keys: TLA+ values)
     HashMap        resourceMap / dirtyElems
   The dirty collection is a Go map used as a set: membership is all that matters, commit /
   abort / precommit visit every member exactly once, in an unspecified order; children are
   independent, so the visit is modelled pointwise. *)
Section Fam.
  Context {K S A : Type}.
  Variable keqb : K -> K -> bool.
  Variable I : impl S A.

  Record fam := mkFam { fres : K -> option S; fdirty : list K }.

  Definition fmem (k : K) (d : list K) : bool := existsb (keqb k) d.
  Definition fupd (f : K -> option S) (k : K) (s : S) : K -> option S :=
    fun k' => if keqb k' k then Some s else f k'.

  (* ensureCriticalSectionWith / dirtyElems.Set *)
  Definition fmark (k : K) (f : fam) : fam := mkFam (fres f) (k :: fdirty f).

  (* one access: mark dirty first, then touch the child *)
  Definition fam_step (f : fam) (ka : K * A) : fam * res val :=
    let '(k, a) := ka in
    let f1 := fmark k f in
    match fres f k with
    | None => (f1, Crash)                                  (* getResourceByHandle panics *)
    | Some s => let '(s', r) := i_step I s a in (mkFam (fupd (fres f) k s') (fdirty f1), r)
    end.

  Definition fmap_dirty (g : S -> S) (f : fam) : K -> option S :=
    fun k => if fmem k (fdirty f) then option_map g (fres f k) else fres f k.

  (* all PreCommits are dispatched; the section may commit only if none yielded an error *)
  Definition fam_pc (f : fam) : fam * bool :=
    (mkFam (fmap_dirty (fun s => fst (i_pc I s)) f) (fdirty f),
     forallb (fun k => match fres f k with Some s => snd (i_pc I s) | None => true end) (fdirty f)).

  Definition fam_cm (f : fam) : fam := mkFam (fmap_dirty (i_cm I) f) [].
  Definition fam_ab (f : fam) : fam := mkFam (fmap_dirty (i_ab I) f) [].
  Definition fam_abp (f : fam) : bool :=
    existsb (fun k => match fres f k with Some s => i_abp I s | None => false end) (fdirty f).

  Definition fam_impl : impl fam (K * A) := mkImpl fam_step fam_pc fam_cm fam_ab fam_abp.
End Fam.
Arguments fam : clear implicits.
Arguments mkFam {K S}.

(* ------------------------------------------------------------------ the section loop *)

(* A critical-section body: straight-line code whose later operations may depend on the values
   read earlier (finite interaction tree).  `await e` with e true and `assert e` with e true are
   no-ops; with e false they are the two leaves below. *)
Inductive prog (K A : Type) :=
| PDone
| PAct (k : K) (a : A) (cont : val -> prog K A)
| PAwaitFalse           (* return ErrCriticalSectionAborted *)
| PAssertFalse.         (* return ErrAssertionFailed (or any other error / panic) *)
Arguments PDone {K A}. Arguments PAct {K A}. Arguments PAwaitFalse {K A}. Arguments PAssertFalse {K A}.

Inductive outcome := Committed | Aborted | Crashed | AbortPanicked.

Section Run.
  Context {K S A : Type}.
  Variable keqb : K -> K -> bool.
  Variable I : impl S A.
  (* a fault-injecting wrapper refusing the (j+1)-th call of the chain of act `a` *)
  Variable touch_of : A -> nat -> A.

  (* the body; `fl` holds one entry per operation executed: Some j = the wrapper refuses call j.
     Third component: the values returned by the operations that succeeded (VD for a write). *)
  Fixpoint run_body (f : fam K S) (p : prog K A) (fl : list (option nat))
    : fam K S * res unit * list val :=
    match p with
    | PDone => (f, Ok tt, [])
    | PAwaitFalse => (f, Refuse, [])
    | PAssertFalse => (f, Crash, [])
    | PAct k a cont =>
        match fl with
        | Some j :: _ =>
            let '(f', r) := fam_step keqb I f (k, touch_of a j) in
            (f', match r with Crash => Crash | _ => Refuse end, [])
        | _ =>
            let '(f', r) := fam_step keqb I f (k, a) in
            match r with
            | Ok v => let '(f'', r', tr) := run_body f' (cont v) (tl fl) in (f'', r', v :: tr)
            | Refuse => (f', Refuse, [])
            | Crash => (f', Crash, [])
            end
        end
    end.

  (* Run's loop body after the body returned: commit() or abort().
     `pf k` = the wrapper around resource k makes its PreCommit yield ErrCriticalSectionAborted
     (after the wrapped PreCommit has completed). *)
  Definition finish (f1 : fam K S) (r : res unit) (pf : K -> bool) : fam K S * outcome :=
    match r with
    | Crash => (f1, Crashed)
    | Refuse => if fam_abp I f1 then (f1, AbortPanicked) else (fam_ab keqb I f1, Aborted)
    | Ok _ =>
        let '(f2, ok) := fam_pc keqb I f1 in
        if ok && forallb (fun k => negb (pf k)) (fdirty f1)
        then (fam_cm keqb I f2, Committed)
        else if fam_abp I f2 then (f2, AbortPanicked) else (fam_ab keqb I f2, Aborted)
    end.

  Definition run_section (f : fam K S) (p : prog K A) (fl : list (option nat)) (pf : K -> bool)
    : fam K S * outcome :=
    let '(f1, r, _) := run_body f p fl in finish f1 r pf.

  Definition section_trace (f : fam K S) (p : prog K A) (fl : list (option nat)) : list val :=
    snd (run_body f p fl).

  (* a sequence of attempts; an archetype that crashed runs no further attempt *)
  Fixpoint run_sections (f : fam K S) (secs : list (prog K A * list (option nat) * (K -> bool)))
    : fam K S * list outcome :=
    match secs with
    | [] => (f, [])
    | (p, fl, pf) :: rest =>
        let '(f', o) := run_section f p fl pf in
        match o with
        | Crashed | AbortPanicked => (f', [o])
        | _ => let '(f'', os) := run_sections f' rest in (f'', o :: os)
        end
    end.
End Run.

(* ------------------------------------------------------------------ leaf resource kinds *)

(* PersistentLog write commands, decoded from the record the spec writes *)
Definition fld (name : string) (v : val) : option val :=
  match v with VR kvs => lookup (VS name) kvs | _ => None end.

Inductive plop := PPush (i : Z) (e : val) | PPop (i : Z).

Fixpoint db_del (i : Z) (db : list (Z * val)) : list (Z * val) :=
  match db with [] => [] | (j, v) :: r => if Z.eqb i j then db_del i r else (j, v) :: db_del i r end.
Definition db_set (i : Z) (e : val) (db : list (Z * val)) : list (Z * val) := db_del i db ++ [(i, e)].
Definition db_apply (db : list (Z * val)) (o : plop) : list (Z * val) :=
  match o with PPush i e => db_set i e db | PPop i => db_del i db end.

(* the loops of PersistentLog.WriteValue: new list and the ops appended *)
Fixpoint plog_push (l : list val) (es : list val) : list val * list plop :=
  match es with
  | [] => (l, [])
  | e :: r => let l1 := l ++ [e] in
              let '(l2, ops) := plog_push l1 r in
              (l2, PPush (Z.of_nat (List.length l1) - 1) e :: ops)
  end.
Fixpoint plog_pops (len : Z) (cnt : nat) (i : Z) : list plop :=
  match cnt with O => [] | S c => PPop (len - i - 1) :: plog_pops len c (i + 1) end.

(* decoding of a PersistentLog write: new list and the DB operations it queues; None = panic *)
Definition plog_write (l : list val) (v : val) : option (list val * list plop) :=
  match fld "cmd" v with
  | Some (VS c) =>
      if String.eqb c "log_concat" then
        match fld "entries" v with
        | Some (VT es) => Some (plog_push l es)
        | _ => None
        end
      else if String.eqb c "log_pop" then
        match fld "cnt" v with
        | Some (VI cnt) =>
            if (0 <=? cnt) && (cnt <=? Z.of_nat (List.length l))
            then Some (firstn (List.length l - Z.to_nat cnt) l,
                       plog_pops (Z.of_nat (List.length l)) (Z.to_nat cnt) 0)
            else None                                                   (* Slice panics *)
        | _ => None
        end
      else None                                                          (* panic("unknown") *)
  | _ => None
  end.

(* PersistentLog.ReadValue / Index + ImmutableResource.ReadValue *)
Definition plog_get (l : list val) (i : Z) : option val :=
  if (1 <=? i) && (i <=? Z.of_nat (List.length l)) then nth_error l (Z.to_nat (i - 1)) else None.

(* criticalSectionState of an unreplicated 2PC variable *)
Inductive tcs := TNot | TIn | TPre.
Definition tcs_enter (c : tcs) : tcs := match c with TNot => TIn | _ => c end.

(* GCounter.Write: int32 addition (wraps silently) *)
Definition add32 (a b : Z) : Z := ((a + b + 2147483648) mod 4294967296) - 2147483648.

Inductive leaf :=
| LLocal (value oldValue : val)                                  (* LocalArchetypeResource *)
| LIn (buffer backlog chan : list val)                           (* InputChan; chan = ghost Go channel *)
| LCIn (buffer backlog chan : list val)                          (* raftkvs CustomInChan *)
| LOut (buffer emitted : list val)                               (* OutputChan; emitted = ghost *)
| LSOut (emitted inflight : list val) (full : bool)              (* SingleOutputChan; ghost: emitted by committed sections /
                                                                    by the section in flight; full = consumer not ready *)
| LDummy (value : val)
| LFile (pending cached fs : option val)                         (* file; fs = ghost file content *)
| LPersist (hasNew : bool) (value oldValue : val) (db : option val) (* Persistent over a local; db = ghost *)
| LPLog (lg oldLg : list val) (hasOld : bool) (ops : list plop) (db : list (Z * val))
| LShared (value oldValue : val) (hasLock other : bool)          (* localShared; other = lock held elsewhere *)
| LRelaxed (hasSent : bool) (sent inflight : list val) (down : bool) (* relaxedMailboxesRemote; ghost stream, split as for LSOut *)
| LTcp (inCS : bool) (rbuf delivered : list val)                (* tcpMailboxesRemote + the receiving connection handler:
                                                                    rbuf = handler's localBuffer, delivered = queued batches (ghost) *)
| LCrdt (value oldValue : Z) (hasOld : bool)                      (* crdt.go, one node without peers, GCounter payload:
                                                                    value = the node's own count *)
| LTwoPC (value oldValue : val) (cs : tcs)                        (* twopc.go, no replicas *)
| LPlace                                                          (* PlaceHolder: every method panics *)
| LFD (st : option bool).                                         (* SingleFailureDetector: None = uninitialized,
                                                                    Some b = "the monitored archetype has failed" = b *)

Definition is_str (v : val) : bool := match v with VS _ => true | _ => false end.

Definition local_step (value : val) (a : act) : val * res val :=
  match a with
  | ARead p => match apply_path value p with Some v => (value, Ok v) | None => (value, Crash) end
  | AWrite p v => match subst_path value p v with Some n => (n, Ok VD) | None => (value, Crash) end
  | ATouch _ => (value, Refuse)
  end.

Definition leaf_step (s : leaf) (a : act) : leaf * res val :=
  match s with
  | LLocal value old =>
      let '(v', r) := local_step value a in (LLocal v' old, r)
  | LIn buffer backlog chan =>
      match a with
      | ARead [] =>
          match buffer with
          | v :: b' => (LIn b' (backlog ++ [v]) chan, Ok v)
          | [] => match chan with
                  | v :: c' => (LIn [] (backlog ++ [v]) c', Ok v)
                  | [] => (s, Refuse)                                  (* read timeout *)
                  end
          end
      | ATouch [] => (s, Refuse)
      | _ => (s, Crash)                     (* leaf Index error / WriteValue panics *)
      end
  | LCIn buffer backlog chan =>
      match a with
      | ARead [] =>
          match buffer with
          | v :: b' => (LCIn b' (backlog ++ [v]) chan, Ok v)
          | [] => match chan with
                  | v :: c' => (LCIn [] (backlog ++ [v]) c', Ok v)
                  | [] => (s, Ok (VB true))                            (* timeout yields TRUE *)
                  end
          end
      | ATouch [] => (s, Refuse)
      | _ => (s, Crash)
      end
  | LOut buffer emitted =>
      match a with
      | AWrite [] v => (LOut (buffer ++ [v]) emitted, Ok VD)
      | ATouch [] => (s, Refuse)
      | _ => (s, Crash)
      end
  | LSOut emitted inflight full =>
      match a with
      | AWrite [] v => if full then (s, Refuse) else (LSOut emitted (inflight ++ [v]) full, Ok VD)
      | ATouch [] => (s, Refuse)
      | _ => (s, Crash)
      end
  | LDummy value =>
      match a with
      | ARead _ => (s, Ok value)            (* Index returns the Dummy itself *)
      | AWrite _ _ => (s, Ok VD)            (* WriteValue does nothing *)
      | ATouch _ => (s, Refuse)
      end
  | LFile pending cached fs =>
      match a with
      | ARead [] =>
          match pending with
          | Some v => (s, Ok v)
          | None => match cached with
                    | Some v => (s, Ok v)
                    | None => match fs with
                              | Some v => (LFile None (Some v) fs, Ok v)
                              | None => (s, Crash)                     (* ReadFile error: panic *)
                              end
                    end
          end
      | AWrite [] v => if is_str v then (LFile (Some v) None fs, Ok VD) else (LFile pending None fs, Crash)
      | ATouch [] => (s, Refuse)
      | _ => (s, Crash)
      end
  | LPersist hasNew value old db =>
      (* Persistent.WriteValue and persistentSubResource.WriteValue set hasNewValue *)
      let '(v', r) := local_step value a in
      let hn := match a with AWrite _ _ => true | _ => hasNew end in
      (LPersist hn v' old db, r)
  | LPLog l oldl hasOld ops db =>
      match a with
      | ARead [] => (s, Ok (VT l))
      | ARead [VI i] => match plog_get l i with Some e => (s, Ok e) | None => (s, Crash) end
      | AWrite [] v =>
          let oldl' := if hasOld then oldl else l in
          match plog_write l v with
          | Some (l', o') => (LPLog l' oldl' true (ops ++ o') db, Ok VD)
          | None => (LPLog l oldl' true ops db, Crash)
          end
      | ATouch [] => (s, Refuse)
      | ATouch [VI i] => match plog_get l i with Some _ => (s, Refuse) | None => (s, Crash) end
      | _ => (s, Crash)
      end
  | LShared value old hasLock other =>
      match a with
      | ATouch [] => (s, Refuse)                                       (* refused before any call *)
      | _ =>
        if negb hasLock && other then (s, Refuse)                     (* acquireWithTimeout fails *)
        else let '(v', r) := local_step value a in (LShared v' old true other, r)
      end
  | LRelaxed hasSent sent inflight down =>
      match a with
      | AWrite [] v => if down then (s, Refuse) else (LRelaxed true sent (inflight ++ [v]) down, Ok VD)
      | ATouch [] => (s, Refuse)
      | _ => (s, Crash)
      end
  | LTcp inCS rbuf delivered =>
      match a with
      | AWrite [] v => (LTcp true ((if inCS then rbuf else []) ++ [v]) delivered, Ok VD)   (* begin resets localBuffer *)
      | ATouch [] => (s, Refuse)
      | _ => (s, Crash)
      end
  | LCrdt value old hasOld =>
      match a with
      | ARead [] => (s, Ok (VI value))
      | AWrite [] v =>
          let old' := if hasOld then old else value in
          match v with
          | VI n => (LCrdt (add32 value n) old' true, Ok VD)
          | _ => (LCrdt value old' true, Crash)                              (* AsNumber panics *)
          end
      | ATouch [] => (s, Refuse)
      | _ => (s, Crash)
      end
  | LTwoPC value old cs =>
      match a with
      | ARead [] => (LTwoPC value old (tcs_enter cs), Ok value)
      | AWrite [] v => (LTwoPC v old (tcs_enter cs), Ok VD)
      | ATouch [] => (s, Refuse)
      | _ => (s, Crash)
      end
  | LPlace =>
      match a with
      | ATouch [] => (s, Refuse)                  (* the wrapper refused before reaching the PlaceHolder *)
      | _ => (s, Crash)
      end
  | LFD st =>
      match a with
      | ARead [] => match st with Some b => (s, Ok (VB b)) | None => (s, Refuse) end
      | ATouch [] => (s, Refuse)
      | _ => (s, Crash)
      end
  end.

(* PreCommit is trivial for every kind except the 2PC variable, which (having nobody to ask) moves to
   hasPreCommitted *)
Definition leaf_pc (s : leaf) : leaf * bool :=
  match s with
  | LTwoPC value old _ => (LTwoPC value old TPre, true)
  | _ => (s, true)
  end.

Definition leaf_cm (s : leaf) : leaf :=
  match s with
  | LLocal value _ => LLocal value value
  | LIn buffer _ chan => LIn buffer [] chan
  | LCIn buffer _ chan => LCIn buffer [] chan
  | LOut buffer emitted => LOut [] (emitted ++ buffer)
  | LSOut emitted inflight full => LSOut (emitted ++ inflight) [] full
  | LDummy _ => s
  | LFile pending _ fs => LFile None None (match pending with Some v => Some v | None => fs end)
  | LPersist hasNew value _ db => LPersist false value value (if hasNew then Some value else db)
  | LPLog l oldl hasOld ops db =>
      if hasOld then LPLog l [] false [] (fold_left db_apply ops db) else s
  | LShared value old hasLock other => if hasLock then LShared value value false other else s
  | LRelaxed _ sent inflight down => LRelaxed false (sent ++ inflight) [] down
  | LTcp inCS rbuf delivered => if inCS then LTcp false [] (delivered ++ rbuf) else s
  | LCrdt value old _ => LCrdt value old false
  | LTwoPC value old cs => match cs with TPre => LTwoPC value value TNot | _ => s end   (* Commit asserts hasPreCommitted *)
  | LPlace => s
  | LFD _ => s
  end.

Definition leaf_ab (s : leaf) : leaf :=
  match s with
  | LLocal _ old => LLocal old old
  | LIn buffer backlog chan => LIn (backlog ++ buffer) [] chan
  | LCIn buffer backlog chan => LCIn (backlog ++ buffer) [] chan
  | LOut _ emitted => LOut [] emitted
  | LSOut _ _ _ => s
  | LDummy _ => s
  | LFile _ _ fs => LFile None None fs
  | LPersist _ _ old db => LPersist false old old db
  | LPLog l oldl hasOld ops db => if hasOld then LPLog oldl [] false [] db else s
  | LShared value old hasLock other => if hasLock then LShared old old false other else s
  | LRelaxed _ _ _ _ => s
  | LTcp _ rbuf delivered => LTcp false rbuf delivered
  | LCrdt value old hasOld => if hasOld then LCrdt old old false else s
  | LTwoPC _ old _ => LTwoPC old old TNot
  | LPlace => s
  | LFD _ => s
  end.

Definition leaf_abp (s : leaf) : bool :=
  match s with
  | LSOut _ _ _ => true                      (* "can't abort SingleOutputChan" *)
  | LRelaxed hasSent _ _ _ => hasSent        (* "cannot abort a critical section with a sent message" *)
  | LPlace => true                         (* ErrPlaceHolderAccess *)
  | _ => false
  end.

Definition leaf_impl : impl leaf act := mkImpl leaf_step leaf_pc leaf_cm leaf_ab leaf_abp.

(* ------------------------------------------------------------------ IncMap / HashMap over leaves *)

Definition imap := fam val leaf.

Definition imap_act (a : act) : option (val * act) :=
  match a with
  | ARead (i :: p) => Some (i, ARead p)
  | AWrite (i :: p) v => Some (i, AWrite p v)
  | ATouch (i :: p) => Some (i, ATouch p)
  | _ => None
  end.

Definition is_touch_nil (a : act) : bool := match a with ATouch [] => true | _ => false end.

Definition imap_step (s : imap) (a : act) : imap * res val :=
  match imap_act a with
  | Some ka => fam_step val_eqb leaf_impl s ka
  | None => (s, if is_touch_nil a then Refuse else Crash)
            (* refused before any call / ArchetypeResourceMapMixin: ErrArchetypeResourceMapReadWrite *)
  end.

Definition imap_impl : impl imap act :=
  mkImpl imap_step (fam_pc val_eqb leaf_impl) (fam_cm val_eqb leaf_impl) (fam_ab val_eqb leaf_impl)
         (fam_abp leaf_impl).

(* ------------------------------------------------------------------ a top-level resource *)

Section Sum.
  Context {S1 S2 A : Type}.
  Variable I1 : impl S1 A.
  Variable I2 : impl S2 A.
  Definition sum_impl : impl (S1 + S2) A :=
    mkImpl
      (fun s a => match s with
                  | inl x => let '(x', r) := i_step I1 x a in (inl x', r)
                  | inr y => let '(y', r) := i_step I2 y a in (inr y', r)
                  end)
      (fun s => match s with
                | inl x => let '(x', b) := i_pc I1 x in (inl x', b)
                | inr y => let '(y', b) := i_pc I2 y in (inr y', b)
                end)
      (fun s => match s with inl x => inl (i_cm I1 x) | inr y => inr (i_cm I2 y) end)
      (fun s => match s with inl x => inl (i_ab I1 x) | inr y => inr (i_ab I2 y) end)
      (fun s => match s with inl x => i_abp I1 x | inr y => i_abp I2 y end).
End Sum.

(* nestedArchetype: every ReadValue / WriteValue / PreCommit / Commit / Abort of the outer resource is one
   request to the nested system and its answer (read_ack with the value, write_ack, precommit_ack, commit_ack,
   abort_ack; "aborted" or a timeout = refusal; a stopped or misbehaving nested system = error).  The outer
   resource keeps no state of its own, so it is the nested system's state that is carried; the nested system
   is any leaf kind.  Index is blocked by ArchetypeResourceLeafMixin. *)
Definition nested_act (a : act) : option act :=
  match a with
  | ARead [] => Some a
  | AWrite [] _ => Some a
  | ATouch [] => Some a
  | _ => None
  end.
Definition nested_impl : impl leaf act :=
  mkImpl (fun s a => match nested_act a with Some a' => leaf_step s a' | None => (s, if false then Refuse else Crash) end)
         leaf_pc leaf_cm leaf_ab leaf_abp.

Definition node : Type := leaf + (imap + leaf).
Definition NLeaf (l : leaf) : node := inl l.
Definition NMap (m : imap) : node := inr (inl m).
Definition NNested (l : leaf) : node := inr (inr l).
Definition node_impl : impl node act := sum_impl leaf_impl (sum_impl imap_impl nested_impl).

Definition touch_of (a : act) (j : nat) : act :=
  match a with
  | ARead p => ATouch (firstn j p)
  | AWrite p _ => ATouch (firstn j p)
  | ATouch p => ATouch (firstn j p)
  end.

(* the MPCalContext: resources by handle + dirtyResourceHandles *)
Definition ctx := fam string node.
Definition ctx_run_section := @run_section string node act String.eqb node_impl touch_of.
Definition ctx_section_trace := @section_trace string node act String.eqb node_impl touch_of.
Definition ctx_run_sections := @run_sections string node act String.eqb node_impl touch_of.

(* ------------------------------------------------------------------ scripted sections
   What the correspondence harness executes: Run's loop reads `.pc`, then the body interprets a
   list of scripted operations. *)
Inductive sop :=
| SRead (h : string) (p : list val)
| SWrite (h : string) (p : list val) (v : val)
| SWriteLast (h : string) (p : list val)      (* write the value returned by the latest read *)
| SAwait (b : bool)
| SAssert (b : bool).

Fixpoint prog_of (ops : list sop) (last : val) : prog string act :=
  match ops with
  | [] => PDone
  | SRead h p :: r => PAct h (ARead p) (fun v => prog_of r v)
  | SWrite h p v :: r => PAct h (AWrite p v) (fun _ => prog_of r last)
  | SWriteLast h p :: r => PAct h (AWrite p last) (fun _ => prog_of r last)
  | SAwait true :: r => prog_of r last
  | SAwait false :: _ => PAwaitFalse
  | SAssert true :: r => prog_of r last
  | SAssert false :: _ => PAssertFalse
  end.

Definition attempt_prog (ops : list sop) : prog string act :=
  PAct ".pc"%string (ARead []) (fun _ => prog_of ops VD).

(* environment steps between attempts (the producer of an input channel, the other holder of a
   shared variable's lock, the consumer of a SingleOutputChan, the network of a relaxed mailbox) *)
Inductive envop :=
| EPush (h : string) (v : val)
| EPushAt (h : string) (k : val) (v : val)     (* a committed message arrives in mailbox k of a mailboxes map *)
| EOther (h : string) (b : bool).

Definition leaf_env (e : envop) (l : leaf) : leaf :=
  match e, l with
  | EPush _ v, LIn b bl c => LIn b bl (c ++ [v])
  | EPush _ v, LCIn b bl c => LCIn b bl (c ++ [v])
  | EOther _ o, LShared v old hl _ => LShared v old hl o
  | EOther _ o, LSOut em inf _ => LSOut em inf o
  | EOther _ o, LRelaxed hs sent inf _ => LRelaxed hs sent inf o
  | _, _ => l
  end.

Definition env_handle (e : envop) : string :=
  match e with EPush h _ => h | EPushAt h _ _ => h | EOther h _ => h end.

Definition ctx_env (c : ctx) (e : envop) : ctx :=
  match fres c (env_handle e) with
  | Some (inl l) => mkFam (fupd String.eqb (fres c) (env_handle e) (NLeaf (leaf_env e l))) (fdirty c)
  | Some (inr (inl m)) =>
      match e with
      | EPushAt h k v =>
          match fres m k with
          | Some l => mkFam (fupd String.eqb (fres c) h
                               (NMap (mkFam (fupd val_eqb (fres m) k (leaf_env (EPush h v) l)) (fdirty m)))) (fdirty c)
          | None => c
          end
      | _ => c
      end
  | _ => c
  end.

(* ------------------------------------------------------------------ observation (for the tie)
   What the harness can see of the real resources between attempts. *)
Definition oval (o : option val) : val := match o with Some v => VT [v] | None => VT [] end.

Fixpoint db_insert (x : Z * val) (l : list (Z * val)) : list (Z * val) :=
  match l with
  | [] => [x]
  | y :: r => if fst x <=? fst y then x :: l else y :: db_insert x r
  end.
Definition db_sort (l : list (Z * val)) : list (Z * val) := fold_right db_insert [] l.

Definition leaf_snap (l : leaf) : val :=
  match l with
  | LLocal v _ => v
  | LIn _ _ _ => VD
  | LCIn _ _ _ => VD
  | LOut _ em => VT em
  | LSOut em inf _ => VT (em ++ inf)
  | LDummy v => v
  | LFile _ _ fs => oval fs
  | LPersist _ v _ db => VT [v; oval db]
  | LPLog l _ _ _ db => VT [VT l; VT (map (fun '(i, e) => VT [VI i; e]) (db_sort db))]
  | LShared v _ _ _ => v
  | LRelaxed _ sent inf _ => VT (sent ++ inf)
  | LTcp _ _ delivered => VT delivered
  | LCrdt v _ _ => VI v
  | LTwoPC v _ _ => v
  | LPlace => VD
  | LFD st => match st with Some b => VB b | None => VD end
  end.

(* a snapshot request: handle, and for a map the keys to look at *)
Definition node_snap (n : option node) (keys : list val) : val :=
  match n with
  | None => VD
  | Some (inl l) => leaf_snap l
  | Some (inr (inl m)) => VT (map (fun k => match fres m k with Some l => leaf_snap l | None => VD end) keys)
  | Some (inr (inr l)) => leaf_snap l
  end.

Definition ctx_snap (c : ctx) (q : list (string * list val)) : list val :=
  map (fun '(h, keys) => node_snap (fres c h) keys) q.

(* After a panic inside abort() the resources visited before the panicking one have been rolled
   back and the others have not (Go map iteration order): only what the peers of the
   non-transactional kinds hold is compared. *)
Definition leaf_nontx (l : leaf) : bool :=
  match l with LSOut _ _ _ => true | LRelaxed _ _ _ _ => true | _ => false end.
Definition node_nontx (n : option node) (keys : list val) : bool :=
  match n with
  | Some (inl l) => leaf_nontx l
  | Some (inr (inl m)) => match keys with
                          | k :: _ => match fres m k with Some l => leaf_nontx l | None => false end
                          | [] => false
                          end
  | Some (inr (inr l)) => leaf_nontx l
  | None => false
  end.
Definition ctx_snap_panic (c : ctx) (q : list (string * list val)) : list val :=
  map (fun '(h, keys) => if node_nontx (fres c h) keys then node_snap (fres c h) keys else VD) q.

(* one scripted attempt as the harness reports it: outcome code, the values the successful
   operations returned (in order, VD for a write; the read of .pc dropped), the snapshot afterwards *)
Record attempt := mkAttempt {
  at_env : list envop;                    (* environment steps before the attempt *)
  at_ops : list sop;
  at_fl : list (option nat);
  at_pf : list string;                    (* handles whose PreCommit is made to fail *)
  at_epf : list (string * val)            (* (map handle, element key): that element's PreCommit refuses *)
}.

(* An element of an IncMap/HashMap whose PreCommit refuses makes the map's PreCommit refuse
   (IncMap.PreCommit yields the first error among its dirty elements), provided the element was
   touched by the section: whether it was is read off the state the body left behind. *)
Definition elem_refused (c : ctx) (epf : list (string * val)) (h : string) : bool :=
  existsb (fun hk => String.eqb h (fst hk) &&
                     match fres c h with
                     | Some (inr (inl m)) => fmem val_eqb (snd hk) (fdirty m)
                     | _ => false
                     end) epf.

Definition out_code (o : outcome) : Z :=
  match o with Committed => 0 | Aborted => 1 | Crashed => 2 | AbortPanicked => 3 end.

Fixpoint run_attempts (c : ctx) (ats : list attempt) (q : list (string * list val))
  : list (Z * list val) :=
  match ats with
  | [] => []
  | a :: rest =>
      let c0 := fold_left ctx_env (at_env a) c in
      let cb := fst (fst (run_body String.eqb node_impl touch_of c0 (attempt_prog (at_ops a)) (None :: at_fl a))) in
      let '(c1, o) := ctx_run_section c0 (attempt_prog (at_ops a)) (None :: at_fl a)
                        (fun h => existsb (String.eqb h) (at_pf a) || elem_refused cb (at_epf a) h) in
      let tr := ctx_section_trace c0 (attempt_prog (at_ops a)) (None :: at_fl a) in
      (out_code o, VT (tl tr) :: match o with AbortPanicked => ctx_snap_panic c1 q | _ => ctx_snap c1 q end) ::
      match o with
      | Crashed | AbortPanicked => []
      | _ => run_attempts c1 rest q
      end
  end.

Fixpoint val_list_eqb (a b : list val) : bool :=
  match a, b with
  | [], [] => true
  | x :: a', y :: b' => val_eqb x y && val_list_eqb a' b'
  | _, _ => false
  end.

Fixpoint obs_eqb (a b : list (Z * list val)) : bool :=
  match a, b with
  | [], [] => true
  | (x, xs) :: a', (y, ys) :: b' => Z.eqb x y && val_list_eqb xs ys && obs_eqb a' b'
  | _, _ => false
  end.

(* building a context from a description *)
Fixpoint mk_res (rs : list (string * node)) : string -> option node :=
  match rs with
  | [] => fun _ => None
  | (h, n) :: r => fun k => if String.eqb k h then Some n else mk_res r k
  end.
Definition mk_ctx (rs : list (string * node)) : ctx := mkFam (mk_res rs) [].

(* IncMap with a fill function / HashMap with a fixed table *)
Definition mk_incmap (fill : val -> leaf) : node := NMap (mkFam (fun k => Some (fill k)) []).
Fixpoint assoc_leaf (tbl : list (val * leaf)) (k : val) : option leaf :=
  match tbl with [] => None | (k', l) :: r => if val_eqb k k' then Some l else assoc_leaf r k end.
Definition mk_hashmap (tbl : list (val * leaf)) : node := NMap (mkFam (assoc_leaf tbl) []).
(* FileSystem: IncMap of files over an initial ghost file system *)
Definition mk_filesystem (files : list (val * val)) : node :=
  mk_incmap (fun k => LFile None None (lookup k files)).

Fixpoint mismatches_from (i : nat)
  (cases : list (list (string * node) * list attempt * list (string * list val) * list (Z * list val)))
  : list nat :=
  match cases with
  | [] => []
  | (rs, ats, q, obs) :: rest =>
      let m := mismatches_from (S i) rest in
      if obs_eqb (run_attempts (mk_ctx rs) ats q) obs then m else i :: m
  end.
